#!/bin/bash
# Runs the repository's pinned baseline (guard OFF) and checks that the 34 stable tests of
# /root/.vp/BASELINE.json still pass.  usage: tools/baseline.sh [repo-dir]
REPO=${1:-/repo}
OUT=$(mktemp -d)
trap 'rm -rf "$OUT"' EXIT
cd "$REPO" || exit 2
env -u BYCYCLE_VERIF /venv/bin/python -m pytest -ra -q -p no:cacheprovider --timeout=900 \
    --continue-on-collection-errors --junitxml="$OUT/j.xml" >"$OUT/log" 2>&1
/venv/bin/python - "$OUT/j.xml" <<'PY'
import json, sys, xml.etree.ElementTree as ET
base = json.load(open('/root/.vp/BASELINE.json'))['stable_pass']
ok = set()
for tc in ET.parse(sys.argv[1]).getroot().iter('testcase'):
    if not any(c.tag in ('failure', 'error', 'skipped') for c in tc):
        ok.add(tc.get('classname') + '::' + tc.get('name'))
missing = [t for t in base if t not in ok]
print(f"baseline: {len(base) - len(missing)}/{len(base)} stable tests pass; total passing now {len(ok)}")
for t in missing:
    print("MISSING", t)
sys.exit(1 if missing else 0)
PY
