#!/venv/bin/python
import json, os, sys
sys.path.insert(0, '/verif/harness')
import registry
ids = [json.loads(l)['id'] for l in open('/verif/properties.jsonl')]
m = {
 "version": 1,
 "setup_cmd": "./setup.sh",
 "hooks": {
  "guard": "BYCYCLE_VERIF",
  "enable": "no source hooks are needed: the harness interposes on the neurodsp boundary, on the pool-worker entry and on bycycle's public stage functions from outside the repository (DESIGN.md 4.1); checks import bycycle from /repo's working tree (or VERIF_REPO)",
  "baseline_off_cmd": "cd /repo && env -u BYCYCLE_VERIF /venv/bin/python -m pytest -ra -q -p no:cacheprovider --timeout=900 --continue-on-collection-errors",
  "source_commits": [],
  "add_only": True
 },
 "engines": [{"name": "tlc", "path": "/verif/harness/tlc.py", "serves_properties": sorted(registry.CHECKS),
              "kind_free_text": "TLC 1.8 model checker on /verif/spec/*.tla: MC_* exhaustive configurations (with indexed conformance tables of real outputs) and Trace_* trace-validation batches"}],
 "checks": [],
 "not_applicable": [],
 "notes": "All claimed properties are decided with the TLA+ specification in /verif/spec (see DESIGN.md). known_findings.json lists repaired defects (status fixed) and open findings."
}
for i in ids:
    c = registry.CHECKS.get(i)
    if c:
        m['checks'].append({
            "property_id": i,
            "quick_cmd": "./check %s --tier quick" % i,
            "thorough_cmd": "./check %s --tier thorough" % i,
            "evidence_file": "/verif/evidence/%s.json" % i,
            "replay_cmd_template": "./check %s --replay {path}" % i,
            "engine": "tlc",
            "level_claimed": {"category": c.get('level', 'model_checking'), "text": c['text'], "design_ref": c['design_ref']},
            "level_note": c['note'],
            "technique": c['technique'],
        })
    else:
        m['not_applicable'].append({"property_id": i, "reason": getattr(registry, 'NA', {}).get(i, registry.PENDING_REASON)})
json.dump(m, open('/verif/MANIFEST.json', 'w'), indent=1)
print('MANIFEST.json: %d checks, %d not_applicable' % (len(m['checks']), len(m['not_applicable'])))
