#!/bin/bash
# tools/seedtest.sh <patch.diff> <Cxx> [tier]  - apply a seeded change to a scratch worktree of /repo HEAD (never to
# /repo itself), run the property's check against it, report whether a VIOLATION was raised, clean up.
PATCH=$(readlink -f "$1"); PID=$2; TIER=${3:-quick}
W=$(mktemp -d /tmp/vw.XXXXXX)
git -C /repo worktree add -q --detach "$W/repo" HEAD || exit 2
trap 'git -C /repo worktree remove --force "$W/repo" >/dev/null 2>&1; rm -rf "$W"' EXIT
git -C "$W/repo" apply "$PATCH" || { echo "PATCH-DOES-NOT-APPLY $PATCH"; exit 2; }
mkdir -p "$W/ev" "$W/out"
cd /verif && VERIF_REPO="$W/repo" VERIF_EVIDENCE_DIR="$W/ev" VERIF_OUT_DIR="$W/out" ./check "$PID" --tier "$TIER" > "$W/log" 2>&1
rc=$?
grep -E "violation:|VIOLATION|KNOWN-FINDING|MACHINERY|PASS|FAIL" "$W/log" | head -${SEEDTEST_LINES:-8}
echo "seedtest $(basename "$(dirname "$PATCH")")/$(basename "$PATCH") $PID rc=$rc"
exit $rc
