#!/bin/bash
# tools/verify_seed.sh <seed-dir> <A|B>  - independently confirm a seeded change: it applies to a clean worktree of /repo HEAD,
# the repository's test-suite result is unchanged (same failing set as the clean tree), its demonstration exits 1 with the
# change and 0 without.  Prints one line.
D=$(readlink -f "$1"); X=$2
W=$(mktemp -d /tmp/vs.XXXXXX)
git -C /repo worktree add -q --detach "$W/repo" HEAD || exit 2
trap 'git -C /repo worktree remove --force "$W/repo" >/dev/null 2>&1; rm -rf "$W"' EXIT
cd "$W/repo"
/venv/bin/python "$D/${X}_demo.py" "$W/repo" >"$W/demo0.log" 2>&1; d0=$?
git apply "$D/$X.diff" || { echo "SEED $(basename $D)/$X: PATCH-DOES-NOT-APPLY"; exit 2; }
/venv/bin/python "$D/${X}_demo.py" "$W/repo" >"$W/demo1.log" 2>&1; d1=$?
/venv/bin/python -m pytest -q -p no:cacheprovider --timeout=900 bycycle 2>&1 | tail -1 > "$W/t.log"
fails=$(/venv/bin/python -m pytest -q -p no:cacheprovider --timeout=900 bycycle 2>&1 | grep -E "^(FAILED|ERROR)" | grep -v -E "test_fetch_bycycle_data|test_load_bycycle_data|test_persistent_features" | wc -l)
echo "SEED $(basename $D)/$X: demo_clean=$d0 demo_mutant=$d1 extra_test_failures=$fails tests: $(cat $W/t.log)"
