#!/usr/bin/env python3-vt
"""Validate MANIFEST.json and every evidence file against the harness schemas (uses the tooling venv's jsonschema)."""
import json, sys, glob, jsonschema
ok = True
def v(path, schema):
    global ok
    try:
        jsonschema.validate(json.load(open(path)), json.load(open(schema)))
        print('valid  ', path)
    except Exception as e:
        ok = False; print('INVALID', path, str(e).splitlines()[0])
v('/verif/MANIFEST.json', '/root/.vp/MANIFEST.schema.json')
for f in sorted(glob.glob('/verif/evidence/*.json')):
    v(f, '/root/.vp/EVIDENCE.schema.json')
m = json.load(open('/verif/MANIFEST.json'))
ids = [json.loads(l)['id'] for l in open('/verif/properties.jsonl')]
claimed = [c['property_id'] for c in m['checks']]; na = [c['property_id'] for c in m.get('not_applicable', [])]
for i in ids:
    if (i in claimed) == (i in na):
        ok = False; print('property', i, 'must be exactly one of claimed / not_applicable')
sys.exit(0 if ok else 1)
