#!/venv/bin/python
"""Sensitivity self-test: run the relevant quick checks against every seeded change (scratch worktree, never /repo itself) and record
which checks raise a VIOLATION.  usage: tools/selftest.py [ids...]   Writes seeded/<id>/meta.json (detected_by) and selftest/RESULTS.md."""
import concurrent.futures as cf
import json
import os
import re
import subprocess
import sys

V = '/verif'
EXTRA = {'C12-B': ['C11'], 'C14-B': ['C12'], 'C13-B': ['C15'], 'C16-A': ['C15'], 'C15-A': ['C13'], 'C01-A': ['C02', 'C03'], 'C01-B': ['C02'], 'C07-B': ['C08'],
         'C10-A': ['C03'], 'C10-B': ['C04'], 'C09-A': ['C05'], 'C04-B': ['C15'], 'C19-B': ['C08'], 'HIST-D03': ['C14'], 'HIST-D01': ['C06'], 'HIST-D09b': ['C20'], 'C20-B': ['C15', 'C18'], 'C01-E': ['C15', 'C14'], 'C06-F': ['C15'], 'C07-F': ['C14'], 'C09-E': ['C12'], 'C11-F': ['C14'], 'C12-E': ['C14'], 'C16-F': ['C14'], 'C15-E': ['C14'], 'C13-E': ['C15'], 'C06-J': ['C16'], 'C14-I': ['C16'], 'C11-J': ['C14'], 'C16-I': ['C14'], 'C16-K': ['C06'], 'C01-L': ['C14'], 'C04-L': ['C15'], 'C15-K': ['C04'], 'C01-P': ['C15', 'C20'], 'C09-O': ['C07'], 'HIST-D19': ['C03', 'C05']}


def one(job):
    sid, pid = job
    p = subprocess.run([V + '/tools/seedtest.sh', '%s/seeded/%s/patch.diff' % (V, sid), pid], capture_output=True, text=True, env=dict(os.environ, SEEDTEST_LINES='3'))
    keys = re.findall(r'violation: ([^:]+):', p.stdout)
    return sid, pid, p.returncode, keys[:2]


def report():
    ids = sorted(os.listdir(V + '/seeded'))
    lines = ['| seeded change | property | what it changes | needs | check -> result (first violated clauses) |', '|---|---|---|---|---|']
    for sid in ids:
        meta = json.load(open('%s/seeded/%s/meta.json' % (V, sid)))
        cell = '; '.join('%s -> %s%s' % (r['check'], {0: 'MISSED', 1: 'VIOLATION', 2: 'machinery failure'}.get(r['exit'], r['exit']), (' (' + r['first_clauses'][0] + ')') if r['first_clauses'] else '')
                         for r in meta.get('selftest', []))
        lines.append('| %s | %s | %s | %s | %s |' % (sid, meta['property'], str(meta.get('summary', '')).replace('|', '/').replace('\n', ' ')[:200], str(meta.get('needs', '')).replace('|', '/').replace('\n', ' ')[:140], cell))
    os.makedirs(V + '/selftest', exist_ok=True)
    open(V + '/selftest/RESULTS.md', 'w').write('\n'.join(lines) + '\n')
    print(len(ids), 'seeded changes;', sum(1 for sid in ids if json.load(open('%s/seeded/%s/meta.json' % (V, sid))).get('detected_by')), 'detected by at least one check')


def main():
    if sys.argv[1:] == ['--report']:
        return report()
    ids = sys.argv[1:] or sorted(os.listdir(V + '/seeded'))
    jobs = []
    for sid in ids:
        meta = json.load(open('%s/seeded/%s/meta.json' % (V, sid)))
        for pid in [meta['property']] + EXTRA.get(sid, []):
            jobs.append((sid, pid))
    res = {}
    with cf.ThreadPoolExecutor(max_workers=int(os.environ.get('SELFTEST_PAR', '3'))) as ex:
        for sid, pid, rc, keys in ex.map(one, jobs):
            res.setdefault(sid, []).append((pid, rc, keys))
            print(sid, pid, 'rc=%d' % rc, keys, flush=True)
    os.makedirs(V + '/selftest', exist_ok=True)
    lines = ['| seeded change | property | what it changes | needs | check -> result (first violated clause) |', '|---|---|---|---|---|']
    for sid in ids:
        mp = '%s/seeded/%s/meta.json' % (V, sid)
        if not os.path.exists(mp):          # a seed that was removed while the run was under way
            continue
        meta = json.load(open(mp))
        meta['detected_by'] = [pid for pid, rc, _ in res.get(sid, []) if rc == 1]
        meta['selftest'] = [{'check': pid, 'exit': rc, 'first_clauses': keys} for pid, rc, keys in res.get(sid, [])]
        json.dump(meta, open(mp, 'w'), indent=1)
        cell = '; '.join('%s -> %s%s' % (pid, {0: 'MISSED', 1: 'VIOLATION', 2: 'machinery failure'}.get(rc, rc), (' (' + keys[0] + ')') if keys else '') for pid, rc, keys in res.get(sid, []))
        lines.append('| %s | %s | %s | %s | %s |' % (sid, meta['property'], meta.get('summary', '').replace('|', '/')[:160], meta.get('needs', '').replace('|', '/')[:120], cell))
    if not sys.argv[1:]:
        open(V + '/selftest/RESULTS.md', 'w').write('\n'.join(lines) + '\n')
    missed = [sid for sid in ids if not any(rc == 1 for _, rc, _ in res.get(sid, []))]
    print('missed:', missed)


if __name__ == '__main__':
    main()
