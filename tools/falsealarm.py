#!/venv/bin/python
"""False-alarm self-test: behaviour-preserving refactorings (written by independent sub-agents who were given the 20 property texts and asked to
re-implement functions without changing observable behaviour) must NOT raise a VIOLATION.  usage: tools/falsealarm.py [ids...]
Reads refactorings/<id>/patch.diff + meta.json (with "checks"), writes selftest/FALSE_ALARMS.md."""
import concurrent.futures as cf
import json
import os
import re
import subprocess
import sys

V = '/verif'


def one(job):
    rid, pid = job
    p = subprocess.run([V + '/tools/seedtest.sh', '%s/refactorings/%s/patch.diff' % (V, rid), pid], capture_output=True, text=True, env=dict(os.environ, SEEDTEST_LINES='4'))
    keys = re.findall(r'violation: ([^:]+):', p.stdout)
    return rid, pid, p.returncode, keys[:3], p.stdout[-400:]


def report():
    ids = sorted(os.listdir(V + '/refactorings'))
    lines = ['| refactoring | what was re-implemented | uses a freedom the properties leave | checks run -> result |', '|---|---|---|---|']
    for rid in ids:
        meta = json.load(open('%s/refactorings/%s/meta.json' % (V, rid)))
        cell = '; '.join('%s -> %s' % (r['check'], {0: 'no alarm', 1: 'ALARM ' + ','.join(r['clauses']), 2: 'machinery failure'}.get(r['exit'], r['exit'])) for r in meta.get('result', []))
        lines.append('| %s | %s | %s | %s |' % (rid, str(meta.get('summary', '')).replace('|', '/').replace('\n', ' ')[:260], str(meta.get('uses_property_freedom', 'no')).replace('|', '/')[:80], cell))
    os.makedirs(V + '/selftest', exist_ok=True)
    open(V + '/selftest/FALSE_ALARMS.md', 'w').write('\n'.join(lines) + '\n')
    print('\n'.join(lines[-4:]))


def main():
    if sys.argv[1:] == ['--report']:
        return report()
    ids = sys.argv[1:] or sorted(os.listdir(V + '/refactorings'))
    jobs = [(rid, pid) for rid in ids for pid in json.load(open('%s/refactorings/%s/meta.json' % (V, rid)))['checks']]
    res = {}
    with cf.ThreadPoolExecutor(max_workers=int(os.environ.get('SELFTEST_PAR', '3'))) as ex:
        for rid, pid, rc, keys, tail in ex.map(one, jobs):
            res.setdefault(rid, []).append((pid, rc, keys))
            print(rid, pid, 'rc=%d' % rc, keys, '' if rc == 0 else tail.replace('\n', ' | ')[-300:], flush=True)
    lines = ['| refactoring | what was re-implemented | checks run -> result |', '|---|---|---|']
    for rid in ids:
        mp = '%s/refactorings/%s/meta.json' % (V, rid)
        meta = json.load(open(mp))
        meta['result'] = [{'check': pid, 'exit': rc, 'clauses': keys} for pid, rc, keys in res.get(rid, [])]
        json.dump(meta, open(mp, 'w'), indent=1)
        cell = '; '.join('%s -> %s' % (pid, {0: 'no alarm', 1: 'ALARM ' + ','.join(keys), 2: 'machinery failure'}.get(rc, rc)) for pid, rc, keys in res.get(rid, []))
        lines.append('| %s | %s | %s |' % (rid, meta.get('summary', '').replace('|', '/')[:200], cell))
    if not sys.argv[1:]:
        os.makedirs(V + '/selftest', exist_ok=True)
        open(V + '/selftest/FALSE_ALARMS.md', 'w').write('\n'.join(lines) + '\n')
    print('alarms:', [(rid, pid) for rid in ids for pid, rc, _ in res.get(rid, []) if rc != 0])


if __name__ == '__main__':
    main()
