#!/bin/bash
# tools/runall.sh [tier] [seed] [evidence-dir]  - run every registered check, one line per check
TIER=${1:-quick}; export VERIF_SEED=${2:-0}
[ -n "$3" ] && export VERIF_EVIDENCE_DIR="$3" VERIF_OUT_DIR="$3/out"
cd "$(dirname "$(readlink -f "$0")")/.."
for p in C01 C02 C03 C04 C05 C06 C07 C08 C09 C10 C11 C12 C13 C14 C15 C16 C17 C18 C19 C20; do
  ./check $p --tier $TIER > /tmp/runall_${TIER}_$p.log 2>&1; rc=$?
  echo "$p rc=$rc $(grep -E '^\[C..\] (PASS|FAIL)' /tmp/runall_${TIER}_$p.log | tail -1) $(grep -c KNOWN-FINDING /tmp/runall_${TIER}_$p.log) known $(grep -E 'violation:|MACHINERY' /tmp/runall_${TIER}_$p.log | head -2 | cut -c1-200)"
done
