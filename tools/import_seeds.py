#!/venv/bin/python
"""tools/import_seeds.py <round-dir> <round-no> <origin text>: confirm (tools/verify_seed.sh) and import the changes a seeding round left in
<round-dir>/<ID>/out/{X.diff, X_demo.py, X_meta.json} as seeded/<ID>-X/{patch.diff, demo.py, meta.json}.  Only confirmed changes are kept."""
import concurrent.futures as cf
import glob
import json
import os
import re
import shutil
import subprocess
import sys

V = '/verif'


def one(job):
    d, x = job
    p = subprocess.run([V + '/tools/verify_seed.sh', d, x], capture_output=True, text=True)
    return d, x, p.stdout.strip().splitlines()[-1] if p.stdout.strip() else p.stderr[-300:]


def main():
    rd, rno, origin = sys.argv[1], sys.argv[2], sys.argv[3]
    jobs = []
    for diff in sorted(glob.glob(rd + '/C*/out/?.diff')):
        jobs.append((os.path.dirname(diff), os.path.basename(diff)[0]))
    with cf.ThreadPoolExecutor(max_workers=4) as ex:
        for d, x, line in ex.map(one, jobs):
            pid = os.path.basename(os.path.dirname(d))
            ok = re.search(r'demo_clean=0 demo_mutant=1 extra_test_failures=0 ', line) is not None
            print(('KEEP ' if ok else 'DROP ') + line, flush=True)
            if not ok:
                continue
            sid = '%s-%s' % (pid, x)
            dst = '%s/seeded/%s' % (V, sid)
            os.makedirs(dst, exist_ok=True)
            shutil.copy('%s/%s.diff' % (d, x), dst + '/patch.diff')
            shutil.copy('%s/%s_demo.py' % (d, x), dst + '/demo.py')
            meta = json.load(open('%s/%s_meta.json' % (d, x)))
            meta.update({'id': sid, 'property': pid, 'origin': 'round %s: %s' % (rno, origin), 'confirmed': line})
            json.dump(meta, open(dst + '/meta.json', 'w'), indent=1)


if __name__ == '__main__':
    main()
