#!/venv/bin/python
"""tools/selftest_from_log.py <log>: record the results printed by an (interrupted) tools/selftest.py run in seeded/<id>/meta.json."""
import ast, json, os, re, sys
res = {}
for line in open(sys.argv[1]):
    m = re.match(r'^(\S+) (C\d\d) rc=(\d+) (\[.*\])\s*$', line)
    if m:
        res.setdefault(m.group(1), {})[m.group(2)] = (int(m.group(3)), ast.literal_eval(m.group(4)))
n = 0
for sid, d in res.items():
    mp = '/verif/seeded/%s/meta.json' % sid
    if not os.path.exists(mp):
        continue
    meta = json.load(open(mp))
    old = {r['check']: r for r in meta.get('selftest', [])}
    for pid, (rc, keys) in d.items():
        old[pid] = {'check': pid, 'exit': rc, 'first_clauses': keys}
    order = [meta['property']] + sorted(k for k in old if k != meta['property'])
    meta['selftest'] = [old[k] for k in order if k in old]
    meta['detected_by'] = [r['check'] for r in meta['selftest'] if r['exit'] == 1]
    json.dump(meta, open(mp, 'w'), indent=1)
    n += 1
print('recorded', n, 'seeds')
