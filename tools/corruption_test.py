#!/venv/bin/python
"""Trace-corruption self-test: the trace specifications constrain more than length.

For every Trace_* module a few VALID recorded cases are taken from the real code, then ONE recorded field is corrupted (a sample index
shifted by one, a label flipped, a ratio changed, an environment argument altered, two results swapped, a dictionary snapshot edited, a
marker moved ...).  TLC must accept every original and reject every corrupted case, naming a clause.  Writes selftest/CORRUPTION.md.
"""
import copy
import os
import sys

sys.path.insert(0, '/verif/harness')
import common  # noqa: E402

common.bind_repo()
import warnings  # noqa: E402

warnings.simplefilter('ignore')
import numpy as np  # noqa: E402

import gen  # noqa: E402
import pipeline  # noqa: E402
import record  # noqa: E402
import tlc  # noqa: E402
import tv  # noqa: E402

ROWS = []


def judge(ctx, module, cases, names, cfg=None, extra=None):
    if extra:
        verdicts = extra(ctx, cases)
    else:
        verdicts = tv.validate(ctx, module, cases, jvms=4)
    for name, v in zip(names, verdicts):
        expect_ok = name.startswith('original')
        ok = (not v) if expect_ok else bool(v)
        ROWS.append((module, name, 'accepted' if not v else 'rejected: ' + ', '.join(dict.fromkeys(v))[:110], 'as expected' if ok else 'UNEXPECTED'))
        print(module, name, v[:3], 'OK' if ok else 'UNEXPECTED', flush=True)


def pipeline_cases(ctx):
    cases = gen.corpus(4242, 6, max_len=500)
    for i, c in enumerate(cases):
        c['opts']['return_samples'] = True
        c['opts']['burst_method'] = 'cycles' if i % 2 == 0 else 'amp'
        if i % 2 == 0:
            c['opts']['burst_kwargs'] = None
            c['opts']['threshold_kwargs'] = {'amp_fraction_threshold': .2, 'amp_consistency_threshold': .4, 'period_consistency_threshold': .4, 'monotonicity_threshold': .5, 'min_n_cycles': 2}
        else:
            c['opts']['burst_kwargs'] = {'amp_threshes': (0.5, 1.0)}
            c['opts']['threshold_kwargs'] = {'burst_fraction_threshold': .5, 'min_n_cycles': 2}
    recs = [record.record_compute_features(c)[0] for c in cases]
    recs = [r for r in recs if len(r['rows']) >= 4]
    out, names = [], []
    for k, r in enumerate(recs[:3]):
        out.append(r)
        names.append('original %d (%s, %s)' % (k, r['center'], r['method']))
    r0 = recs[0]

    def mut(name, f):
        c = copy.deepcopy(r0)
        f(c)
        out.append(c)
        names.append(name)
    mut('sample index of one centre extremum + 1', lambda c: c['rows'][1].__setitem__('centre', c['rows'][1]['centre'] + 1))
    mut('one midpoint (zx1) - 1', lambda c: c['rows'][2].__setitem__('zx1', c['rows'][2]['zx1'] - 1))
    mut('one recorded peak of find_extrema + 1', lambda c: c['ext']['pk'].__setitem__(1, c['ext']['pk'][1] + 1))
    mut('period of one row + 1', lambda c: c['rows'][1].__setitem__('period', c['rows'][1]['period'] + 1))
    mut('volt_rise of one row + 1 grid unit', lambda c: c['rows'][2].__setitem__('volt_rise', c['rows'][2]['volt_rise'] + 1))
    mut('time_rdsym numerator + 1', lambda c: c['rows'][1].__setitem__('time_rdsym', [c['rows'][1]['time_rdsym'][0] + 1, c['rows'][1]['time_rdsym'][1]]))
    mut('band_amp numerator + 1', lambda c: c['rows'][1].__setitem__('band_amp', [c['rows'][1]['band_amp'][0] + 1, c['rows'][1]['band_amp'][1]]))
    mut('one burst label flipped', lambda c: c['rows'][2].__setitem__('is_burst', not c['rows'][2]['is_burst']))
    mut('filter called with remove_edges=True', lambda c: c['filt'].__setitem__('remove_edges', True))
    mut('filter band edge changed', lambda c: c['filt'].__setitem__('fhi', [c['filt']['fhi'][0] + 1, c['filt']['fhi'][1]]))
    mut('filter input not padded (first sample dropped)', lambda c: c['filt'].__setitem__('input', c['filt']['input'][1:]))
    mut('amp_by_time called with n_cycles=4', lambda c: c['amp'].__setitem__('ncyc', [4, 1]))
    mut('one row removed from the table', lambda c: c['rows'].pop(1))
    mut('a column missing', lambda c: c['cols'].pop(0))
    mut('find_extrema event removed (hook removed): still judged from the environment events', lambda c: c['ext'].update({'seen': False, 'pk': [], 'tr': []}))
    # the last one must still be ACCEPTED (the specification computes the unlogged stage itself)
    names[-1] = 'original with the find_extrema event removed (unlogged stage computed by the specification)'
    ra = next((r for r in recs if r['method'] == 'amp'), None)
    if ra is not None:
        c = copy.deepcopy(ra)
        c['dt']['mnc'] = c['dt']['mnc'] + 1
        out.append(c)
        names.append('dual-threshold detector called with another min_n_cycles')
        c = copy.deepcopy(ra)
        c['rows'][1]['burst_fraction'] = [1, 7]
        out.append(c)
        names.append('burst_fraction of one cycle changed')
    judge(ctx, 'Trace_Pipeline', out, names)


def relation_cases(ctx):
    import relations
    rng = np.random.default_rng(1)
    cases = gen.corpus(77, 4, max_len=400)
    out, names = [], []
    for c in cases[:2]:
        b, _ = relations._variant(c, 'C09.mirror', rng)
        _, sa = relations._rec(c)
        _, sb = relations._rec(b)
        if len(sa['rows']) < 3:
            continue
        out.append({'rel': 'C09.mirror', 'A': sa, 'B': sb})
        names.append('original mirror pair')
        bad = copy.deepcopy(out[-1])
        bad['B']['rows'][1]['volt_peak'] += 1
        out.append(bad)
        names.append('volt_peak of one row of the mirrored run + 1')
        bad = copy.deepcopy(out[-2])
        bad['B']['rows'][1]['is_burst'] = not bad['B']['rows'][1]['is_burst']
        out.append(bad)
        names.append('one label of the mirrored run flipped')
        break
    judge(ctx, 'Trace_Relations', out, names)


def pool_cases(ctx):
    import pool_tv as pt
    from props import c11
    rng = np.random.default_rng(3)
    logdir = ctx.scratch.sub('pl')
    sigs = pt.make_sigs(rng, (3,))
    kw = [pt.kw_variant(rng, i) for i in range(3)]
    case, _ = pt.run_2d(sigs, 64, (8, 12), kw, 3, None, [0.14, 0.07, 0.0], logdir)
    case['ref'] = pt.reference_2d(sigs, 64, (8, 12), kw)
    case['pid'] = 'C11'
    swapped = copy.deepcopy(case)
    swapped['out'][0], swapped['out'][1] = swapped['out'][1], swapped['out'][0]
    badlog = copy.deepcopy(case)
    badlog['logs'] = [[2, 1, 3]]          # one worker claims to have run task 2 before task 1: not FIFO
    # a 2-D run through the group object (fitted before to another stack), with the group's recompute_edges
    gcase, _ = pt.run_2d(sigs, 64, (8, 12), pt.kw_variant(rng, 1), 2, None, [0.0, 0.0, 0.0], logdir, via_group=True)
    gcase['ref'] = pt.reference_2d(sigs, 64, (8, 12), pt.kw_variant(rng, 1))
    gcase['pid'] = 'C11'
    gm = copy.deepcopy(gcase)
    gm['models'][0], gm['models'][1] = gm['models'][1], gm['models'][0]
    gr = copy.deepcopy(gcase)
    gr['rmodels'][-1] += 1
    big = copy.deepcopy(case)
    big['check_logs'], big['check_schedule'] = True, False
    bigbad = copy.deepcopy(big)
    bigbad['logs'] = [[1, 2], [2, 3]]       # task 2 claimed by two workers
    cases = [case, swapped, badlog, gcase, gm, gr, big, bigbad]
    metas = [{'api': 'x', 'realised_completion_order': []}] * len(cases)
    sub = common.Ctx('C11', 'quick', 0, ctx.scratch)
    verdicts = c11.judge(sub, cases, metas, 'C11')
    for name, v in zip(['original 2-D run', 'two result tables swapped', 'worker log not in submission order', 'original 2-D run through the group object (refit + group recompute_edges)',
                        'two models of the group swapped', 'one model table after the group recompute_edges altered', 'original run judged without schedule search',
                        'one task in the logs of two workers (no schedule search)'], verdicts):
        expect_ok = name.startswith('original')
        ok = (not v) if expect_ok else bool(v)
        ROWS.append(('Trace_Pool', name, 'accepted' if not v else 'rejected: ' + ', '.join(v)[:110], 'as expected' if ok else 'UNEXPECTED'))
        print('Trace_Pool', name, v, 'OK' if ok else 'UNEXPECTED', flush=True)


def session_cases(ctx):
    import session_rp
    beh = [{'a': 'New', 'o': 1, 'method': 'amp', 'tk': 3, 's': 0, 'v': 0}, {'a': 'Fit', 'o': 1, 'method': 'amp', 'tk': 3, 's': 1, 'v': 0},
           {'a': 'Edit', 'o': 3, 'method': 'mnc', 'tk': 0, 's': 0, 'v': 3}, {'a': 'Fit', 'o': 1, 'method': 'amp', 'tk': 3, 's': 1, 'v': 0},
           {'a': 'Call', 'o': 0, 'method': 'amp', 'tk': 3, 's': 1, 'v': 0, 'f': 'compute_features'}, {'a': 'GetAttr', 'o': 1, 'method': 'amp', 'tk': 3, 's': 0, 'v': 0}]
    tr = session_rp.replay(beh, shorthand=False)
    t1 = copy.deepcopy(tr)
    t1[1]['heap'][1]['mnc'] = 3            # as if the fit had written min_n_cycles into the caller's burst options
    t2 = copy.deepcopy(tr)
    t2[3]['df_fp'] += 1                    # the re-fitted table differs from the fresh analysis
    t3 = copy.deepcopy(tr)
    t3[4]['post'][0] += 1                  # the signal changed during a functional call
    t4 = copy.deepcopy(tr)
    t4[5]['attr_missing'] = 'value'        # a missing attribute did not raise
    cfg = 'SPECIFICATION TSpec\nCONSTANTS\n  MaxDepth = 99\nINVARIANT THeapIsIntent\nCHECK_DEADLOCK FALSE\n'
    path = os.path.join(ctx.scratch.path, 'sess.json')
    tlc.dump_json(path, [tr, t1, t2, t3, t4])
    res = tlc.must(tlc.run('Trace_Session', cfg, ctx.scratch, env={'TRACE_FILE': path}, workers=1))
    v = {p[1]: p[2] for p in res['prints'] if p[0] == 'VERDICT'}
    for k, name in enumerate(['original session', 'dictionary snapshot after Fit edited', 'table fingerprint after re-fit changed', 'signal fingerprint after a call changed',
                              'missing attribute returned a value']):
        vv = list(v.get(k + 1, ['no verdict']))
        ok = (not vv) if k == 0 else bool(vv)
        ROWS.append(('Trace_Session', name, 'accepted' if not vv else 'rejected: ' + ', '.join(dict.fromkeys(vv))[:110], 'as expected' if ok else 'UNEXPECTED'))
        print('Trace_Session', name, vv[:2], 'OK' if ok else 'UNEXPECTED', flush=True)


def group_session_cases(ctx):
    import group_rp
    E = lambda a, tk=1, v=0, c='peak', k=0, ax='': {'a': a, 'tk': tk, 'v': v, 'c': c, 'k': k, 'ax': ax}
    beh = [E('New', 1), E('Fit', 1, 0, 'peak', 3, '01'), E('Edit', 2, 2, 'lvl'), E('SetThr', 2), E('Recompute', 2, 1), E('Look', 2)]
    tr = group_rp.replay(beh, 0)
    t1 = copy.deepcopy(tr)
    t1[1]['models'][0], t1[1]['models'][1] = t1[1]['models'][1], t1[1]['models'][0]      # two models of the fitted group swapped
    t2 = copy.deepcopy(tr)
    t2[4]['shown'][2] += 1                                                               # df_features keeps another table than the model after recompute_edges
    t3 = copy.deepcopy(tr)
    t3[4]['ref'] = list(tr[1]['models'])                                                 # as if the recomputation had used the settings of fit time (nothing changed)
    t3[4]['models'] = list(tr[1]['models']); t3[4]['shown'] = list(tr[1]['models'])
    t3[4]['ref'] = list(tr[4]['ref'])
    t4 = copy.deepcopy(tr)
    t4[2]['heap'][0]['lvl'] = 2                                                          # the OTHER dictionary changed with the user's edit
    t5 = copy.deepcopy(tr)
    t5[5]['look_ok'] = False                                                             # len / iteration / indexing disagree with models
    path = os.path.join(ctx.scratch.path, 'gsess.json')
    tlc.dump_json(path, [tr, t1, t2, t3, t4, t5])
    res = tlc.must(tlc.run('Trace_GroupSession', group_rp.CFG, ctx.scratch, env={'TRACE_FILE': path}, workers=1))
    v = {p[1]: p[2] for p in res['prints'] if p[0] == 'VERDICT'}
    for k, name in enumerate(['original group session', 'two models of the fitted group swapped', 'df_features differs from the models after recompute_edges',
                              'recompute_edges left the tables of fit() (stale settings)', 'the other threshold dictionary changed with an edit', 'len / iteration / indexing disagree with models']):
        vv = list(v.get(k + 1, ['no verdict']))
        ok = (not vv) if k == 0 else bool(vv)
        ROWS.append(('Trace_GroupSession', name, 'accepted' if not vv else 'rejected: ' + ', '.join(dict.fromkeys(vv))[:110], 'as expected' if ok else 'UNEXPECTED'))
        print('Trace_GroupSession', name, vv[:2], 'OK' if ok else 'UNEXPECTED', flush=True)


def _runfilter(ctx, cases):
    path = os.path.join(ctx.scratch.path, 'corr_runfilter.json')
    tlc.dump_json(path, cases)
    res = tlc.must(tlc.run('Trace_RunFilter', tlc.cfg(), ctx.scratch, env={'TRACE_FILE': path}, workers=1), 'Trace_RunFilter')
    v = {p[1]: list(p[2]) for p in res['prints'] if p[0] == 'VERDICT'}
    return [v[i + 1] for i in range(len(cases))]


def misc_cases(ctx):
    import tables_tv as tt
    from props import c16, c17, c20
    import plots_tv as pv
    tabs = tt.analysis_tables(ctx, 8, 5, max_len=400)
    c, df = next((c_, d_) for c_, d_ in tabs if 'amp_fraction' in d_.columns)
    n = len(c['sig'])
    nxt = df[tt.roles_of(df)[5]].values
    e = tt.record_epoch_df(df, n, int(nxt[len(nxt) // 2]))
    e2 = copy.deepcopy(e)
    moved = next(k for k, t in enumerate(e2['out']) if t)
    row = e2['out'][moved].pop(0)
    e2['out'][(moved + 1) % len(e2['out'])].insert(0, row)
    e3 = copy.deepcopy(e)
    e3['out'][moved][0]['s'][3] += 1
    lim = tt.record_limit(df, 64, 2 * int(nxt[1]), 2 * int(nxt[-2]), True)
    lim2 = copy.deepcopy(lim)
    lim2['out'] = lim2['out'][1:]
    judge(ctx, 'Trace_Tables', [e, e2, e3, lim, lim2], ['original epoch_df', 'one cycle moved to the neighbouring epoch', 'one shifted sample index + 1', 'original limit_df',
                                                         'a cycle entirely inside the window missing'])
    from bycycle.features import compute_shape_features
    shp = compute_shape_features(-c['sig'], c['fs'], c['f_range'])
    rn = tt.record_rename(shp, 'trough', True, True, lab=1)
    rn2 = copy.deepcopy(rn)
    k_vp = next(k for k, x in enumerate(rn2['cols_out']) if x[0] == 'volt_peak')
    k_vt = next(k for k, x in enumerate(rn2['cols_out']) if x[0] == 'volt_trough')
    rn2['cols_out'][k_vp][1], rn2['cols_out'][k_vt][1] = rn2['cols_out'][k_vt][1], rn2['cols_out'][k_vp][1]
    rn3 = copy.deepcopy(rn)
    next(x for x in rn3['cols_out'] if x[0] == 'sample_trough')[0] = 'sample_peak'
    judge(ctx, 'Trace_Tables', [rn, rn2, rn3], ['original rename_extrema_df (trough)', 'the two extremum voltages not swapped', 'a sample column not renamed'])
    from props import c08
    rl = c08.rle_record([[True, 70000], [False, 2], [True, 2], [False, 5]], 3)
    rl2 = copy.deepcopy(rl)
    rl2['kept'][0] -= 65536
    rl3 = copy.deepcopy(rl)
    rl3['kept'][2] = 2
    judge(ctx, 'Trace_RunFilter', [rl, rl2, rl3], ['original run-length coded call', 'a long run lost 2^16 elements', 'a short run kept'],
          extra=lambda ctx_, cases_: _runfilter(ctx_, cases_))
    rec = c17.record_case(60, [10, 30, 50], [20, 40], [25, 45], [15, 35])
    r2 = copy.deepcopy(rec)
    r2['codes'][r2['pk'][1]] += 1
    r3 = copy.deepcopy(rec)
    r3['codes'][55] = r3['codes'][50]
    judge(ctx, 'Trace_Phase', [rec, r2, r3], ['original phase', 'phase at a peak changed', 'a finite value after the last cyclepoint'])
    thr = dict(c20.CYC_THR, min_n_cycles=2)
    dfp = df.drop(columns=['rowid'])
    if 'amp_fraction' in dfp.columns:
        p = pv.record_plot('summary', dfp, c['sig'], c['fs'], thr, int(nxt[1]), int(nxt[-2]) + 3, {'interp': True})
        p2 = copy.deepcopy(p)
        p2['markers']['centre']['samples'][0] += 1
        p3 = copy.deepcopy(p)
        if p3['H']:
            p3['H'].append(int(nxt[-1]) if not any(r['lab'] for r in p3['t'][-1:]) else 0)
        p4 = copy.deepcopy(p)
        p4['panels'][0]['thr_line'][0][0] += 1
        judge(ctx, 'Trace_Plots', [p, p2, p3, p4], ['original summary plot', 'one centre marker moved by one sample', 'a sample outside every burst cycle highlighted', 'threshold line moved'])


def main():
    with tlc.Scratch() as scratch:
        ctx = common.Ctx('SELFTEST', 'quick', 0, scratch)
        pipeline_cases(ctx)
        relation_cases(ctx)
        pool_cases(ctx)
        session_cases(ctx)
        group_session_cases(ctx)
        misc_cases(ctx)
    lines = ['| trace specification | recorded case | TLC verdict | |', '|---|---|---|---|'] + ['| %s | %s | %s | %s |' % r for r in ROWS]
    os.makedirs('/verif/selftest', exist_ok=True)
    open('/verif/selftest/CORRUPTION.md', 'w').write('\n'.join(lines) + '\n')
    bad = [r for r in ROWS if r[3] != 'as expected']
    print('unexpected:', bad)
    return 1 if bad else 0


if __name__ == '__main__':
    sys.exit(main())
