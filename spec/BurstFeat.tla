------------------------------ MODULE BurstFeat ------------------------------
(***************************************************************************)
(* Burst features of a cycle table (C05).  The table enters as sequences   *)
(* over its cycles: R = volt_rise, D = volt_decay, P = period,             *)
(* A2 = 2*volt_amp (integers), plus the rows and the original signal for   *)
(* monotonicity.  peakC tells the centring, which fixes the temporal order *)
(* of a cycle's flanks: peak-centred  rise_c, decay_c;                     *)
(*                      trough-centred decay_c, rise_c.                    *)
(***************************************************************************)
EXTENDS Seqs

\* min/max ratio as numpy computes it, including division by zero
Ratio(a, b) == LET lo == Min2(a, b)  hi == Max2(a, b) IN
               IF hi = 0 THEN (IF lo = 0 THEN NaN ELSE NegInf) ELSE Rat(lo, hi)

NanMin(S) ==  \* minimum ignoring NaN; NaN when nothing is left
  LET T == { x \in S : ~IsNaN(x) } IN
  IF T = {} THEN NaN ELSE CHOOSE x \in T : \A y \in T : ExtLe(x, y)
ClampAt0(x) == IF IsNaN(x) THEN x ELSE IF x = NegInf \/ x[1] < 0 THEN Zero ELSE x

\* the three adjacent flank pairs that include one of cycle c's flanks
PairCur(R, D, c)  == Ratio(R[c], D[c])
PairLast(R, D, c, peakC) == IF peakC THEN Ratio(R[c], D[c - 1]) ELSE Ratio(R[c - 1], D[c])
PairNext(R, D, c, peakC) == IF peakC THEN Ratio(R[c + 1], D[c]) ELSE Ratio(R[c], D[c + 1])

AmpConsistency(R, D, c, dir, peakC) ==
  IF c = 1 \/ c = Len(R) THEN NaN
  ELSE LET cur == PairCur(R, D, c)  lst == PairLast(R, D, c, peakC)  nxt == PairNext(R, D, c, peakC)
           use == CASE dir = "both" -> {cur, nxt, lst} [] dir = "next" -> {cur, nxt} [] OTHER -> {cur, lst}
       IN  IF IsNaN(cur) /\ IsNaN(lst) /\ IsNaN(nxt) THEN NaN ELSE ClampAt0(NanMin(use))

PeriodConsistency(P, c, dir) ==
  IF c = 1 \/ c = Len(P) THEN NaN
  ELSE LET lst == Rat(Min2(P[c], P[c - 1]), Max2(P[c], P[c - 1]))
           nxt == Rat(Min2(P[c], P[c + 1]), Max2(P[c], P[c + 1]))
       IN  CASE dir = "both" -> RatMin(lst, nxt) [] dir = "next" -> nxt [] OTHER -> lst

\* average rank of volt_amp divided by the number of cycles
AmpFraction(A2, c) ==
  LET n == Len(A2)
      less == Cardinality({ j \in 1 .. n : A2[j] < A2[c] })
      same == Cardinality({ j \in 1 .. n : A2[j] = A2[c] })
  IN  Rat(2 * less + same + 1, 2 * n)

\* fraction of strictly increasing steps on the rise, strictly decreasing steps on the decay, averaged
StepsUp(s, a, b)   == Cardinality({ i \in a .. (b - 1) : At(s, i + 1) > At(s, i) })
StepsDown(s, a, b) == Cardinality({ i \in a .. (b - 1) : At(s, i + 1) < At(s, i) })
Monotonicity(s, r, peakC) ==
  LET up   == IF peakC THEN Rat(StepsUp(s, r.last, r.centre), r.centre - r.last) ELSE Rat(StepsUp(s, r.centre, r.next), r.next - r.centre)
      down == IF peakC THEN Rat(StepsDown(s, r.centre, r.next), r.next - r.centre) ELSE Rat(StepsDown(s, r.last, r.centre), r.centre - r.last)
  IN  RatHalf(RatAdd(up, down))

InUnit(x) == IsNaN(x) \/ (IsFinite(x) /\ RatLe(Zero, x) /\ RatLe(x, One))
=============================================================================
