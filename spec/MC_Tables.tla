------------------------------ MODULE MC_Tables ------------------------------
(***************************************************************************)
(* C13 / C18 on every small cycle table: the side extrema are any subset   *)
(* of 0..NS-1 with gaps >= 2 (cycle k runs from the k-th to the k+1-th).   *)
(* Mode "epoch": every epoch length dividing NS.  Mode "limit": every      *)
(* window [a2, b2] on the half-sample grid, either limit missing, with and *)
(* without index reset, both centrings.  The real epoch_df / limit_df /    *)
(* limit_signal are compared (epoch) or judged by the stated bounds (limit)*)
(***************************************************************************)
EXTENDS Tables, TLC, Json, IOUtils

CONSTANTS NS, UseImpl
File == IF UseImpl THEN JsonDeserialize(IOEnv.IMPL_FILE) ELSE [epoch |-> <<>>, limit |-> <<>>, siglim |-> <<>>]
ASSUME UseImpl => DOMAIN File.epoch # {}

SideSets == { S \in SUBSET (0 .. (NS - 1)) : Cardinality(S) >= 2 /\ \A x \in S : (x + 1) \notin S }
Divisors == { L \in 1 .. NS : NS % L = 0 }
Lims     == {None} \cup (0 .. (2 * NS))

VARIABLES mode, sides, L, a2, b2, reset, peakC, stage, agree
vars == <<mode, sides, L, a2, b2, reset, peakC, stage, agree>>

TableOf(S) == LET q == SortedSeq(S) IN
              Strict([k \in 1 .. (Len(q) - 1) |-> [id |-> k, s |-> <<q[k], q[k], q[k], q[k] + 1, q[k] + 1, q[k + 1]>>, fp |-> 7 * k + 1]])
tbl == TableOf(sides)

Init == /\ sides \in SideSets /\ stage = "table" /\ agree = TRUE
        /\ \/ mode = "epoch" /\ L \in Divisors /\ a2 = None /\ b2 = None /\ reset = FALSE /\ peakC = TRUE
           \/ mode = "limit" /\ L = 1 /\ a2 \in Lims /\ b2 \in Lims /\ (a2 # None /\ b2 # None => a2 <= b2) /\ reset \in BOOLEAN /\ peakC \in BOOLEAN

\* flat rows of a projected table: id, six samples, fp
FlatRow(r) == <<r.id>> \o r.s \o <<r.fp>>
FlatTable(t) == FoldLeft(LAMBDA acc, r : acc \o FlatRow(r), <<>>, t)
Unflat(f) == [k \in 1 .. (Len(f) \div 8) |-> [id |-> f[8 * k - 7], s |-> [j \in 1 .. 6 |-> f[8 * k - 7 + j]], fp |-> f[8 * k]]]

\* implementation outputs are looked up by a string key built from the input (tables are sparse in this space)
LimCode(x) == IF x = None THEN "N" ELSE ToString(x)
Key == ToString(SetMask(sides)) \o "/" \o (IF mode = "epoch" THEN "e" \o ToString(L)
         ELSE "l" \o LimCode(a2) \o "," \o LimCode(b2) \o (IF reset THEN "r" ELSE "k") \o (IF peakC THEN "p" ELSE "t"))

JudgeEpoch == /\ stage = "table" /\ mode = "epoch"
              /\ LET want == [e \in 1 .. NEpochs(NS, L) |-> FlatTable(Epoch(tbl, L, e))]
                     ok == ~UseImpl \/ (Key \in DOMAIN File.epoch /\ File.epoch[Key] = want)
                 IN /\ agree' = ok
                    /\ IF ~ok THEN PrintT(<<"DISAGREE", 0, "epoch_df", SortedSeq(sides), L, want, IF Key \in DOMAIN File.epoch THEN File.epoch[Key] ELSE <<>>>>) ELSE TRUE
              /\ stage' = "done"
              /\ UNCHANGED <<mode, sides, L, a2, b2, reset, peakC>>

JudgeLimit == /\ stage = "table" /\ mode = "limit"
              /\ LET e  == IF UseImpl /\ Key \in DOMAIN File.limit THEN File.limit[Key] ELSE [ok |-> 0, rows |-> <<>>, sig |-> <<>>]
                     ok == ~UseImpl \/ (/\ e.ok = 1
                                        /\ LimitOK(tbl, a2, b2, reset, Unflat(e.rows))
                                        /\ e.sig = SortedSeq(LimitSignalIdx(NS, a2, b2)))
                 IN /\ agree' = ok
                    /\ IF ~ok THEN PrintT(<<"DISAGREE", 0, "limit_df/limit_signal", SortedSeq(sides), a2, b2, reset, peakC, FlatTable(Limit(tbl, a2, b2, reset)), e>>) ELSE TRUE
              /\ stage' = "done"
              /\ UNCHANGED <<mode, sides, L, a2, b2, reset, peakC>>
Next == JudgeEpoch \/ JudgeLimit
Spec == Init /\ [][Next]_vars

\* ---- the model's own definitions satisfy what C13 / C18 state ----
InvPartition  == mode = "epoch" => Partition(tbl, NS, L)
InvExactlyOne == mode = "epoch" => \A k \in 1 .. Len(tbl) : Cardinality({ e \in 1 .. NEpochs(NS, L) : \E j \in 1 .. Len(EpochRows(tbl, L, e)) : EpochRows(tbl, L, e)[j].id = k }) = 1
InvLimitModel == mode = "limit" => LimitOK(tbl, a2, b2, reset, Limit(tbl, a2, b2, reset))
ImplAgrees    == agree
=============================================================================
