---------------------------- MODULE Trace_Tables ----------------------------
(***************************************************************************)
(* Trace validation of recorded calls of the table / signal utilities and  *)
(* of the epoched group analysis (C13, C18).  Rows are projected as in     *)
(* Tables.tla (id, six samples, fingerprint of the feature values); rows   *)
(* of analyses additionally carry the burst label `lab` and rank codes.    *)
(***************************************************************************)
EXTENDS Tables, Detect, TLC, Json, IOUtils
Cases == JsonDeserialize(IOEnv.TRACE_FILE)
VARIABLES tid, stage, fails
vars == <<tid, stage, fails>>
c == Cases[tid]
Fail(cond, name) == IF cond THEN <<>> ELSE <<name>>
Init == tid \in 1 .. Len(Cases) /\ stage = "call" /\ fails = <<>>

Core(t) == [k \in 1 .. Len(t) |-> [id |-> t[k].id, s |-> t[k].s, fp |-> t[k].fp]]
Labs(t) == [k \in 1 .. Len(t) |-> t[k].lab]

\* labels of one epoch table under its own thresholds (C13, per-epoch option list)
Relabelled(t, o) ==
  IF o.method = "cycles"
  THEN DetectCycles([k \in 1 .. Len(t) |-> [amp_fraction |-> t[k].codes[1], amp_consistency |-> t[k].codes[2],
                                            period_consistency |-> t[k].codes[3], monotonicity |-> t[k].codes[4]]],
                    [amp_fraction |-> o.thr[1], amp_consistency |-> o.thr[2], period_consistency |-> o.thr[3], monotonicity |-> o.thr[4]], o.m)
  ELSE DetectAmp([k \in 1 .. Len(t) |-> t[k].codes[1]], o.thr[1], o.m)

EpochClauses(pfx) ==
  IF c.raised # "" THEN <<pfx \o ".raised">>
  ELSE LET want == Epochs(Core(c.flat), c.sigLen, c.L) IN
       Fail(Len(c.out) = NEpochs(c.sigLen, c.L), pfx \o ".number_of_epochs")
    \o (IF Len(c.out) = NEpochs(c.sigLen, c.L)
        THEN Fail(\A e \in 1 .. Len(c.out) : Ids(c.out[e]) = Ids(want[e]), pfx \o ".cycle_assignment")
          \o Fail(\A e \in 1 .. Len(c.out) : Len(c.out[e]) = Len(want[e]) => \A k \in 1 .. Len(want[e]) : c.out[e][k].s = want[e][k].s, pfx \o ".sample_shift")
          \o Fail(\A e \in 1 .. Len(c.out) : Len(c.out[e]) = Len(want[e]) => \A k \in 1 .. Len(want[e]) : c.out[e][k].fp = want[e][k].fp, pfx \o ".feature_values")
          \o (IF c.relabel = "none" THEN <<>>
              ELSE IF c.relabel = "flat"
                   THEN Fail(\A e \in 1 .. Len(c.out) : Labs(c.out[e]) = Labs(EpochRows(c.flat, c.L, e)), pfx \o ".labels_of_flattened_analysis")
                   ELSE Fail(\A e \in 1 .. Len(c.out) : Labs(c.out[e]) = Relabelled(c.out[e], c.opts[e]), pfx \o ".per_epoch_relabelling"))
        ELSE <<>>)

\* LimitOK of Tables.tla, conjunct by conjunct, so that the verdict names what is wrong (together they are exactly LimitOK)
LimitClauses(t, a2, b2, reset, out) ==
  LET a == IF a2 = None THEN 0 ELSE a2
      sel == IsSubSeq(Ids(out), Ids(NotOutside(t, a, b2))) IN
     Fail(IsSubSeq(Ids(Inside(t, a, b2)), Ids(out)), "C18.limit_df.cycle_entirely_inside_missing")
  \o Fail(sel, "C18.limit_df.cycle_entirely_outside_or_unknown_or_out_of_order")
  \o (IF sel THEN Fail(\A k \in 1 .. Len(out) : out[k].fp = RowById(t, out[k].id).fp, "C18.limit_df.feature_values")
               \o Fail(IF reset THEN \E d \in {a \div 2, (a + 1) \div 2} : \A k \in 1 .. Len(out) : out[k].s = Shift(RowById(t, out[k].id), d).s
                                 ELSE \A k \in 1 .. Len(out) : out[k].s = RowById(t, out[k].id).s, "C18.limit_df.sample_shift")
       ELSE <<>>)
  \o Fail(LimitOK(t, a2, b2, reset, out) <=> (/\ IsSubSeq(Ids(Inside(t, a, b2)), Ids(out)) /\ sel
                                              /\ \A k \in 1 .. Len(out) : out[k].fp = RowById(t, out[k].id).fp
                                              /\ IF reset THEN \E d \in {a \div 2, (a + 1) \div 2} : \A k \in 1 .. Len(out) : out[k].s = Shift(RowById(t, out[k].id), d).s
                                                           ELSE \A k \in 1 .. Len(out) : out[k].s = RowById(t, out[k].id).s), "MACHINERY.limit_clauses_differ_from_LimitOK")

Clauses ==
  CASE c.op = "epoch_df" -> EpochClauses("C13.epoch_df")
    [] c.op = "epochs2d" -> EpochClauses("C13.axis_none")
    [] c.op = "limit_df" ->
         IF c.raised # "" THEN <<"C18.limit_df.raised">>
         ELSE LimitClauses(Core(c.t), c.a2, c.b2, c.reset, Core(c.out)) \o Fail(c.pre = c.post, "C15.limit_df.input_modified")
    [] c.op = "limit_signal" ->
         IF c.raised # "" THEN <<"C18.limit_signal.raised">>
         ELSE Fail(c.idx = SortedSeq(LimitSignalIdx(c.n, c.a2, c.b2)) /\ c.times_idx = c.idx, "C18.limit_signal")
    [] c.op = "split" ->
         IF c.raised # "" THEN <<"C18.split.raised">>
         ELSE Fail(c.feat_out = SelectSeq(c.cols_in, LAMBDA x : x[3] = 0) /\ c.samp_out = SelectSeq(c.cols_in, LAMBDA x : x[3] = 1), "C18.split_samples_df")
    [] c.op = "drop" ->
         IF c.raised # "" THEN <<"C18.drop.raised">>
         ELSE Fail(c.feat_out = SelectSeq(c.cols_in, LAMBDA x : x[3] = 0), "C18.drop_samples_df") \o Fail(c.pre = c.post, "C15.drop_samples_df.input_modified")
    [] c.op = "rename" ->
         IF c.raised # "" THEN <<"C04.rename_extrema_df.raised", "C09.rename_extrema_df.raised">>
         ELSE Fail(RenameOK(c.cols_in, c.centre, c.rs, c.cols_out), "C04.rename_extrema_df") \o Fail(RenameOK(c.cols_in, c.centre, c.rs, c.cols_out), "C09.rename_extrema_df")
    [] OTHER ->    \* flatten
         IF c.raised # "" THEN <<"C18.flatten.raised">>
         ELSE Fail(c.out = Concat([k \in 1 .. Len(c.tables) |-> [j \in 1 .. Len(c.tables[k]) |-> <<c.tables[k][j], c.labels[k]>>]]), "C18.flatten_dfs")
           \o Fail(c.out_later = c.out, "C18.flatten_dfs.result_changed_by_a_later_call_on_the_same_tables")

Judge == /\ stage = "call"
         /\ fails' = Clauses
         /\ PrintT(<<"VERDICT", tid, fails'>>)
         /\ stage' = "done"
         /\ UNCHANGED tid
Next == Judge
Spec == Init /\ [][Next]_vars
=============================================================================
