----------------------------- MODULE Trace_Plots -----------------------------
(***************************************************************************)
(* Trace validation of recorded plotting calls (C20): the artists that     *)
(* plot_cyclepoints_df / _array, plot_burst_detect_param,                  *)
(* plot_burst_detect_summary and Bycycle.plot created under the Agg        *)
(* backend, mapped back to samples by the harness (marker x -> sample,     *)
(* required to be on the sample grid; y as float limbs).                   *)
(***************************************************************************)
EXTENDS Plots, TLC, Json, IOUtils
Cases == JsonDeserialize(IOEnv.TRACE_FILE)
VARIABLES tid, stage, fails
vars == <<tid, stage, fails>>
c == Cases[tid]
Init == tid \in 1 .. Len(Cases) /\ stage = "call" /\ fails = <<>>

Judge == /\ stage = "call"
         /\ fails' = PlotClauses(c)
         /\ PrintT(<<"VERDICT", tid, fails'>>)
         /\ stage' = "done"
         /\ UNCHANGED tid
Next == Judge
Spec == Init /\ [][Next]_vars
=============================================================================
