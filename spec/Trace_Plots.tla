----------------------------- MODULE Trace_Plots -----------------------------
(***************************************************************************)
(* Trace validation of recorded plotting calls (C20): the artists that     *)
(* plot_cyclepoints_df / _array, plot_burst_detect_param,                  *)
(* plot_burst_detect_summary and Bycycle.plot created under the Agg        *)
(* backend, mapped back to samples by the harness (marker x -> sample,     *)
(* required to be on the sample grid; y as float limbs).                   *)
(***************************************************************************)
EXTENDS Plots, TLC, Json, IOUtils
Cases == JsonDeserialize(IOEnv.TRACE_FILE)
VARIABLES tid, stage, fails
vars == <<tid, stage, fails>>
c == Cases[tid]
Fail(cond, name) == IF cond THEN <<>> ELSE <<name>>
Init == tid \in 1 .. Len(Cases) /\ stage = "call" /\ fails = <<>>

Kinds == <<"centre", "side", "rise", "decay">>
MarkerClauses ==
  FoldLeft(LAMBDA acc, kind :
             acc \o (IF c.markers[kind].shown
                     THEN Fail(c.markers[kind].on_grid, "C20.marker_not_on_a_sample." \o kind)
                       \o Fail(ToSet(c.markers[kind].samples) \subseteq Genuine(c.t, kind, c.peakC), "C20.marker_not_a_genuine_cyclepoint." \o kind)
                       \o (IF c.op \in {"cyclepoints_df", "cyclepoints_array"}      \* completeness is stated for the cyclepoint plots only
                           THEN Fail({ x \in Required(c.t, kind, c.peakC) : StrictlyInside(x, c.n, c.a, c.b) } \subseteq ToSet(c.markers[kind].samples), "C20.cyclepoint_inside_view_not_drawn." \o kind)
                           ELSE <<>>)
                       \o Fail(\A k \in 1 .. Len(c.markers[kind].samples) : c.markers[kind].y[k] = c.sig[c.markers[kind].samples[k] + 1], "C20.marker_y_is_not_the_plotted_signal." \o kind)
                     ELSE Fail(c.markers[kind].samples = <<>>, "C20.marker_kind_switched_off_but_drawn." \o kind)),
           <<>>, Kinds)
Clauses ==
  IF c.raised # "" THEN <<"C20.raised." \o c.op>>
  ELSE MarkerClauses
    \o (IF c.has_burst THEN Fail(HighlightOK(ToSet(c.H), c.t, c.n, c.a, c.b), "C20.burst_highlight")
                          \o Fail(\A k \in 1 .. Len(c.H) : c.Hy[k] = c.sig[c.H[k] + 1], "C20.highlighted_trace_is_not_the_plotted_signal")
        ELSE <<>>)
    \o FoldLeft(LAMBDA acc, p : acc \o Fail(PanelOK(c.panels[p].verts, c.interp, c.t, c.panels[p].col, c.n, c.a, c.b), "C20.parameter_panel_values")
                                     \o Fail(c.panels[p].thr_line = c.panels[p].thr, "C20.threshold_line"),
                <<>>, [p \in 1 .. Len(c.panels) |-> p])
Judge == /\ stage = "call"
         /\ fails' = Clauses
         /\ PrintT(<<"VERDICT", tid, fails'>>)
         /\ stage' = "done"
         /\ UNCHANGED tid
Next == Judge
Spec == Init /\ [][Next]_vars
=============================================================================
