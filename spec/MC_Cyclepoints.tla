--------------------------- MODULE MC_Cyclepoints ---------------------------
(***************************************************************************)
(* Exhaustive small-scope model of the cyclepoint stages of one analysis   *)
(* (C01, C02): every raw signal in [0..N-1 -> 0..V] x every sign pattern   *)
(* of the band-passed signal x boundaries x first_extrema.  One action per *)
(* pipeline stage; Judge* actions compare each stage with the REAL         *)
(* find_extrema / compute_cyclepoints run on the same input (filter        *)
(* stubbed to realise TLC's sign pattern), table Impl indexed by Index.    *)
(***************************************************************************)
EXTENDS Cyclepoints, TLC, Json, IOUtils

CONSTANTS NS,        \* number of samples
          V,         \* raw signal levels 0..V
          Bs,        \* set of boundaries
          Firsts,    \* subset of {"peak", "trough", "none"}
          UseImpl

Impl == IF UseImpl THEN JsonDeserialize(IOEnv.IMPL_FILE) ELSE <<>>
\* evaluated once, single-threaded, before the workers start (TLC caches the value of a constant definition)
ASSUME ImplLoaded == UseImpl => Len(Impl) > 0

VARIABLES sig, pos, B, first, stage, ext, zx, rows, agree
vars == <<sig, pos, B, first, stage, ext, zx, rows, agree>>

FirstCode(f) == CASE f = "peak" -> 0 [] f = "trough" -> 1 [] OTHER -> 2
\* mixed-radix index: signal digits (base V+1), then the sign-pattern mask, then boundary, then first_extrema
SigIndex(s) == FoldLeft(LAMBDA acc, k : acc * (V + 1) + s[NS + 1 - k], 0, [k \in 1 .. NS |-> k])
Index == ((SigIndex(sig) * Pow2(NS) + BitMask(pos)) * (MaxOf(Bs) + 1) + B) * 3 + FirstCode(first)

Init == /\ sig \in [1 .. NS -> 0 .. V] /\ pos \in [1 .. NS -> BOOLEAN]
        /\ B \in Bs /\ first \in Firsts
        /\ stage = "input" /\ ext = <<<<>>, <<>>>> /\ zx = <<<<>>, <<>>>> /\ rows = <<>> /\ agree = TRUE

FindExtrema ==
  /\ stage = "input"
  /\ IF ExtremaDefined(sig, pos, 0, NS, B, first)
       THEN ext' = Extrema(sig, pos, 0, NS, B, first) /\ stage' = "extrema"
       ELSE ext' = ext /\ stage' = "undefined"
  /\ UNCHANGED <<sig, pos, B, first, zx, rows, agree>>

\* The table is one flat sequence of integers, K per input (TLC copies constant values per worker; flat integers keep it small):
\*   1-3  find_extrema with non-positive filtered samples = -1.0: ok, peak mask, trough mask
\*   4-6  the same with non-positive samples = exact 0.0
\*   7-8  compute_cyclepoints: ok, number of rows;  9-11 up to three rows, each the base-NS number of its six cyclepoints
K == 11
EI(j) == Impl[Index * K + j]
ExtAgrees(o) == EI(o + 1) = 1 /\ EI(o + 2) = SetMask({ ext[1][k] : k \in 1 .. Len(ext[1]) }) /\ EI(o + 3) = SetMask({ ext[2][k] : k \in 1 .. Len(ext[2]) })

\* the real find_extrema must return exactly the specified extrema, whether a non-positive filtered sample is -1 or an exact 0
JudgeExtrema ==
  /\ stage = "extrema"
  /\ LET ok == ~UseImpl \/ (ExtAgrees(0) /\ ExtAgrees(3)) IN
       /\ agree' = (agree /\ ok)
       /\ IF ~ok THEN PrintT(<<"DISAGREE", Index, "find_extrema", sig, pos, B, first, ext, <<EI(1), EI(2), EI(3)>>, <<EI(4), EI(5), EI(6)>>>>) ELSE TRUE
  /\ stage' = "judged_extrema"
  /\ UNCHANGED <<sig, pos, B, first, ext, zx, rows>>

FindZerox ==
  /\ stage = "judged_extrema"
  /\ IF ZeroxDefined(ext[1], ext[2]) /\ Len(ext[1]) + Len(ext[2]) >= 2
       THEN zx' = Zerox(sig, ext[1], ext[2]) /\ stage' = "zerox"
       ELSE zx' = zx /\ stage' = "done"
  /\ UNCHANGED <<sig, pos, B, first, ext, rows, agree>>

\* the analysis proper always runs peak-first; rows exist when there are at least two peaks
Assemble ==
  /\ stage = "zerox"
  /\ IF first = "peak" /\ Len(ext[1]) >= 2
       THEN rows' = Rows(ext[1], ext[2], zx[1], zx[2]) /\ stage' = "rows"
       ELSE rows' = rows /\ stage' = "done"
  /\ UNCHANGED <<sig, pos, B, first, ext, zx, agree>>

RowCode(r) == ((((r.last * NS + r.lastzx) * NS + r.zx1) * NS + r.centre) * NS + r.zx2) * NS + r.next
JudgeRows ==
  /\ stage = "rows"
  /\ LET ok == ~UseImpl \/ (EI(7) = 1 /\ EI(8) = Len(rows) /\ Len(rows) <= 3 /\ \A k \in 1 .. Len(rows) : EI(8 + k) = RowCode(rows[k])) IN
       /\ agree' = (agree /\ ok)
       /\ IF ~ok THEN PrintT(<<"DISAGREE", Index, "compute_cyclepoints", sig, pos, B, first, rows, <<EI(7), EI(8), EI(9), EI(10), EI(11)>>>>) ELSE TRUE
  /\ stage' = "done"
  /\ UNCHANGED <<sig, pos, B, first, ext, zx, rows>>

Next == FindExtrema \/ JudgeExtrema \/ FindZerox \/ Assemble \/ JudgeRows
Spec == Init /\ [][Next]_vars

HasExt == stage \notin {"input", "undefined"}
pk == ext[1]
tr == ext[2]
\* ---- C02 on the specification ----
InvOnePerHalfWave == stage = "input" /\ HasCrossings(pos) =>
                        /\ Cardinality(RawPeaks(sig, pos)) = Cardinality(ClosedPos(pos))
                        /\ Cardinality(RawTroughs(sig, pos)) = Cardinality(ClosedNeg(pos))
                        /\ \A w \in ClosedPos(pos) : LET p == FirstArgMax(sig, w[1], w[2]) IN
                              w[1] <= p /\ p < w[2] /\ \A j \in w[1] .. (w[2] - 1) : At(sig, j) <= At(sig, p) /\ (j < p => At(sig, j) < At(sig, p))
InvAlternate   == HasExt => Alternating(pk, tr)
InvBoundary    == HasExt => \A k \in 1 .. Len(pk) : pk[k] > B /\ pk[k] < NS - B
InvBoundaryT   == HasExt => \A k \in 1 .. Len(tr) : tr[k] > B /\ tr[k] < NS - B
InvForced      == HasExt /\ first # "none" =>
                     /\ Len(pk) = Len(tr)
                     /\ (Len(pk) > 0 => IF first = "peak" THEN pk[1] < tr[1] ELSE tr[1] < pk[1])
InvNothingElse == HasExt /\ first = "none" =>
                     /\ { pk[k] : k \in 1 .. Len(pk) } = Kept(RawPeaks(sig, pos), 0, NS, B)
                     /\ { tr[k] : k \in 1 .. Len(tr) } = Kept(RawTroughs(sig, pos), 0, NS, B)
\* ---- C03 / C01 on the specification ----
InvZxInside    == stage \in {"zerox", "rows"} =>
                     /\ \A k \in 1 .. Len(zx[1]) : \E a \in 1 .. Len(tr), b \in 1 .. Len(pk) : tr[a] <= zx[1][k] /\ zx[1][k] <= pk[b] /\ tr[a] < pk[b]
                     /\ \A k \in 1 .. Len(zx[2]) : \E a \in 1 .. Len(pk), b \in 1 .. Len(tr) : pk[a] <= zx[2][k] /\ zx[2][k] <= tr[b] /\ pk[a] < tr[b]
InvTableWF     == stage = "rows" => TableWF(rows, NS, B) /\ Len(rows) = Len(pk) - 1
ImplAgrees     == agree
=============================================================================
