------------------------------- MODULE Session -------------------------------
(***************************************************************************)
(* A user session with the object and functional APIs (C14, C15).          *)
(*                                                                         *)
(* State: a HEAP of caller-owned option dictionaries with identity         *)
(* (several objects and calls may alias the same dictionary), two Bycycle  *)
(* objects holding REFERENCES to their dictionaries (the constructor       *)
(* stores the caller's dicts), and the ghost variable `intent`: the        *)
(* dictionaries as the user last wrote them.                               *)
(*                                                                         *)
(* An analysis is abstracted to its effective-parameter vector             *)
(* (signal, method, minimum cycles actually used, threshold level): two    *)
(* analyses are equal iff their vectors are.  The ideal actions never      *)
(* write the heap - only EditDict (the user) does.  What the pinned code   *)
(* used to do is written down as the named deviation FitWritesBack and is  *)
(* not part of Next (negative control: it violates HeapIsIntent/NoStale).  *)
(***************************************************************************)
EXTENDS Seqs, TLC

CONSTANTS MaxDepth
ThrRefs == {1, 3, 5, 6}  \* threshold dictionaries owned by the user: 1 and 5 hold consistency thresholds, 3 and 6 amplitude thresholds
ThrRefsOf(method) == IF method = "cycles" THEN {1, 5} ELSE {3, 6}
TkOf(method) == IF method = "cycles" THEN 1 ELSE 3
BkRef   == 2             \* one burst-options dictionary owned by the user
Refs    == {1, 2, 3, 4, 5, 6}     \* 4: the find_extrema options (filter length, boundary) shared by objects and calls; never edited, must never change
Editable == {1, 2, 3, 5, 6}
Objs    == {1, 2}
Sigs    == {1, 2}
Mnc     == {0, 2, 3}     \* min_n_cycles: 0 = key absent
Funcs   == {"compute_features", "compute_shape_features", "compute_burst_features", "recompute_edges", "recompute_edges_no_burst", "limit_df", "epoch_df",
            "drop_samples_df", "plot", "compute_features_2d", "compute_features_2d_epochs", "compute_features_3d",
            "limit_df_keeping_all_cycles", "compute_burst_features_inverted_flanks",
            "compute_shape_features_n_cycles_5", "compute_features_default_options",
            "plot_cyclepoints_df", "plot_cyclepoints_array", "plot_burst_detect_param", "plot_feature_hist", "plot_feature_categorical"}

FuncsObjectHeavy == {"compute_features"}      \* substituted for Funcs (cfg: Funcs <- FuncsObjectHeavy) when simulating object-centred sessions
VARIABLES heap, intent, obj, hist
vars == <<heap, intent, obj, hist>>

NoTable == [kind |-> "none", sig |-> 0, method |-> "", m |-> 0, lvl |-> 0, red |-> 0, centre |-> ""]
Eff(method, h, tk) == IF method = "amp" THEN (IF h[BkRef].mnc # 0 THEN h[BkRef].mnc ELSE IF h[tk].mnc # 0 THEN h[tk].mnc ELSE 3)
                      ELSE (IF h[tk].mnc # 0 THEN h[tk].mnc ELSE 3)
Analyze(h, o, s) == [kind |-> "fit", sig |-> s, method |-> o.method, m |-> Eff(o.method, h, o.tk), lvl |-> h[o.tk].lvl, red |-> 0, centre |-> o.centre]

Init == /\ heap = [r \in Refs |-> [mnc |-> IF r \in ThrRefs THEN 2 ELSE 0, lvl |-> 1]]
        /\ intent = heap
        /\ obj = [o \in Objs |-> [alive |-> FALSE, method |-> "cycles", tk |-> 1, centre |-> "peak", df |-> NoTable]]
        /\ hist = <<>>

Log(e) == hist' = Append(hist, e)
New(o, method, tk) == /\ tk \in ThrRefsOf(method)
                      /\ obj' = [obj EXCEPT ![o] = [alive |-> TRUE, method |-> method, tk |-> tk, centre |-> "peak", df |-> NoTable]]
                      /\ Log([a |-> "New", o |-> o, method |-> method, tk |-> tk, s |-> 0, v |-> 0])
                      /\ UNCHANGED <<heap, intent>>
Fit(o, s) == /\ obj[o].alive
             /\ obj' = [obj EXCEPT ![o].df = Analyze(heap, obj[o], s)]
             /\ Log([a |-> "Fit", o |-> o, method |-> obj[o].method, tk |-> obj[o].tk, s |-> s, v |-> 0])
             /\ UNCHANGED <<heap, intent>>
\* recompute_edges(r): functional edge recomputation of the object's table with every *_threshold lowered by r (current settings)
Recompute(o, r) == /\ obj[o].alive /\ obj[o].method = "cycles" /\ obj[o].df.kind \in {"fit", "edges", "loaded"}     \* a loaded table is recomputed like a fitted one: the table HELD, not an earlier one
                   /\ obj' = [obj EXCEPT ![o].df = [kind |-> "edges", sig |-> obj[o].df.sig, method |-> "cycles", m |-> Eff("cycles", heap, obj[o].tk),
                                                    lvl |-> heap[obj[o].tk].lvl, red |-> r, centre |-> obj[o].df.centre]]
                   /\ Log([a |-> "Recompute", o |-> o, method |-> "cycles", tk |-> obj[o].tk, s |-> 0, v |-> r])
                   /\ UNCHANGED <<heap, intent>>
\* named deviation (what the code does): the object's recompute_edges always re-labels with the consistency rule, so on an object that uses the
\* amplitude method (it is handed amplitude thresholds) or that holds no table it raises - exactly as the functional recompute_edges does for
\* the same table and thresholds; nothing changes, and the object stays usable.
RecomputeRaises(o) == /\ obj[o].alive /\ ((obj[o].method = "amp" /\ obj[o].df.kind \in {"fit", "edges"}) \/ obj[o].df.kind = "none")
                      /\ Log([a |-> "RecomputeRaises", o |-> o, method |-> obj[o].method, tk |-> obj[o].tk, s |-> 0, v |-> 0])
                      /\ UNCHANGED <<heap, intent, obj>>
Load(o, s) == /\ obj[o].alive
              /\ obj' = [obj EXCEPT ![o].df = [kind |-> "loaded", sig |-> s, method |-> "", m |-> 0, lvl |-> 0, red |-> 0, centre |-> ""]]
              /\ Log([a |-> "Load", o |-> o, method |-> obj[o].method, tk |-> obj[o].tk, s |-> s, v |-> 0])
              /\ UNCHANGED <<heap, intent>>
\* the user edits one of the dictionaries (field mnc: 0 removes the key; field lvl: the threshold level)
EditDict(r, field, val) == /\ heap' = [heap EXCEPT ![r][field] = val]
                           /\ intent' = [intent EXCEPT ![r][field] = val]
                           /\ heap[r][field] # val
                           /\ Log([a |-> "Edit", o |-> r, method |-> field, tk |-> 0, s |-> 0, v |-> val])
                           /\ UNCHANGED obj
\* the user assigns public attributes of an existing object: another centring, or ANOTHER threshold dictionary (re-binding, not editing)
SetCentre(o, c) == /\ obj[o].alive /\ obj[o].centre # c
                   /\ obj' = [obj EXCEPT ![o].centre = c]
                   /\ Log([a |-> "SetCentre", o |-> o, method |-> c, tk |-> obj[o].tk, s |-> 0, v |-> 0])
                   /\ UNCHANGED <<heap, intent>>
Rebind(o, tk) == /\ obj[o].alive /\ tk \in ThrRefsOf(obj[o].method) /\ tk # obj[o].tk
                 /\ obj' = [obj EXCEPT ![o].tk = tk]
                 /\ Log([a |-> "Rebind", o |-> o, method |-> obj[o].method, tk |-> tk, s |-> 0, v |-> 0])
                 /\ UNCHANGED <<heap, intent>>
GetAttr(o) == /\ obj[o].alive
              /\ Log([a |-> "GetAttr", o |-> o, method |-> obj[o].method, tk |-> obj[o].tk, s |-> 0, v |-> 0])
              /\ UNCHANGED <<heap, intent, obj>>
\* a functional-API call that shares the user's dictionaries, a signal and (for table functions) an object's table
Call(f, method, tk, s) == /\ tk \in ThrRefsOf(method) /\ (f \in {"recompute_edges", "recompute_edges_no_burst"} => method = "cycles")
                          /\ Log([a |-> "Call", o |-> 0, method |-> method, tk |-> tk, s |-> s, v |-> 0, f |-> f])
                          /\ UNCHANGED <<heap, intent, obj>>

Next == /\ Len(hist) < MaxDepth
        /\ \/ \E o \in Objs, method \in {"cycles", "amp"}, tk \in ThrRefs : New(o, method, tk)
           \/ \E o \in Objs, s \in Sigs : Fit(o, s) \/ Load(o, s)
           \/ \E o \in Objs, r \in {0, 1} : Recompute(o, r)
           \/ \E o \in Objs : RecomputeRaises(o)
           \/ \E r \in Editable, val \in Mnc : EditDict(r, "mnc", val)
           \/ \E r \in ThrRefs, val \in {1, 2} : EditDict(r, "lvl", val)
           \/ \E o \in Objs : GetAttr(o)
           \/ \E o \in Objs, c \in {"peak", "trough"} : SetCentre(o, c)
           \/ \E o \in Objs, tk \in ThrRefs : Rebind(o, tk)
           \/ \E f \in Funcs, method \in {"cycles", "amp"}, tk \in ThrRefs, s \in Sigs : Call(f, method, tk, s)
Spec == Init /\ [][Next]_vars

\* A sub-relation of Next used to SIMULATE object-centred sessions: edits step a field to its next value instead of branching over
\* all values, calls are restricted to FuncsFocus; every behaviour of SpecFocused is a behaviour of Spec.
NextVal(field, cur) == IF field = "mnc" THEN (IF cur = 0 THEN 2 ELSE IF cur = 2 THEN 3 ELSE 0) ELSE 3 - cur
FuncsFocus == {"compute_features", "recompute_edges"}
NextFocused == /\ Len(hist) < MaxDepth
               /\ \/ \E o \in Objs, method \in {"cycles", "amp"} : New(o, method, TkOf(method))
                  \/ \E o \in Objs, c \in {"peak", "trough"} : SetCentre(o, c)
                  \/ \E o \in Objs, tk \in ThrRefs : Rebind(o, tk)
                  \/ \E o \in Objs, s \in Sigs : Fit(o, s) \/ Load(o, s)
                  \/ \E o \in Objs, r \in {0, 1} : Recompute(o, r)
                  \/ \E o \in Objs : RecomputeRaises(o)
                  \/ \E r \in Editable : EditDict(r, "mnc", NextVal("mnc", heap[r].mnc))
                  \/ \E r \in ThrRefs : EditDict(r, "lvl", NextVal("lvl", heap[r].lvl))
                  \/ \E o \in Objs : GetAttr(o)
                  \/ \E f \in FuncsFocus, method \in {"cycles", "amp"}, s \in Sigs : Call(f, method, TkOf(method), s)
SpecFocused == Init /\ [][NextFocused]_vars
\* A second sub-relation for RE-FIT scenarios: one object, one signal - fit, change something (edit a dictionary, re-bind, other centring,
\* recompute, plot, a functional call), fit the same signal again.
FuncsRefit == {"plot", "compute_features", "compute_shape_features_n_cycles_5", "compute_features_default_options"}
NextRefit == /\ Len(hist) < MaxDepth
             /\ \/ \E method \in {"cycles", "amp"} : ~obj[1].alive /\ New(1, method, TkOf(method))
                \/ Fit(1, 1)
                \/ \E r \in {0, 1} : Recompute(1, r)
                \/ RecomputeRaises(1)
                \/ \E r \in Editable : EditDict(r, "mnc", NextVal("mnc", heap[r].mnc))
                \/ \E r \in ThrRefs : EditDict(r, "lvl", NextVal("lvl", heap[r].lvl))
                \/ \E c \in {"peak", "trough"} : SetCentre(1, c)
                \/ \E tk \in ThrRefs : Rebind(1, tk)
                \/ \E f \in FuncsRefit : obj[1].alive /\ Call(f, obj[1].method, obj[1].tk, 1)
SpecRefit == Init /\ [][NextRefit]_vars
Count(a) == Cardinality({ k \in 1 .. Len(hist) : hist[k].a = a })
Rich == Count("Fit") >= 2 /\ Count("Edit") >= 1 /\ Count("Edit") <= 4 /\ \E i, j \in 1 .. Len(hist) : i < j /\ hist[i].a = "Fit" /\ hist[j].a \in {"Edit", "Recompute", "Call"}
AtDepthRich == (Len(hist) = MaxDepth /\ Rich) => PrintT(<<"BEHAVIOUR", hist>>)

\* ---- named deviation (what the pinned tree did): an 'amp' fit writes the effective minimum into both dictionaries ----
FitWritesBack(o, s) == /\ obj[o].alive /\ obj[o].method = "amp"
                       /\ obj' = [obj EXCEPT ![o].df = Analyze(heap, obj[o], s)]
                       /\ heap' = [heap EXCEPT ![BkRef].mnc = Eff("amp", heap, obj[o].tk), ![obj[o].tk].mnc = Eff("amp", heap, obj[o].tk)]
                       /\ Log([a |-> "Fit", o |-> o, method |-> "amp", tk |-> obj[o].tk, s |-> s, v |-> 0])
                       /\ UNCHANGED intent
NextDeviant == Next \/ (Len(hist) < MaxDepth /\ \E o \in Objs, s \in Sigs : FitWritesBack(o, s))
SpecDeviant == Init /\ [][NextDeviant]_vars

\* ---- C15: no call writes the caller's dictionaries;  C14: a fitted table is what a fresh object with the current settings yields ----
HeapIsIntent == heap = intent
NoStale == \A o \in Objs : obj[o].df.kind = "fit" /\ hist # <<>> /\ hist[Len(hist)].a = "Fit" /\ hist[Len(hist)].o = o =>
              obj[o].df = Analyze(intent, obj[o], obj[o].df.sig)
\* only user edits change a dictionary: every step that is not an Edit leaves the heap alone (action property)
OnlyEditsWrite == [][(hist' # hist /\ hist'[Len(hist')].a # "Edit") => heap' = heap]_vars
View == <<heap, intent, obj, Len(hist)>>
AtDepth == Len(hist) = MaxDepth => PrintT(<<"BEHAVIOUR", hist>>)
=============================================================================
