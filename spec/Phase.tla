-------------------------------- MODULE Phase --------------------------------
(***************************************************************************)
(* Interpolated phase (C17) in quarter-turn units: value v means v*pi/2.   *)
(* Anchors: rise midpoint -1, peak 0, decay midpoint +1, trough -2 / +2;   *)
(* an extremum on the same sample as a midpoint overrides it.              *)
(* Between two consecutive anchors a < b the phase is linear from          *)
(* Start(a) to End(b), where a trough counts as -2 when a segment starts   *)
(* at it and as +2 when a segment ends at it: the phase only ever          *)
(* advances, and wraps +2 -> -2 exactly at troughs.  Outside the span of   *)
(* the anchors the phase is undefined (NaN).                               *)
(***************************************************************************)
EXTENDS Seqs

\* anchors: function from sample index to kind, extrema overriding midpoints
KindAt(pk, tr, rs, dc, i) ==
  IF \E k \in 1 .. Len(pk) : pk[k] = i THEN "peak"
  ELSE IF \E k \in 1 .. Len(tr) : tr[k] = i THEN "trough"
  ELSE IF \E k \in 1 .. Len(dc) : dc[k] = i THEN "decay"       \* decays are written after rises in the code
  ELSE IF \E k \in 1 .. Len(rs) : rs[k] = i THEN "rise"
  ELSE "none"
StartVal(kind) == CASE kind = "peak" -> 0 [] kind = "decay" -> 1 [] kind = "rise" -> -1 [] OTHER -> -2     \* trough at a segment start
EndVal(kind)   == CASE kind = "peak" -> 0 [] kind = "decay" -> 1 [] kind = "rise" -> -1 [] OTHER -> 2      \* trough at a segment end

AnchorSet(pk, tr, rs, dc) == { pk[k] : k \in 1 .. Len(pk) } \cup { tr[k] : k \in 1 .. Len(tr) }
                             \cup { rs[k] : k \in 1 .. Len(rs) } \cup { dc[k] : k \in 1 .. Len(dc) }

\* phase at sample i as a rational number of quarter turns, or NaN
PhaseAt(pk, tr, rs, dc, i) ==
  LET A == AnchorSet(pk, tr, rs, dc) IN
  IF A = {} \/ i < MinOf(A) \/ i > MaxOf(A) THEN NaN
  ELSE IF i = MaxOf(A) THEN Rat(StartVal(KindAt(pk, tr, rs, dc, i)), 1)
  ELSE LET a == MaxOf({ x \in A : x <= i })
           b == MinOf({ x \in A : x > i })
           s == StartVal(KindAt(pk, tr, rs, dc, a))
           e == EndVal(KindAt(pk, tr, rs, dc, b))
       IN  Rat(s * (b - a) + (e - s) * (i - a), b - a)
Phase(n, pk, tr, rs, dc) == Strict([j \in 1 .. n |-> PhaseAt(pk, tr, rs, dc, j - 1)])

\* ---- what C17 states ----
MinusTwo == <<-2, 1>>
Two      == <<2, 1>>
InRange(p)  == \A j \in 1 .. Len(p) : IsNaN(p[j]) \/ (RatLe(MinusTwo, p[j]) /\ RatLe(p[j], Two))
FiniteSpan(p, lo, hi) == \A j \in 1 .. Len(p) : IsNaN(p[j]) <=> (j - 1 < lo \/ j - 1 > hi)
AnchorsOK(p, pk, tr, rs, dc) ==
  \A j \in 1 .. Len(p) : LET k == KindAt(pk, tr, rs, dc, j - 1) IN
     CASE k = "peak" -> p[j] = Zero [] k = "trough" -> p[j] \in {MinusTwo, Two}
       [] k = "rise" -> p[j] = <<-1, 1>> [] k = "decay" -> p[j] = One [] OTHER -> TRUE
\* advances monotonically; the only decreases are the wrap at a trough (the sample after the decrease is the trough, at -2)
MonotoneExceptWrap(p, tr) ==
  \A j \in 1 .. (Len(p) - 1) : (~IsNaN(p[j]) /\ ~IsNaN(p[j + 1]) /\ RatLt(p[j + 1], p[j])) =>
                                  (p[j + 1] = MinusTwo /\ \E k \in 1 .. Len(tr) : tr[k] = j)

\* ---- the same four statements on an order-isomorphic rank coding of an implementation's output ----
\* c: rank code per sample (-1 = NaN); K: codes of the constants -pi, -pi/2, 0, pi/2, pi in the same ranking
CodeRange(c, K)  == \A j \in 1 .. Len(c) : c[j] = -1 \/ (K[1] <= c[j] /\ c[j] <= K[5])
CodeSpan(c, lo, hi) == \A j \in 1 .. Len(c) : (c[j] = -1) <=> (j - 1 < lo \/ j - 1 > hi)
CodeAnchors(c, K, pk, tr, rs, dc) ==
  \A j \in 1 .. Len(c) : LET k == KindAt(pk, tr, rs, dc, j - 1) IN
     CASE k = "peak" -> c[j] = K[3] [] k = "trough" -> c[j] \in {K[1], K[5]}
       [] k = "rise" -> c[j] = K[2] [] k = "decay" -> c[j] = K[4] [] OTHER -> TRUE
CodeMonotone(c, K, tr) ==
  \A j \in 1 .. (Len(c) - 1) : (c[j] # -1 /\ c[j + 1] # -1 /\ c[j + 1] < c[j]) => (c[j + 1] = K[1] /\ \E k \in 1 .. Len(tr) : tr[k] = j)
=============================================================================
