----------------------------- MODULE MC_Pipeline -----------------------------
(***************************************************************************)
(* The analysis of one signal as ONE state machine, end to end, composed   *)
(* from the operator modules: one action per stage of compute_features     *)
(*    extrema (environment) -> FindZerox -> Assemble -> ComputeShape       *)
(*                          -> ComputeBurstFeat -> DetectBursts -> Judge   *)
(* over every raw signal in [0..NS-1 -> 0..V] x every alternating          *)
(* placement of NE extrema (peak first, as the analysis forces) x both     *)
(* centrings.  Judge compares the WHOLE table with the real                *)
(* compute_features run on the same input (find_extrema replaced by TLC's  *)
(* placement, amp_by_time by Amp(s)); thresholds are exact rationals, so   *)
(* the threshold decisions are taken on exact values on both sides.        *)
(* This checks the glue: negation and renaming for trough centring, column *)
(* routing, option plumbing, label assembly.                               *)
(***************************************************************************)
EXTENDS Cyclepoints, Shape, BurstFeat, Detect, TLC, Json, IOUtils

CONSTANTS NS, V, NE, UseImpl
File   == IF UseImpl THEN JsonDeserialize(IOEnv.IMPL_FILE) ELSE [places |-> <<>>, table |-> <<>>]
Places == File.places          \* every ascending NE-tuple of sample indices (ASSUMEd to be exactly that set)
Impl   == File.table
ASSUME UseImpl => { Places[i] : i \in 1 .. Len(Places) } = { p \in [1 .. NE -> 0 .. (NS - 1)] : \A k \in 1 .. (NE - 1) : p[k] < p[k + 1] }
ASSUME UseImpl => Len(Places) = Cardinality({ Places[i] : i \in 1 .. Len(Places) })

\* thresholds of the run (exact rationals) and minimum run length
ThrAmpFrac == <<1, 4>>
ThrAmpCons == <<1, 2>>
ThrPerCons == <<1, 2>>
ThrMono    == <<1, 2>>
MinCycles  == 1

VARIABLES sig, pi, peakC, stage, zx, rows, shape, bfeat, labels, agree
vars == <<sig, pi, peakC, stage, zx, rows, shape, bfeat, labels, agree>>

SigIndex(s) == FoldLeft(LAMBDA acc, k : acc * (V + 1) + s[NS + 1 - k], 0, [k \in 1 .. NS |-> k])
Index == (SigIndex(sig) * Len(Places) + (pi - 1)) * 2 + (IF peakC THEN 1 ELSE 0)
Amp(s) == [i \in 1 .. NS |-> (2 * s[i] + i) % 4]
\* the signal the peak-first analysis runs on, and its extrema (the placement alternates peak, trough, peak, ...)
sa == IF peakC THEN sig ELSE NegSeq(sig)
pk == [k \in 1 .. (NE \div 2) |-> Places[pi][2 * k - 1]]
tr == [k \in 1 .. (NE \div 2) |-> Places[pi][2 * k]]

Init == /\ sig \in [1 .. NS -> 0 .. V] /\ pi \in 1 .. Len(Places) /\ peakC \in BOOLEAN
        /\ stage = "extrema" /\ zx = <<<<>>, <<>>>> /\ rows = <<>> /\ shape = <<>> /\ bfeat = <<>> /\ labels = <<>> /\ agree = TRUE

FindZerox == /\ stage = "extrema"
             /\ zx' = Zerox(sa, pk, tr)
             /\ stage' = "zerox"
             /\ UNCHANGED <<sig, pi, peakC, rows, shape, bfeat, labels, agree>>
Assemble == /\ stage = "zerox"
            /\ rows' = Rows(pk, tr, zx[1], zx[2])
            /\ stage' = "rows"
            /\ UNCHANGED <<sig, pi, peakC, zx, shape, bfeat, labels, agree>>
ComputeShape == /\ stage = "rows"
                /\ shape' = [k \in 1 .. Len(rows) |-> ShapeOf(sig, Amp(sig), rows[k], peakC)]
                /\ stage' = "shape"
                /\ UNCHANGED <<sig, pi, peakC, zx, rows, bfeat, labels, agree>>
ComputeBurstFeat ==
  /\ stage = "shape"
  /\ LET R  == [k \in 1 .. Len(rows) |-> shape[k].volt_rise]
         D  == [k \in 1 .. Len(rows) |-> shape[k].volt_decay]
         P  == [k \in 1 .. Len(rows) |-> shape[k].period]
         A2 == [k \in 1 .. Len(rows) |-> shape[k].volt_amp2]
     IN bfeat' = [k \in 1 .. Len(rows) |-> [ amp_fraction |-> AmpFraction(A2, k), amp_consistency |-> AmpConsistency(R, D, k, "both", peakC),
                                             period_consistency |-> PeriodConsistency(P, k, "both"), monotonicity |-> Monotonicity(sig, rows[k], peakC) ]]
  /\ stage' = "burstfeat"
  /\ UNCHANGED <<sig, pi, peakC, zx, rows, shape, labels, agree>>
AboveRat(x, t) == ~IsNaN(x) /\ (IF x = NegInf THEN FALSE ELSE RatLt(t, x))
DetectBursts ==
  /\ stage = "burstfeat"
  /\ labels' = MinRunFold([k \in 1 .. Len(rows) |-> /\ k # 1 /\ k # Len(rows)
                                                    /\ AboveRat(bfeat[k].amp_fraction, ThrAmpFrac) /\ AboveRat(bfeat[k].amp_consistency, ThrAmpCons)
                                                    /\ AboveRat(bfeat[k].period_consistency, ThrPerCons) /\ AboveRat(bfeat[k].monotonicity, ThrMono)], MinCycles)
  /\ stage' = "labelled"
  /\ UNCHANGED <<sig, pi, peakC, zx, rows, shape, bfeat, agree>>

\* flat table: K integers per input: ok, number of rows, then per row (NR = NE/2 - 1 rows): six samples, label, ten integer shape features,
\* and numerator / denominator of time_rdsym, time_ptsym, band_amp, amp_fraction, amp_consistency, period_consistency, monotonicity
NR == NE \div 2 - 1
PerRow == 6 + 1 + 10 + 14
K == 2 + NR * PerRow
IntNames == <<"period", "time_rise", "time_decay", "time_peak", "time_trough", "volt_peak", "volt_trough", "volt_rise", "volt_decay", "volt_amp2">>
FlatRow(k) == <<rows[k].lastzx, rows[k].last, rows[k].zx1, rows[k].centre, rows[k].zx2, rows[k].next, IF labels[k] THEN 1 ELSE 0>>
              \o [j \in 1 .. 10 |-> shape[k][IntNames[j]]]
              \o shape[k].time_rdsym \o shape[k].time_ptsym \o shape[k].band_amp
              \o bfeat[k].amp_fraction \o bfeat[k].amp_consistency \o bfeat[k].period_consistency \o bfeat[k].monotonicity
Flat == <<1, Len(rows)>> \o FoldLeft(LAMBDA acc, k : acc \o FlatRow(k), <<>>, [k \in 1 .. Len(rows) |-> k])
EI(j) == Impl[Index * K + j]
Judge == /\ stage = "labelled"
         /\ LET fl == Flat
                ok == ~UseImpl \/ (Len(fl) = K /\ \A j \in 1 .. K : EI(j) = fl[j])
            IN /\ agree' = ok
               /\ IF ~ok THEN PrintT(<<"DISAGREE", Index, "compute_features", sig, Places[pi], peakC, fl, [j \in 1 .. K |-> EI(j)]>>) ELSE TRUE
         /\ stage' = "done"
         /\ UNCHANGED <<sig, pi, peakC, zx, rows, shape, bfeat, labels>>
Next == FindZerox \/ Assemble \/ ComputeShape \/ ComputeBurstFeat \/ DetectBursts \/ Judge
Spec == Init /\ [][Next]_vars

StageIn(s) == stage \in s
InvTableWF  == StageIn({"rows", "shape", "burstfeat", "labelled", "done"}) => TableWF(rows, NS, -1) /\ Len(rows) = NR
InvShapeWF  == StageIn({"shape", "burstfeat", "labelled", "done"}) => \A k \in 1 .. Len(rows) : ShapeWF(shape[k])
InvEndsNaN  == StageIn({"burstfeat", "labelled", "done"}) => IsNaN(bfeat[1].amp_consistency) /\ IsNaN(bfeat[Len(rows)].period_consistency)
InvEndsNotBurst == StageIn({"labelled", "done"}) => ~labels[1] /\ ~labels[Len(rows)]
\* mirror (C09) at the level of the whole machine: trough-centred rows on s are the peak-centred rows on -s
InvMirrorRows == stage = "rows" /\ ~peakC => rows = Rows(pk, tr, Zerox(NegSeq(sig), pk, tr)[1], Zerox(NegSeq(sig), pk, tr)[2])
ImplAgrees == agree
=============================================================================
