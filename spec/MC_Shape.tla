------------------------------ MODULE MC_Shape ------------------------------
(***************************************************************************)
(* C04 (and the monotonicity part of C05) on every small signal x every    *)
(* placement of one cycle's cyclepoints x both centrings.  The list of     *)
(* placements comes with the implementation table and is checked (ASSUME)  *)
(* to be exactly the set of valid placements, so TLC - not the harness -   *)
(* defines the input space.  The real compute_shape_features (its          *)
(* cyclepoint stage replaced by the placement, amp_by_time by Amp(s)) and  *)
(* compute_monotonicity are compared on every input.                       *)
(***************************************************************************)
EXTENDS Shape, BurstFeat, TLC, Json, IOUtils

CONSTANTS NS, V, UseImpl
File   == IF UseImpl THEN JsonDeserialize(IOEnv.IMPL_FILE) ELSE [places |-> <<>>, table |-> <<>>]
Places == File.places
Impl   == File.table

ValidPlaces == { p \in [1 .. 6 -> 0 .. (NS - 1)] :
                   /\ p[1] <= p[2] /\ p[2] <= p[3] /\ p[3] <= p[4] /\ p[4] <= p[5] /\ p[5] <= p[6]
                   /\ p[2] < p[4] /\ p[4] < p[6] }
ASSUME UseImpl => { Places[i] : i \in 1 .. Len(Places) } = ValidPlaces /\ Len(Places) = Cardinality(ValidPlaces)

VARIABLES sig, pi, peakC, stage, feat, agree
vars == <<sig, pi, peakC, stage, feat, agree>>

SigIndex(s) == FoldLeft(LAMBDA acc, k : acc * (V + 1) + s[NS + 1 - k], 0, [k \in 1 .. NS |-> k])
Index == (SigIndex(sig) * Len(Places) + (pi - 1)) * 2 + (IF peakC THEN 1 ELSE 0)
\* the analytic amplitude is an environment input; here a fixed function of the signal
Amp(s) == [i \in 1 .. NS |-> (2 * s[i] + i) % 4]
RowAt(p) == [lastzx |-> p[1], last |-> p[2], zx1 |-> p[3], centre |-> p[4], zx2 |-> p[5], next |-> p[6]]
row == RowAt(Places[pi])

Init == /\ sig \in [1 .. NS -> 0 .. V] /\ pi \in 1 .. Len(Places) /\ peakC \in BOOLEAN
        /\ stage = "rows" /\ feat = [period |-> 0] /\ agree = TRUE

ComputeShape == /\ stage = "rows"
                /\ feat' = ShapeOf(sig, Amp(sig), row, peakC) @@ [monotonicity |-> Monotonicity(sig, row, peakC)]
                /\ stage' = "shape"
                /\ UNCHANGED <<sig, pi, peakC, agree>>

Names == <<"period", "time_rise", "time_decay", "time_peak", "time_trough", "volt_peak", "volt_trough", "volt_rise",
           "volt_decay", "volt_amp2", "time_rdsym", "time_ptsym", "band_amp", "monotonicity">>
\* flat table, 19 integers per input: ok, the ten integer features, then numerator and denominator of the four ratios
FlatFeat == <<1>> \o [k \in 1 .. 10 |-> feat[Names[k]]] \o <<feat.time_rdsym[1], feat.time_rdsym[2], feat.time_ptsym[1], feat.time_ptsym[2],
                                                             feat.band_amp[1], feat.band_amp[2], feat.monotonicity[1], feat.monotonicity[2]>>
EI(j) == Impl[Index * 19 + j]
Judge == /\ stage = "shape"
         /\ LET ok == ~UseImpl \/ (\A j \in 1 .. 19 : EI(j) = FlatFeat[j]) IN
              /\ agree' = ok
              /\ IF ~ok THEN PrintT(<<"DISAGREE", Index, "compute_shape_features", sig, Places[pi], peakC, FlatFeat, [j \in 1 .. 19 |-> EI(j)]>>) ELSE TRUE
         /\ stage' = "done"
         /\ UNCHANGED <<sig, pi, peakC, feat>>

Next == ComputeShape \/ Judge
Spec == Init /\ [][Next]_vars

Done == stage \in {"shape", "done"}
InvShapeWF   == Done => ShapeWF(feat)
\* the code's negate-and-rename route equals the direct definition on the un-negated signal
InvNegation  == stage = "rows" /\ ~peakC => ViaNegation(sig, Amp(sig), row) = ShapeOf(sig, Amp(sig), row, FALSE)
InvMonoUnit  == Done => InUnit(feat.monotonicity)
\* mirror (C09): trough-centred on s == peak-centred on -s for monotonicity
InvMonoMirror == stage = "rows" => Monotonicity(sig, row, FALSE) = Monotonicity([i \in 1 .. NS |-> -sig[i]], row, TRUE)
ImplAgrees   == agree
=============================================================================
