------------------------- MODULE Trace_GroupSession -------------------------
(***************************************************************************)
(* Trace validation of replayed group sessions (C14; C11 / C12 through the *)
(* tables the group exposes).  The behaviours come from TLC itself         *)
(* (simulation of GroupSession.tla); the harness replays each on a REAL    *)
(* BycycleGroup object that shares real threshold dictionaries with the    *)
(* "user", and records after every action                                  *)
(*   - the contents of both dictionaries (heap),                           *)
(*   - the SETTINGS it used for the functional reference (`used`): TLC     *)
(*     requires them to be the settings the SPECIFICATION holds at that    *)
(*     point - the oracle's inputs come from the model, not from the       *)
(*     harness' own bookkeeping,                                           *)
(*   - fingerprints, position by position, of the tables the models hold   *)
(*     (`models`), of group.df_features (`shown`), of the functional       *)
(*     reference (`ref`: compute_features_2d / _3d with fresh copies of    *)
(*     the settings; for Recompute the functional recompute_edges of every *)
(*     table held before the call), and whether every model's signal is    *)
(*     the signal at its position (`sigs_ok`) and len / iteration /        *)
(*     indexing agree with `models` (`look_ok`).                           *)
(* Each event is bound to the GroupSession action of the same name.        *)
(***************************************************************************)
EXTENDS GroupSession, Json, IOUtils
Cases == JsonDeserialize(IOEnv.TRACE_FILE)
VARIABLES tid, l, fails
tvars == <<vars, tid, l, fails>>
c == Cases[tid]
e == c[l]
Fail(cond, name) == IF cond THEN <<>> ELSE <<name>>

TInit == /\ Init /\ tid \in 1 .. Len(Cases) /\ l = 1 /\ fails = <<>>

\* primed variables = the specified post-state of the action the event is bound to
HeapClause == Fail(e.heap = [r \in Refs |-> heap'[r]], "C15.caller_dictionary_modified_by.group." \o e.a)
UsedOK == e.used = [stack |-> grp'.models.stack, axis |-> grp'.models.axis, lvl |-> grp'.models.lvl, mnc |-> grp'.models.mnc,
                    centre |-> grp'.models.centre, red |-> grp'.models.red]
TableClauses(what) ==
  IF e.raised # "" THEN <<"C14.group_" \o what \o "_raised">>
  ELSE Fail(UsedOK, "MACHINERY.reference_not_computed_with_the_specified_settings")
    \o Fail(e.models = e.ref, "C14.group_" \o what \o "_differs_from_the_functional_result_with_the_settings_the_group_holds")
    \o Fail(e.shown = e.models, "C14.group_models_do_not_mirror_df_features_after_" \o what)
    \o Fail(e.sigs_ok, "C14.group_models_do_not_mirror_sigs_after_" \o what)
    \o Fail(e.look_ok, "C14.group_len_iteration_indexing_disagree_with_models_after_" \o what)
TStep ==
  /\ l <= Len(c)
  /\ CASE e.a = "New"       -> GNew(e.tk) /\ fails' = fails \o HeapClause \o Fail(e.raised = "", "C14.group_constructor_raised")
       [] e.a = "SetThr"    -> GSetThr(e.tk) /\ fails' = fails \o HeapClause \o Fail(e.raised = "", "C14.group_attribute_assignment_raised")
       [] e.a = "SetCentre" -> GSetCentre(e.c) /\ fails' = fails \o HeapClause \o Fail(e.raised = "", "C14.group_attribute_assignment_raised")
       [] e.a = "Edit"      -> GEdit(e.tk, e.c, e.v) /\ fails' = fails \o HeapClause
       [] e.a = "Fit"       -> GFit(e.k, e.ax) /\ fails' = fails \o HeapClause \o TableClauses("fit")
       [] e.a = "Recompute" -> GRecompute(e.v) /\ fails' = fails \o HeapClause \o TableClauses("recompute_edges")
       [] OTHER             -> GLook /\ fails' = fails \o HeapClause
                                     \o Fail(e.shown = e.models, "C14.group_models_do_not_mirror_df_features")
                                     \o Fail(e.sigs_ok, "C14.group_models_do_not_mirror_sigs")
                                     \o Fail(e.look_ok, "C14.group_len_iteration_indexing_disagree_with_models")
  /\ l' = l + 1
  /\ UNCHANGED tid
Finish == /\ l = Len(c) + 1
          /\ PrintT(<<"VERDICT", tid, fails>>)
          /\ l' = l + 1
          /\ UNCHANGED <<vars, tid, fails>>
TNext == TStep \/ Finish
TSpec == TInit /\ [][TNext]_tvars
\* the GroupSession invariants are evaluated in every state of every replayed behaviour
THeapIsIntent == HeapIsIntent
TMirror == Mirror
TUsesCurrentSettings == UsesCurrentSettings
=============================================================================
