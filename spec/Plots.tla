-------------------------------- MODULE Plots --------------------------------
(***************************************************************************)
(* What the plots must draw (C20), in sample units.  The plotted signal    *)
(* has n samples; an x-window on the sample grid is (a, b) in samples and  *)
(* displays the samples a <= i < b (None == -1: everything).  A table row  *)
(* carries s = <<lastzx, last, zx1, centre, zx2, next>>, its burst label   *)
(* and, per plotted parameter, the limbs of its value.                     *)
(* Statements are bounds: Required <= Drawn <= Genuine.                    *)
(***************************************************************************)
EXTENDS Seqs
None == -1
Lo(a)    == IF a = None THEN 0 ELSE a
Hi(b, n) == IF b = None THEN n ELSE b
Displayed(n, a, b) == { i \in 0 .. (n - 1) : Lo(a) <= i /\ i < Hi(b, n) }
\* strictly inside the view: between the limits (without limits: between the first and the last plotted sample)
StrictlyInside(c, n, a, b) == IF a = None /\ b = None THEN 0 < c /\ c < n - 1 ELSE Lo(a) < c /\ c < Hi(b, n) /\ c <= n - 1

\* peak-centred: zx1 is the rise, zx2 the decay midpoint and lastzx the previous decay; trough-centred: the other way round
Genuine(t, kind, peakC) ==
  CASE kind = "centre" -> { t[k].s[4] : k \in 1 .. Len(t) }
    [] kind = "side"   -> { t[k].s[2] : k \in 1 .. Len(t) } \cup { t[k].s[6] : k \in 1 .. Len(t) }
    [] kind = "rise"   -> IF peakC THEN { t[k].s[3] : k \in 1 .. Len(t) } ELSE { t[k].s[5] : k \in 1 .. Len(t) } \cup { t[k].s[1] : k \in 1 .. Len(t) }
    [] OTHER           -> IF peakC THEN { t[k].s[5] : k \in 1 .. Len(t) } \cup { t[k].s[1] : k \in 1 .. Len(t) } ELSE { t[k].s[3] : k \in 1 .. Len(t) }
Required(t, kind, peakC) ==
  CASE kind = "rise"  -> IF peakC THEN { t[k].s[3] : k \in 1 .. Len(t) } ELSE { t[k].s[5] : k \in 1 .. Len(t) }
    [] kind = "decay" -> IF peakC THEN { t[k].s[5] : k \in 1 .. Len(t) } ELSE { t[k].s[3] : k \in 1 .. Len(t) }
    [] OTHER          -> Genuine(t, kind, peakC)
MarkersOK(drawn, t, kind, peakC, n, a, b) ==
  /\ drawn \subseteq Genuine(t, kind, peakC)
  /\ { c \in Required(t, kind, peakC) : StrictlyInside(c, n, a, b) } \subseteq drawn

\* burst highlight: only samples of burst cycles; all samples of every burst cycle that is displayed completely
Span(r) == r.s[2] .. r.s[6]
BurstAllowed(t)  == UNION { Span(t[k]) : k \in { k \in 1 .. Len(t) : t[k].lab } }
BurstRequired(t, n, a, b) == UNION { Span(t[k]) : k \in { k \in 1 .. Len(t) : t[k].lab /\ Span(t[k]) \subseteq Displayed(n, a, b) } }
HighlightOK(H, t, n, a, b) == H \subseteq BurstAllowed(t) /\ BurstRequired(t, n, a, b) \subseteq H

\* parameter panel, interpolated mode: vertices <<sample, value limbs>> at cycle centres
CentreVertexOK(v, t, p) == \E k \in 1 .. Len(t) : t[k].s[4] = v[1] /\ t[k].val[p] = v[2]
\* step mode: vertices at the side extrema of a cycle carrying that cycle's value
SideVertexOK(v, t, p) == \E k \in 1 .. Len(t) : (t[k].s[2] = v[1] \/ t[k].s[6] = v[1]) /\ t[k].val[p] = v[2]
InView(r, n, a, b) == Span(r) \subseteq Displayed(n, a, b)
\* two statements: every vertex drawn is a genuine (position, value) of some cycle; every cycle entirely in view is drawn
PanelDrawnOK(verts, interp, t, p) ==
  \A i \in 1 .. Len(verts) : IF interp THEN CentreVertexOK(verts[i], t, p) ELSE SideVertexOK(verts[i], t, p)
PanelCompleteOK(verts, interp, t, p, n, a, b) ==
  \A k \in 1 .. Len(t) : InView(t[k], n, a, b) =>
        IF interp THEN \E i \in 1 .. Len(verts) : verts[i] = <<t[k].s[4], t[k].val[p]>>
        ELSE (\E i \in 1 .. Len(verts) : verts[i] = <<t[k].s[2], t[k].val[p]>>) /\ (\E i \in 1 .. Len(verts) : verts[i] = <<t[k].s[6], t[k].val[p]>>)

\* ---- the statements of C20 evaluated on one recorded plotting call c (shared by Trace_Plots and MC_Plots) ----
Fail(cond, name) == IF cond THEN <<>> ELSE <<name>>
Kinds == <<"centre", "side", "rise", "decay">>
MarkerClauses(c) ==
  FoldLeft(LAMBDA acc, kind :
             acc \o (IF c.markers[kind].shown
                     THEN Fail(c.markers[kind].on_grid, "C20.marker_not_on_a_sample." \o kind)
                       \o Fail(IF c.marker_union      \* the marker artists could not be told apart by kind: every marker must be a genuine cyclepoint of SOME shown kind
                              THEN ToSet(c.markers[kind].samples) \subseteq UNION { Genuine(c.t, k2, c.peakC) : k2 \in { k2 \in {"centre", "side", "rise", "decay"} : c.markers[k2].shown } }
                              ELSE ToSet(c.markers[kind].samples) \subseteq Genuine(c.t, kind, c.peakC), "C20.marker_not_a_genuine_cyclepoint." \o kind)
                       \o (IF c.op \in {"cyclepoints_df", "cyclepoints_array"}      \* completeness is stated for the cyclepoint plots only
                           THEN Fail({ x \in Required(c.t, kind, c.peakC) : StrictlyInside(x, c.n, c.a, c.b) } \subseteq ToSet(c.markers[kind].samples), "C20.cyclepoint_inside_view_not_drawn." \o kind)
                           ELSE <<>>)
                       \o Fail(/\ Len(c.markers[kind].y) = Len(c.markers[kind].samples)
                             /\ \A k \in 1 .. Len(c.markers[kind].samples) : c.markers[kind].samples[k] \in 0 .. (Len(c.sig) - 1)
                                                                           /\ c.markers[kind].y[k] = c.sig[c.markers[kind].samples[k] + 1], "C20.marker_y_is_not_the_plotted_signal." \o kind)
                     ELSE Fail(c.markers[kind].samples = <<>>, "C20.marker_kind_switched_off_but_drawn." \o kind)),
           <<>>, Kinds)
PlotClauses(c) ==
  IF c.raised # "" THEN <<"C20.raised." \o c.op>>
  ELSE MarkerClauses(c)
    \o (IF c.has_burst THEN Fail(HighlightOK(ToSet(c.H), c.t, c.n, c.a, c.b), "C20.burst_highlight")
                          \o Fail(Len(c.Hy) = Len(c.H) /\ \A k \in 1 .. Len(c.H) : c.H[k] \in 0 .. (Len(c.sig) - 1) /\ c.Hy[k] = c.sig[c.H[k] + 1], "C20.highlighted_trace_is_not_the_plotted_signal")
        ELSE <<>>)
    \o FoldLeft(LAMBDA acc, p : acc \o Fail(PanelDrawnOK(c.panels[p].verts, c.interp, c.t, c.panels[p].col), "C20.parameter_panel_values")
                                     \o Fail(PanelCompleteOK(c.panels[p].verts, c.interp, c.t, c.panels[p].col, c.n, c.a, c.b), "C20.parameter_panel_misses_a_cycle_in_view")
                                     \o Fail(c.panels[p].thr_line = c.panels[p].thr, "C20.threshold_line"),
                <<>>, [p \in 1 .. Len(c.panels) |-> p])
=============================================================================
