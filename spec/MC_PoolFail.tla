------------------------------ MODULE MC_PoolFail ------------------------------
(***************************************************************************)
(* Extension of the pool model beyond the listed properties: FAULTS.        *)
(* A task in Failing raises in its worker.  multiprocessing transports the  *)
(* exception as that task's result; the iterator re-raises it in the parent *)
(* when it reaches that index.  Specified outcome for every interleaving:   *)
(* the parent call raises the exception of the LOWEST-indexed failing task  *)
(* after having consumed exactly the results before it - nothing is         *)
(* mis-placed, nothing hangs.                                               *)
(***************************************************************************)
EXTENDS Pool, TLC
CONSTANTS T, W
VARIABLES failing, raisedAt
fvars == <<vars, failing, raisedAt>>
Exc(k) == -k                               \* the exception raised by task k
Res(k) == IF k \in failing THEN Exc(k) ELSE k

Init == PInit(W) /\ failing \in (SUBSET (1 .. T)) \ {{}} /\ raisedAt = 0
ConsumeOrRaise == /\ items # <<>> /\ raisedAt = 0
                  /\ IF Head(items) < 0
                       THEN raisedAt' = -Head(items) /\ UNCHANGED <<collected, items>>
                       ELSE collected' = Append(collected, Head(items)) /\ items' = Tail(items) /\ UNCHANGED raisedAt
                  /\ UNCHANGED <<submitted, queue, running, outq, parked, nextIdx, finished, failing>>
Lift(A) == A /\ UNCHANGED <<failing, raisedAt>>
Next == \/ Lift(Submit(T)) \/ (\E w \in 1 .. W : Lift(Take(w)) \/ Lift(Finish(w, Res))) \/ Lift(Handle) \/ ConsumeOrRaise
Spec == Init /\ [][Next]_fvars /\ WF_fvars(Next)

FirstFailing == CHOOSE k \in failing : \A j \in failing : k <= j
\* safety: what the parent has consumed is always the prefix before the first failing task, and only that task's exception is raised
PrefixBeforeFailure == /\ \A k \in 1 .. Len(collected) : collected[k] = k
                       /\ Len(collected) < FirstFailing
RaisesFirstFailing  == raisedAt # 0 => raisedAt = FirstFailing /\ Len(collected) = FirstFailing - 1
\* liveness: the failure always surfaces (the call does not hang)
Surfaces == <>(raisedAt # 0)
FView == <<submitted, queue, running, outq, parked, nextIdx, items, collected, failing, raisedAt>>
=============================================================================
