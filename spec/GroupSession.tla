----------------------------- MODULE GroupSession -----------------------------
(***************************************************************************)
(* A user session with ONE BycycleGroup object (C14: "BycycleGroup.models  *)
(* mirror df_features and sigs position by position", "no stale state";   *)
(* C11 / C12 through the tables the group exposes).                        *)
(*                                                                         *)
(* State: a heap of two user-owned threshold dictionaries (the group holds *)
(* a REFERENCE to one of them), the group's public settings, and a         *)
(* DESCRIPTOR of what every table the group exposes must be: which stack   *)
(* of signals, which axis mode, the settings the analysis used, how many   *)
(* edge recomputations followed.  `models` describes what the per-signal   *)
(* Bycycle objects hold, `shown` what group.df_features holds: the         *)
(* specification keeps them equal.  `fit_tk` remembers the dictionary the  *)
(* group was bound to when it was fitted - the IDEAL actions never read    *)
(* it; the code's former behaviour is written down as named deviations     *)
(* (negative controls, not part of Next):                                  *)
(*   RecomputeStale      - the models recompute with the dictionary of fit *)
(*                         time (defect D22)                               *)
(*   RecomputeModelsOnly - df_features keeps the tables of fit() (D17)     *)
(***************************************************************************)
EXTENDS Seqs, TLC

CONSTANTS MaxDepth
Refs   == {1, 2}            \* threshold dictionaries owned by the user
Stacks == {1, 2, 3}         \* 1: 2-D stack of 3 signals, 2: 2-D stack of 2 other signals, 3: 3-D stack 2 x 2
AxesOf(k) == IF k = 3 THEN {"0", "1", "01"} ELSE {"0"}
Mnc    == {2, 3}
Lvl    == {1, 2}
VARIABLES heap, intent, grp, hist
vars == <<heap, intent, grp, hist>>

NoTables == [stack |-> 0, axis |-> "", lvl |-> 0, mnc |-> 0, centre |-> "", gen |-> 0, red |-> 0]
Init == /\ heap = [r \in Refs |-> [lvl |-> 1, mnc |-> 3]]
        /\ intent = heap
        /\ grp = [alive |-> FALSE, tk |-> 1, centre |-> "peak", fit_tk |-> 0, models |-> NoTables, shown |-> NoTables]
        /\ hist = <<>>

Ev(a, tk, v, c, k, ax) == [a |-> a, tk |-> tk, v |-> v, c |-> c, k |-> k, ax |-> ax]
Log(e) == hist' = Append(hist, e)

GNew(tk) == /\ ~grp.alive
            /\ grp' = [grp EXCEPT !.alive = TRUE, !.tk = tk]
            /\ Log(Ev("New", tk, 0, "peak", 0, ""))
            /\ UNCHANGED <<heap, intent>>
\* the user assigns public attributes of the group: ANOTHER threshold dictionary (re-binding, not editing), another centring
GSetThr(tk) == /\ grp.alive /\ tk # grp.tk
               /\ grp' = [grp EXCEPT !.tk = tk]
               /\ Log(Ev("SetThr", tk, 0, grp.centre, 0, ""))
               /\ UNCHANGED <<heap, intent>>
GSetCentre(c) == /\ grp.alive /\ c # grp.centre
                 /\ grp' = [grp EXCEPT !.centre = c]
                 /\ Log(Ev("SetCentre", grp.tk, 0, c, 0, ""))
                 /\ UNCHANGED <<heap, intent>>
\* the user edits one of the dictionaries in place
GEdit(r, field, val) == /\ heap[r][field] # val
                        /\ heap' = [heap EXCEPT ![r][field] = val]
                        /\ intent' = [intent EXCEPT ![r][field] = val]
                        /\ Log(Ev("Edit", r, val, field, 0, ""))
                        /\ UNCHANGED grp
Fitted(k, ax) == [stack |-> k, axis |-> ax, lvl |-> heap[grp.tk].lvl, mnc |-> heap[grp.tk].mnc, centre |-> grp.centre, gen |-> 0, red |-> 0]
GFit(k, ax) == /\ grp.alive /\ ax \in AxesOf(k)
               /\ grp' = [grp EXCEPT !.models = Fitted(k, ax), !.shown = Fitted(k, ax), !.fit_tk = grp.tk]
               /\ Log(Ev("Fit", grp.tk, 0, grp.centre, k, ax))
               /\ UNCHANGED <<heap, intent>>
\* recompute_edges(r): every table becomes the functional edge recomputation of the table held, with the thresholds the group holds NOW lowered by r
Recomputed(t, tk, r) == [t EXCEPT !.lvl = heap[tk].lvl, !.mnc = heap[tk].mnc, !.gen = @ + 1, !.red = r]
GRecompute(r) == /\ grp.alive /\ grp.models.stack # 0 /\ grp.models.gen < 2
                 /\ grp' = [grp EXCEPT !.models = Recomputed(grp.models, grp.tk, r), !.shown = Recomputed(grp.models, grp.tk, r)]
                 /\ Log(Ev("Recompute", grp.tk, r, grp.centre, 0, ""))
                 /\ UNCHANGED <<heap, intent>>
\* looking at the group: len / iteration / indexing / models / df_features / sigs
GLook == /\ grp.alive /\ grp.models.stack # 0
         /\ Log(Ev("Look", grp.tk, 0, grp.centre, 0, ""))
         /\ UNCHANGED <<heap, intent, grp>>

Step == \/ \E tk \in Refs : GNew(tk) \/ GSetThr(tk)
        \/ \E c \in {"peak", "trough"} : GSetCentre(c)
        \/ \E r \in Refs, val \in Lvl : GEdit(r, "lvl", val)
        \/ \E r \in Refs, val \in Mnc : GEdit(r, "mnc", val)
        \/ \E k \in Stacks : \E ax \in AxesOf(k) : GFit(k, ax)
        \/ \E r \in {0, 1} : GRecompute(r)
        \/ GLook
Next == Len(hist) < MaxDepth /\ Step
Spec == Init /\ [][Next]_vars
\* histories of ANY length: everything the actions and the properties read of `hist` is the name of its last event, so under the view ViewCore the
\* state space is finite and TLC explores it completely (cfg: SPECIFICATION SpecAll, VIEW ViewCore) - the invariants then hold without a depth bound
SpecAll == Init /\ [][Step]_vars
ViewCore == <<heap, intent, grp, IF hist = <<>> THEN "" ELSE hist[Len(hist)].a>>

\* ---- named deviations: what the code did before the repairs D22 / D17 ----
RecomputeStale(r) == /\ grp.alive /\ grp.models.stack # 0 /\ grp.models.gen < 2
                     /\ grp' = [grp EXCEPT !.models = Recomputed(grp.models, grp.fit_tk, r), !.shown = Recomputed(grp.models, grp.fit_tk, r)]
                     /\ Log(Ev("Recompute", grp.tk, r, grp.centre, 0, ""))
                     /\ UNCHANGED <<heap, intent>>
RecomputeModelsOnly(r) == /\ grp.alive /\ grp.models.stack # 0 /\ grp.models.gen < 2
                          /\ grp' = [grp EXCEPT !.models = Recomputed(grp.models, grp.tk, r)]
                          /\ Log(Ev("Recompute", grp.tk, r, grp.centre, 0, ""))
                          /\ UNCHANGED <<heap, intent>>
SpecStale      == Init /\ [][Next \/ (Len(hist) < MaxDepth /\ \E r \in {0, 1} : RecomputeStale(r))]_vars
SpecModelsOnly == Init /\ [][Next \/ (Len(hist) < MaxDepth /\ \E r \in {0, 1} : RecomputeModelsOnly(r))]_vars

\* ---- properties ----
HeapIsIntent == heap = intent
Mirror == grp.models = grp.shown
\* no stale state: right after a fit / an edge recomputation the tables were made with the settings the group holds now, as the user last wrote them
UsesCurrentSettings ==
  (hist # <<>> /\ hist[Len(hist)].a \in {"Fit", "Recompute"}) =>
     /\ grp.models.lvl = intent[grp.tk].lvl /\ grp.models.mnc = intent[grp.tk].mnc
     /\ (hist[Len(hist)].a = "Fit" => grp.models.centre = grp.centre)
OnlyEditsWrite == [][(hist' # hist /\ hist'[Len(hist')].a # "Edit") => heap' = heap]_vars
View == <<heap, intent, grp, Len(hist)>>

Count(a) == Cardinality({ k \in 1 .. Len(hist) : hist[k].a = a })
Rich == Count("Fit") >= 1 /\ Count("Recompute") + Count("Look") >= 1 /\ Count("Edit") + Count("SetThr") + Count("SetCentre") >= 1 /\ Count("Edit") <= 3
AtDepthRich == (Len(hist) = MaxDepth /\ Rich) => PrintT(<<"BEHAVIOUR", hist>>)
=============================================================================
