------------------------------- MODULE Seqs -------------------------------
(***************************************************************************)
(* Helpers shared by all bycycle specification modules.                    *)
(*                                                                         *)
(* Conventions.  Arrays of the implementation (numpy, 0-based) are TLA+    *)
(* sequences; At(s, i) is the element at numpy index i.  All sample        *)
(* indices, cyclepoints and windows in the specification are numpy         *)
(* indices, so formulas read like the documentation of the library.        *)
(* Rationals are pairs <<p, q>> in lowest terms with q > 0; the extended   *)
(* values are NaN == <<0, 0>> and NegInf == <<-1, 0>>.                     *)
(***************************************************************************)
EXTENDS Integers, Sequences, FiniteSets, Folds, Functions, SequencesExt, FiniteSetsExt

At(s, i)   == s[i + 1]
N(s)       == Len(s)
Idx(s)     == 0 .. (Len(s) - 1)
\* TLC builds [i \in S |-> e] lazily and re-evaluates e on every application; Strict forces a real tuple once
Strict(s)  == SubSeq(s, 1, Len(s))
Slice(s, a, b) == Strict([k \in 1 .. (IF b > a THEN b - a ELSE 0) |-> s[a + k]])   \* numpy s[a:b], 0 <= a, b <= len

Min2(a, b) == IF a <= b THEN a ELSE b
Max2(a, b) == IF a >= b THEN a ELSE b
Abs(a)     == IF a < 0 THEN -a ELSE a
MinOf(S)   == CHOOSE x \in S : \A y \in S : x <= y
MaxOf(S)   == CHOOSE x \in S : \A y \in S : x >= y

SortedSeq(S) == SetToSortSeq(S, <)         \* ascending sequence of a finite set of integers

RECURSIVE Gcd(_, _)
Gcd(a, b) == IF b = 0 THEN a ELSE Gcd(b, a % b)

NaN    == <<0, 0>>
NegInf == <<-1, 0>>
IsNaN(r)   == r = NaN
IsFinite(r) == r[2] # 0
\* p / q for q # 0, lowest terms, positive denominator
Rat(p, q) == LET s == IF q < 0 THEN -1 ELSE 1
                 g == Gcd(Abs(p), Abs(q))
             IN  <<(s * p) \div g, (s * q) \div g>>
\* comparison of finite rationals (products stay below 2^31 for the bounds used, see DESIGN 4.2)
RatLt(a, b) == a[1] * b[2] < b[1] * a[2]
RatLe(a, b) == a[1] * b[2] <= b[1] * a[2]
RatMin(a, b) == IF RatLe(a, b) THEN a ELSE b
RatAdd(a, b) == Rat(a[1] * b[2] + b[1] * a[2], a[2] * b[2])
RatHalf(a)   == Rat(a[1], 2 * a[2])
OneMinus(a)  == Rat(a[2] - a[1], a[2])
Zero == <<0, 1>>
One  == <<1, 1>>
\* extended order: NegInf < every finite; NaN is unordered (handled by callers)
ExtLe(a, b) == IF a = NegInf THEN TRUE ELSE IF b = NegInf THEN FALSE ELSE RatLe(a, b)
ExtMin(a, b) == IF ExtLe(a, b) THEN a ELSE b

SumSeq(s)        == FoldLeft(LAMBDA acc, x : acc + x, 0, s)
SumRange(s, a, b) == FoldLeft(LAMBDA acc, k : acc + At(s, k), 0, [k \in 1 .. (IF b > a THEN b - a ELSE 0) |-> a + k - 1])  \* sum of s[a:b]
CountTrue(s)     == FoldLeft(LAMBDA acc, x : IF x THEN acc + 1 ELSE acc, 0, s)

\* first index (numpy) of the maximum / minimum of s over the numpy window [lo, hi)
FirstArgMax(s, lo, hi) == CHOOSE i \in lo .. (hi - 1) :
                             /\ \A j \in lo .. (hi - 1) : At(s, j) <= At(s, i)
                             /\ \A j \in lo .. (i - 1)  : At(s, j) <  At(s, i)
FirstArgMin(s, lo, hi) == CHOOSE i \in lo .. (hi - 1) :
                             /\ \A j \in lo .. (hi - 1) : At(s, j) >= At(s, i)
                             /\ \A j \in lo .. (i - 1)  : At(s, j) >  At(s, i)

\* floor of the median of a non-empty ascending sequence of non-negative integers (int(np.median(x)))
FloorMedian(c) == LET k == Len(c) IN
                  IF k % 2 = 1 THEN c[(k + 1) \div 2] ELSE (c[k \div 2] + c[k \div 2 + 1]) \div 2

Pow2(n) == IF n = 0 THEN 1 ELSE FoldLeft(LAMBDA acc, k : 2 * acc, 1, [k \in 1 .. n |-> k])
\* bit mask of a boolean sequence: sum of 2^i over numpy indices i with s[i] TRUE
BitMask(s) == FoldLeft(LAMBDA acc, k : IF s[k] THEN acc + Pow2(k - 1) ELSE acc, 0, [k \in 1 .. Len(s) |-> k])
\* bit mask of a set of numpy indices
SetMask(S) == FoldSet(LAMBDA k, acc : acc + Pow2(k), 0, S)
=============================================================================
