--------------------------- MODULE Trace_RunFilter ---------------------------
(***************************************************************************)
(* Trace validation of recorded check_min_burst_cycles calls (arrays far   *)
(* beyond the exhaustive bound).  One case = two recorded calls: the call  *)
(* on the input and the call on its own output (idempotence).  The verdict *)
(* is total: every case gets the list of failing clauses.                  *)
(***************************************************************************)
EXTENDS RunFilter, TLC, Json, IOUtils

Cases == JsonDeserialize(IOEnv.TRACE_FILE)

VARIABLES tid, stage, fails
vars == <<tid, stage, fails>>

Init == tid \in 1 .. Len(Cases) /\ stage = "call" /\ fails = <<>>

Clauses(c) ==
  LET b == c.b  m == c.m  o == c.out  o2 == c.out2
      want == MinRunFold(b, m)
  IN  (IF Len(o) = Len(b) THEN <<>> ELSE <<"C08.length">>)
   \o (IF Len(o) = Len(b) /\ o # want THEN
          (IF \E i \in 1 .. Len(b) : o[i] /\ ~b[i] THEN <<"C08.false_to_true">>
           ELSE IF \E i \in 1 .. Len(b) : o[i] /\ ~want[i] THEN <<"C08.short_run_kept">>
           ELSE <<"C08.long_run_cleared">>)
       ELSE <<>>)
   \o (IF o2 # o THEN <<"C08.idempotent">> ELSE <<>>)

\* a case in run-length coding: c.rle = <<value, length>> per maximal run of the input, c.kept / c.kept2 = number of TRUE elements of the
\* output (and of the second call's output) inside each of those runs, c.n_out = length of the output
ClausesRLE(c) ==
  LET r == c.rle  want == KeptPerRun(r, c.m)
      total == FoldLeft(LAMBDA acc, x : acc + x[2], 0, r) IN
      (IF c.n_out = total THEN <<>> ELSE <<"C08.length">>)
   \o (IF Len(c.kept) # Len(r) THEN <<"C08.length">>
       ELSE IF c.kept = want THEN <<>>
       ELSE IF \E k \in 1 .. Len(r) : ~r[k][1] /\ c.kept[k] > 0 THEN <<"C08.false_to_true">>
       ELSE IF \E k \in 1 .. Len(r) : c.kept[k] > want[k] THEN <<"C08.short_run_kept">>
       ELSE <<"C08.long_run_cleared">>)
   \o (IF c.kept2 # c.kept THEN <<"C08.idempotent">> ELSE <<>>)

Check == /\ stage = "call"
         /\ fails' = (IF "rle" \in DOMAIN Cases[tid] THEN ClausesRLE(Cases[tid]) ELSE Clauses(Cases[tid]))
         /\ PrintT(<<"VERDICT", tid, fails'>>)
         /\ stage' = "done"
         /\ UNCHANGED tid
Next == Check
Spec == Init /\ [][Next]_vars
=============================================================================
