---------------------------- MODULE MC_RunFilter ----------------------------
(***************************************************************************)
(* Exhaustive small-scope model of the minimum-run filter, with indexed    *)
(* conformance against the real check_min_burst_cycles.                    *)
(* State machine: the scanner reads the array left to right (Scan), closes *)
(* a run at a FALSE or at the end (and clears it when shorter than m),     *)
(* then Judge compares the result with the three definitions and with the  *)
(* implementation's output for the same input (table Impl, indexed by the  *)
(* mixed-radix index of the input).                                        *)
(***************************************************************************)
EXTENDS RunFilter, TLC, Json, IOUtils

CONSTANTS MaxN,        \* arrays of length 0 .. MaxN
          MaxM,        \* min_n_cycles in 0 .. MaxM
          UseImpl      \* TRUE: compare with the implementation table in env IMPL_FILE

Impl == IF UseImpl THEN JsonDeserialize(IOEnv.IMPL_FILE) ELSE <<>>
\* evaluated once, single-threaded, before the workers start (TLC caches the value of a constant definition)
ASSUME ImplLoaded == UseImpl => Len(Impl) > 0

VARIABLES b, m, pos, runStart, out, stage, agree
vars == <<b, m, pos, runStart, out, stage, agree>>

\* mixed-radix index of the input: arrays ordered by length then by bit mask, m fastest
Index(bb, mm) == ((Pow2(Len(bb)) - 1) + BitMask(bb)) * (MaxM + 1) + mm

Init == /\ b \in UNION { [1 .. n -> BOOLEAN] : n \in 0 .. MaxN }
        /\ m \in 0 .. MaxM
        /\ pos = 1 /\ runStart = 0 /\ out = b /\ stage = "scan" /\ agree = TRUE

ClearRun(o, lo, hi) == [i \in 1 .. Len(o) |-> IF lo <= i /\ i <= hi THEN FALSE ELSE o[i]]

\* one element is read; a run that ends here is kept or cleared
Scan == /\ stage = "scan" /\ pos <= Len(b)
        /\ IF b[pos]
             THEN /\ runStart' = IF runStart = 0 THEN pos ELSE runStart
                  /\ out' = out
             ELSE /\ runStart' = 0
                  /\ out' = IF runStart # 0 /\ pos - runStart < m THEN ClearRun(out, runStart, pos - 1) ELSE out
        /\ pos' = pos + 1
        /\ UNCHANGED <<b, m, stage, agree>>

\* the end of the array closes an open run exactly like a FALSE does (edge runs are ordinary runs)
Finish == /\ stage = "scan" /\ pos = Len(b) + 1
          /\ out' = IF runStart # 0 /\ pos - runStart < m THEN ClearRun(out, runStart, pos - 1) ELSE out
          /\ stage' = "judge"
          /\ UNCHANGED <<b, m, pos, runStart, agree>>

\* three outcomes per input: the array passed as a fresh contiguous array, as a reversed view of its mirror image, as a strided view
\* (every second element of a longer array) - "every boolean array" includes views
ImplOut(j) == Impl[Index(b, m) * 3 + j]
ImplOK == \A j \in 1 .. 3 : ImplOut(j) = BitMask(out)

Judge == /\ stage = "judge"
         /\ agree' = (~UseImpl \/ ImplOK)
         /\ IF UseImpl /\ ~ImplOK
              THEN PrintT(<<"DISAGREE", Index(b, m), b, m, BitMask(out), <<ImplOut(1), ImplOut(2), ImplOut(3)>>>>) ELSE TRUE
         /\ stage' = "done"
         /\ UNCHANGED <<b, m, pos, runStart, out>>

Next == Scan \/ Finish \/ Judge
Spec == Init /\ [][Next]_vars

Final == stage \in {"judge", "done"}
\* ---- C08 on the specification itself ----
InvC08        == Final => C08Holds(b, m, out)
InvDefsAgree  == Final => out = MinRun(b, m) /\ out = MinRunFold(b, m)
InvIdempotent == Final => MinRun(out, m) = out
InvMonotoneM  == Final => \A k \in 1 .. Len(b) : (m > 0 /\ out[k]) => MinRun(b, m - 1)[k]
InvRunLength  == Final => LET r == Encode(b) IN KeptPerRun(r, m) = TruePerRun(r, out)
\* scanning never sets an element and never touches what it has not passed yet
InvScan       == \A k \in 1 .. Len(b) : (out[k] => b[k]) /\ (k >= pos => out[k] = b[k])
\* ---- conformance ----
ImplAgrees    == agree
=============================================================================
