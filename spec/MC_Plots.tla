------------------------------ MODULE MC_Plots ------------------------------
(***************************************************************************)
(* C20 on every small table: TLC enumerates every set of side extrema on    *)
(* NS samples (gaps >= 2, at least two cycles), both centrings, every        *)
(* x-window on the sample grid (and none), and every plotting function /     *)
(* interpolation mode; for each point the drawing recorded from the REAL     *)
(* plotting function is looked up by a key built from the point and judged   *)
(* by the statements of Plots.tla.  The table of the case must be the table  *)
(* TLC itself builds from the side extrema.                                  *)
(***************************************************************************)
EXTENDS Plots, TLC, Json, IOUtils
CONSTANTS NS, UseImpl
File == IF UseImpl THEN JsonDeserialize(IOEnv.IMPL_FILE) ELSE [x |-> 0]
ASSUME UseImpl => DOMAIN File # {}

SideSets == { S \in SUBSET (0 .. (NS - 1)) : Cardinality(S) >= 3 /\ \A x \in S : (x + 1) \notin S }
Windows  == {<<None, None>>} \cup { w \in (0 .. NS) \X (0 .. NS) : w[2] >= w[1] + 2 }
Ops      == {"summary_interp", "summary_step", "cyclepoints_df", "param_interp", "param_step"}

VARIABLES sides, peakC, win, op, stage, agree
vars == <<sides, peakC, win, op, stage, agree>>
Init == /\ sides \in SideSets /\ peakC \in BOOLEAN /\ win \in Windows /\ op \in Ops
        /\ stage = "table" /\ agree = TRUE

\* the table TLC builds: cycle k from the k-th to the (k+1)-th side extremum, centre one sample after the opening extremum
Rows == LET q == SortedSeq(sides) IN [k \in 1 .. (Len(q) - 1) |-> <<q[k], q[k], q[k], q[k] + 1, q[k] + 1, q[k + 1]>>]
Key == ToString(SetMask(sides)) \o (IF peakC THEN "p" ELSE "t") \o "/" \o (IF win[1] = None THEN "N" ELSE ToString(win[1]) \o "-" \o ToString(win[2])) \o "/" \o op

Judge == /\ stage = "table"
         /\ LET ok == ~UseImpl \/
                      (/\ Key \in DOMAIN File
                       /\ LET c == File[Key] IN
                            /\ [k \in 1 .. Len(c.t) |-> c.t[k].s] = Rows /\ c.n = NS /\ c.a = win[1] /\ c.b = win[2] /\ c.peakC = peakC
                            /\ PlotClauses(c) = <<>>)
            IN /\ agree' = ok
               /\ IF ~ok THEN PrintT(<<"DISAGREE", 0, op, SortedSeq(sides), peakC, win,
                                       IF Key \in DOMAIN File THEN PlotClauses(File[Key]) ELSE <<"not recorded">>>>) ELSE TRUE
         /\ stage' = "done"
         /\ UNCHANGED <<sides, peakC, win, op>>
Next == Judge
Spec == Init /\ [][Next]_vars
\* what is required never exceeds what is allowed (the bounds are satisfiable for every table and window)
InvBoundsConsistent == \A kind \in {"centre", "side", "rise", "decay"} :
      LET t == [k \in 1 .. Len(Rows) |-> [s |-> Rows[k], lab |-> TRUE]] IN Required(t, kind, peakC) \subseteq Genuine(t, kind, peakC)
ImplAgrees == agree
=============================================================================
