-------------------------------- MODULE MC_Pool --------------------------------
(***************************************************************************)
(* Exhaustive interleavings of the pool for small T, W with R(k) = k.      *)
(* MC_Pool.cfg        : SPECIFICATION Spec, invariants + Termination       *)
(* MC_PoolUnordered   : SPECIFICATION SpecUnordered must VIOLATE Prefix    *)
(* At every final state the completion order is printed (ORDER) so that    *)
(* the harness can realise each of them on the real pool.                  *)
(***************************************************************************)
EXTENDS Pool, TLC
CONSTANTS T, W          \* number of tasks, number of worker processes
RId(k) == k             \* pairwise different tasks have pairwise different results; the identity stands for any injective R
Workers == 1 .. W

Init == PInit(W)
Next == Submit(T) \/ (\E w \in Workers : Take(w) \/ Finish(w, RId)) \/ Handle \/ Consume
NextUnordered == Submit(T) \/ (\E w \in Workers : Take(w) \/ Finish(w, RId)) \/ HandleUnordered \/ Consume
Spec == Init /\ [][Next]_vars /\ WF_vars(Next)
SpecUnordered == Init /\ [][NextUnordered]_vars

Done == Len(collected) = T
\* C11: whatever the completion order, the parent sees a prefix of <<R(1), ..., R(T)>>
Prefix == \A k \in 1 .. Len(collected) : collected[k] = RId(k)
AtMostOnce == Len(collected) <= T /\ Cardinality({ finished[k] : k \in 1 .. Len(finished) }) = Len(finished)
NothingLost == submitted = T /\ queue = <<>> /\ (\A w \in Workers : running[w] = Idle) /\ outq = <<>> /\ items = <<>> => parked = {} /\ Done
Termination == <>Done
PrintOrders == (Done /\ outq = <<>> /\ items = <<>>) => PrintT(<<"ORDER", W, finished>>)

\* 3-D placement, checked on the pool's final result for every shape up to MaxN x MaxN (T = n0*n1 tasks is covered by T >= n0*n1)
CONSTANT MaxN
PlacementOK == Done => \A n0 \in 1 .. MaxN, n1 \in 1 .. MaxN :
                 n0 * n1 = T => LET out == Reshape(collected, n0, n1) IN \A i \in 1 .. n0, j \in 1 .. n1 : out[i][j] = FlatIndex(i, j, n1)
TransposeOK == \A n0 \in 1 .. MaxN, n1 \in 1 .. MaxN :
                 LET cols == [j \in 1 .. n1 |-> [i \in 1 .. n0 |-> <<i, j>>]] IN \A i \in 1 .. n0, j \in 1 .. n1 : Transpose(cols, n0, n1)[i][j] = <<i, j>>
=============================================================================
