-------------------------------- MODULE Edges --------------------------------
(***************************************************************************)
(* Edge recomputation (C16).  A consistency-labelled table enters as       *)
(*   R, D, P : volt_rise, volt_decay, period per cycle (integers),         *)
(*   lab     : its burst labels,                                           *)
(* and the recomputation replaces, for the cycle just BEFORE a burst, the  *)
(* two consistencies by their "next"-directed value and for the cycle just *)
(* AFTER a burst by their "last"-directed value (both look into the burst).*)
(* A cycle that is at once after burst k and before burst k+1 (one-cycle   *)
(* gap) may carry either one-sided value.  Nothing else changes; the new   *)
(* labels are the threshold-and-run rule on the edited table.              *)
(***************************************************************************)
EXTENDS BurstFeat, Detect

AllowedAmp(R, D, lab, peakC, i) ==
  LET b == i \in EdgeBefore(lab)  a == i \in EdgeAfter(lab) IN
  (IF b THEN {AmpConsistency(R, D, i, "next", peakC)} ELSE {}) \cup (IF a THEN {AmpConsistency(R, D, i, "last", peakC)} ELSE {})
AllowedPer(P, lab, i) ==
  LET b == i \in EdgeBefore(lab)  a == i \in EdgeAfter(lab) IN
  (IF b THEN {PeriodConsistency(P, i, "next")} ELSE {}) \cup (IF a THEN {PeriodConsistency(P, i, "last")} ELSE {})
IsEdge(lab, i) == i \in EdgeBefore(lab) \/ i \in EdgeAfter(lab)

\* the values the current code writes (the "next" value wins in a one-cycle gap); used by the model
EditedAmp(R, D, lab, peakC, old) == [i \in 1 .. Len(R) |-> IF i \in EdgeBefore(lab) THEN AmpConsistency(R, D, i, "next", peakC)
                                                        ELSE IF i \in EdgeAfter(lab) THEN AmpConsistency(R, D, i, "last", peakC) ELSE old[i]]
EditedPer(P, lab, old) == [i \in 1 .. Len(P) |-> IF i \in EdgeBefore(lab) THEN PeriodConsistency(P, i, "next")
                                              ELSE IF i \in EdgeAfter(lab) THEN PeriodConsistency(P, i, "last") ELSE old[i]]

\* bursts only grow: every old burst cycle stays, every new one is connected to an old one through new labels
Sub(a, b) == \A i \in 1 .. Len(a) : a[i] => b[i]
Grows(old, new) ==
  /\ Sub(old, new)
  /\ \A w \in MaxRuns(new) : \E i \in w[1] .. w[2] : old[i]
=============================================================================
