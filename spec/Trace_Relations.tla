--------------------------- MODULE Trace_Relations ---------------------------
(***************************************************************************)
(* Trace validation of pairs of recorded runs against the two-run          *)
(* relations of C09 (mirror) and C10 (amplitude / sampling-rate units).    *)
(* Each run of a pair is also validated on its own by Trace_Pipeline.      *)
(***************************************************************************)
EXTENDS Relations, TLC, Json, IOUtils

Cases == JsonDeserialize(IOEnv.TRACE_FILE)
VARIABLES tid, stage, fails
vars == <<tid, stage, fails>>
c == Cases[tid]
Fail(cond, name) == IF cond THEN <<>> ELSE <<name>>
Init == tid \in 1 .. Len(Cases) /\ stage = "pair" /\ fails = <<>>

RowsAgree(P(_, _)) == Len(c.A.rows) = Len(c.B.rows) /\ \A k \in 1 .. Len(c.A.rows) : P(c.A.rows[k], c.B.rows[k])

\* what bycycle hands to the filter design in the two runs must be the same request in the two unit systems: same length in cycles, no length
\* in seconds (the pairs use none), sampling rate and band edges in the same proportion.  Only then does a differing filter length / filter
\* output say something about the environment (neurodsp) rather than about bycycle's own plumbing.
SameProportion(x, y, u, v) == x[1] * v[1] * y[2] * u[2] = y[1] * u[1] * x[2] * v[2]       \* x / y = u / v on <<numerator, denominator>> pairs
ArgsCovariant(a, b) == /\ a.seen = b.seen
                       /\ (a.seen => /\ a.ncyc = b.ncyc /\ IsNaN(a.nsec) /\ IsNaN(b.nsec)
                                     /\ ~IsNaN(a.fs) /\ ~IsNaN(b.fs) /\ SameProportion(a.fs, b.fs, a.flo, b.flo) /\ SameProportion(a.fs, b.fs, a.fhi, b.fhi))

\* what bycycle hands to the environment (narrowband filter, amplitude estimate, sample-wise detector) in the two runs must stand in the relation
\* of the two signals: only then does a differing environment output say something about the environment rather than about bycycle
\* (a sign-sensitive or scale-sensitive preprocessing step on bycycle's side is bycycle's doing).  Inputs are sequences of grid integers q.
NegSeq(x) == [i \in 1 .. Len(x) |-> -x[i]]
InputsMirrored == c.A.filt_input = c.B.filt_input /\ c.A.amp_input = c.B.amp_input /\ c.A.dt_input = NegSeq(c.B.dt_input)
InputsSame == c.A.filt_input = c.B.filt_input /\ c.A.amp_input = c.B.amp_input /\ c.A.dt_input = c.B.dt_input

Clauses ==
  IF c.A.raised # "" \/ c.B.raised # ""
  THEN Fail(c.A.raised # "" /\ c.B.raised # "", c.rel \o ".only_one_run_raised")
  ELSE CASE c.rel = "C09.mirror" ->
              Fail(Len(c.A.rows) = Len(c.B.rows), "C09.mirror.row_count")
           \o Fail(RowsAgree(LAMBDA a, b : SameSamples(a, b)), "C09.mirror.sample_indices")
           \o Fail(RowsAgree(MirrorRow), "C09.mirror.shape_features")
           \o Fail(RowsAgree(MirrorBurst), "C09.mirror.burst_features_or_labels")
           \o Fail(InputsMirrored, "C09.mirror.inputs_to_filter_amplitude_or_detector_not_mirrored")
           \o Fail(c.A.pos = c.B.pos /\ c.A.mask = c.B.mask, "C09.env.filter_or_detector_not_odd_symmetric")
         [] c.rel = "C10.amp" ->
              Fail(Len(c.A.rows) = Len(c.B.rows), "C10.amp.row_count")
           \o Fail(RowsAgree(ScaledRow), "C10.amp.table")
           \o Fail(InputsSame, "C10.amp.inputs_to_filter_amplitude_or_detector_not_scaled_alike")
           \o Fail(c.A.pos = c.B.pos /\ c.A.mask = c.B.mask, "C10.env.filter_or_detector_not_scale_invariant")
         [] OTHER ->
              Fail(ArgsCovariant(c.A.flen, c.B.flen) /\ ArgsCovariant(c.A.filt, c.B.filt), "C10.fs.filter_arguments_not_in_the_same_units")
           \o Fail(Len(c.A.rows) = Len(c.B.rows), "C10.fs.row_count")
           \o Fail(RowsAgree(SameRow), "C10.fs.table")
           \o Fail(InputsSame, "C10.fs.inputs_to_filter_amplitude_or_detector_differ")
           \o Fail(c.A.pos = c.B.pos /\ c.A.mask = c.B.mask /\ c.A.L = c.B.L, "C10.env.filter_or_detector_depends_on_units")

Judge == /\ stage = "pair"
         /\ fails' = Clauses
         /\ PrintT(<<"VERDICT", tid, fails'>>)
         /\ stage' = "done"
         /\ UNCHANGED tid
Next == Judge
Spec == Init /\ [][Next]_vars
=============================================================================
