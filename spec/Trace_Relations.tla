--------------------------- MODULE Trace_Relations ---------------------------
(***************************************************************************)
(* Trace validation of pairs of recorded runs against the two-run          *)
(* relations of C09 (mirror) and C10 (amplitude / sampling-rate units).    *)
(* Each run of a pair is also validated on its own by Trace_Pipeline.      *)
(***************************************************************************)
EXTENDS Relations, TLC, Json, IOUtils

Cases == JsonDeserialize(IOEnv.TRACE_FILE)
VARIABLES tid, stage, fails
vars == <<tid, stage, fails>>
c == Cases[tid]
Fail(cond, name) == IF cond THEN <<>> ELSE <<name>>
Init == tid \in 1 .. Len(Cases) /\ stage = "pair" /\ fails = <<>>

RowsAgree(P(_, _)) == Len(c.A.rows) = Len(c.B.rows) /\ \A k \in 1 .. Len(c.A.rows) : P(c.A.rows[k], c.B.rows[k])

Clauses ==
  IF c.A.raised # "" \/ c.B.raised # ""
  THEN Fail(c.A.raised # "" /\ c.B.raised # "", c.rel \o ".only_one_run_raised")
  ELSE CASE c.rel = "C09.mirror" ->
              Fail(Len(c.A.rows) = Len(c.B.rows), "C09.mirror.row_count")
           \o Fail(RowsAgree(LAMBDA a, b : SameSamples(a, b)), "C09.mirror.sample_indices")
           \o Fail(RowsAgree(MirrorRow), "C09.mirror.shape_features")
           \o Fail(RowsAgree(MirrorBurst), "C09.mirror.burst_features_or_labels")
           \o Fail(c.A.pos = c.B.pos /\ c.A.mask = c.B.mask, "C09.env.filter_or_detector_not_odd_symmetric")
         [] c.rel = "C10.amp" ->
              Fail(Len(c.A.rows) = Len(c.B.rows), "C10.amp.row_count")
           \o Fail(RowsAgree(ScaledRow), "C10.amp.table")
           \o Fail(c.A.pos = c.B.pos /\ c.A.mask = c.B.mask, "C10.env.filter_or_detector_not_scale_invariant")
         [] OTHER ->
              Fail(Len(c.A.rows) = Len(c.B.rows), "C10.fs.row_count")
           \o Fail(RowsAgree(SameRow), "C10.fs.table")
           \o Fail(c.A.pos = c.B.pos /\ c.A.mask = c.B.mask /\ c.A.L = c.B.L, "C10.env.filter_or_detector_depends_on_units")

Judge == /\ stage = "pair"
         /\ fails' = Clauses
         /\ PrintT(<<"VERDICT", tid, fails'>>)
         /\ stage' = "done"
         /\ UNCHANGED tid
Next == Judge
Spec == Init /\ [][Next]_vars
=============================================================================
