----------------------------- MODULE Trace_Phase -----------------------------
(***************************************************************************)
(* Trace validation of recorded extrema_interpolated_phase calls on the    *)
(* cyclepoints that find_extrema / find_zerox produce for generated        *)
(* signals (any boundary and first_extrema, so extrema may sit on the last *)
(* samples and midpoints may coincide with extrema).                       *)
(***************************************************************************)
EXTENDS Phase, TLC, Json, IOUtils
Cases == JsonDeserialize(IOEnv.TRACE_FILE)
VARIABLES tid, stage, fails
vars == <<tid, stage, fails>>
c == Cases[tid]
Fail(cond, name) == IF cond THEN <<>> ELSE <<name>>
Init == tid \in 1 .. Len(Cases) /\ stage = "call" /\ fails = <<>>

Clauses ==
  IF c.raised # "" THEN <<"C17.raised">>
  ELSE IF Len(c.codes) # c.n THEN <<"C17.length">>
  ELSE LET A == AnchorSet(c.pk, c.tr, c.rs, c.dc) IN
          Fail(CodeAnchors(c.codes, c.K, c.pk, c.tr, c.rs, c.dc), "C17.anchors")
       \o Fail(CodeRange(c.codes, c.K), "C17.range")
       \o Fail(CodeMonotone(c.codes, c.K, c.tr), "C17.monotone")
       \o Fail(CodeSpan(c.codes, MinOf(A), MaxOf(A)), "C17.finite_span")

Judge == /\ stage = "call"
         /\ fails' = Clauses
         /\ PrintT(<<"VERDICT", tid, fails'>>)
         /\ stage' = "done"
         /\ UNCHANGED tid
Next == Judge
Spec == Init /\ [][Next]_vars
=============================================================================
