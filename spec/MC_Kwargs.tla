------------------------------ MODULE MC_Kwargs ------------------------------
(***************************************************************************)
(* C19, exhaustively: TLC enumerates the shape grid and the parameter grid;*)
(* for each point the outcome of every real entry point that takes the     *)
(* setting is looked up (table keyed by a string built from the point) and *)
(* must be "returns" where the documented table accepts and "ValueError"   *)
(* where it rejects.  The ASSUMEs make sure the harness probed exactly the *)
(* parameter points TLC enumerates.                                        *)
(***************************************************************************)
EXTENDS KwargsShape, Json, IOUtils

CONSTANTS MaxExt, UseImpl
File == IF UseImpl THEN JsonDeserialize(IOEnv.IMPL_FILE) ELSE [shape |-> [x |-> 0], param |-> <<>>]
Shape == File.shape        \* record: key -> <<outcome check_kwargs_shape, outcome compute_features_2d/3d>>
Param == File.param        \* sequence of records [kind, name, entry, pos, outcome]

Ext == 1 .. MaxExt
ListShapes == {<<>>, <<0>>} \cup { <<1, a>> : a \in Ext } \cup { <<2, a, b>> : a \in Ext, b \in Ext } \cup { <<3, 1, 1, 1>>, <<3, 2, 2, 2>> }

\* beyond the small extents: arrays with more than 2^8 signals along one axis (identity / 8-bit comparisons of extents stop working there),
\* with the option lists that match, miss by one, or are transposed
BigArrays == {<<2, 257, 0>>, <<2, 300, 0>>, <<3, 257, 1>>, <<3, 1, 300>>}
BigLists(a0, a1) == LET b == Max({a0, a1})  c == Max({a1, 1}) IN
                    {<<>>, <<0>>, <<1, b>>, <<1, b - 1>>, <<1, 1>>, <<2, a0, c>>, <<2, c, a0>>}

VARIABLES mode, ndim, n0, n1, axis, ls, pi, stage, agree
vars == <<mode, ndim, n0, n1, axis, ls, pi, stage, agree>>

Init == /\ stage = "settings" /\ agree = TRUE
        /\ \/ /\ mode = "shape" /\ ndim \in {2, 3} /\ n0 \in Ext /\ n1 \in (IF ndim = 3 THEN Ext ELSE {0}) /\ axis \in Axes /\ ls \in ListShapes /\ pi = 0
           \/ /\ mode = "shape" /\ \E A \in BigArrays : ndim = A[1] /\ n0 = A[2] /\ n1 = A[3] /\ ls \in BigLists(A[2], A[3])
              /\ axis \in Axes /\ pi = 0
           \/ /\ mode = "param" /\ pi \in 1 .. Len(Param) /\ ndim = 0 /\ n0 = 0 /\ n1 = 0 /\ axis = "0" /\ ls = <<>>

LsKey(l) == IF l = <<>> THEN "N" ELSE IF l = <<0>> THEN "D" ELSE FoldLeft(LAMBDA acc, v : acc \o "x" \o ToString(v), ToString(l[1]) \o "d", Tail(l))
Key == ToString(ndim) \o ":" \o ToString(n0) \o ":" \o ToString(n1) \o ":" \o axis \o ":" \o LsKey(ls)

Expect(accept) == IF accept THEN 0 ELSE 1
JudgeShape == /\ stage = "settings" /\ mode = "shape"
              /\ LET ok == ~UseImpl \/ (/\ Key \in DOMAIN Shape
                                        /\ Shape[Key][1] = Expect(AcceptChecker(ndim, n0, n1, axis, ls))
                                        /\ Shape[Key][2] = Expect(AcceptAnalysis(ndim, n0, n1, axis, ls)))
                 IN /\ agree' = ok
                    /\ IF ~ok THEN PrintT(<<"DISAGREE", 0, "shape_axis_list", ndim, n0, n1, axis, ls, <<Expect(AcceptChecker(ndim, n0, n1, axis, ls)), Expect(AcceptAnalysis(ndim, n0, n1, axis, ls))>>,
                                            IF Key \in DOMAIN Shape THEN Shape[Key] ELSE <<-1, -1>>>>) ELSE TRUE
              /\ stage' = "done"
              /\ UNCHANGED <<mode, ndim, n0, n1, axis, ls, pi>>
JudgeParam == /\ stage = "settings" /\ mode = "param"
              /\ LET p == Param[pi]
                     ok == p.outcome = Expect(ValidPos(p.kind, p.pos))
                 IN /\ agree' = ok
                    /\ IF ~ok THEN PrintT(<<"DISAGREE", pi, "parameter", p.kind, p.name, p.entry, p.pos, Expect(ValidPos(p.kind, p.pos)), p.outcome>>) ELSE TRUE
              /\ stage' = "done"
              /\ UNCHANGED <<mode, ndim, n0, n1, axis, ls, pi>>
Next == JudgeShape \/ JudgeParam
Spec == Init /\ [][Next]_vars

\* every probed parameter point is a point of the documented grid, and for every (kind, name, entry) ALL its positions were probed
ASSUME UseImpl => \A i \in 1 .. Len(Param) : Param[i].pos \in Positions(Param[i].kind)
ASSUME UseImpl => \A i \in 1 .. Len(Param) : \A q \in Positions(Param[i].kind) :
                     \E j \in 1 .. Len(Param) : Param[j].kind = Param[i].kind /\ Param[j].name = Param[i].name /\ Param[j].entry = Param[i].entry /\ Param[j].pos = q
\* documented valid combinations exist for every array shape (conversely ... is accepted)
InvSomeValid == mode = "shape" /\ axis = (IF ndim = 2 THEN "None" ELSE "01") => \E l \in ListShapes \cup BigLists(n0, n1) : l # <<>> /\ l # <<0>> /\ AcceptAnalysis(ndim, n0, n1, axis, l)
ImplAgrees == agree
=============================================================================
