------------------------------ MODULE MC_Edges ------------------------------
(***************************************************************************)
(* C16 on every small table: NR cycles with volt_rise, volt_decay, period  *)
(* in 1..2, interior cycles optionally blocked by another criterion, the   *)
(* two consistency thresholds on {1/3, 1/2} (values fall below, on and     *)
(* above them), min_n_cycles in 1..2, both centrings.  Stage machine:      *)
(* features -> Label (old labels) -> Recompute (edit the edges) -> Relabel.*)
(* The real compute_*_consistency / detect_bursts_cycles / recompute_edges *)
(* chain is compared at the end.                                           *)
(***************************************************************************)
EXTENDS Edges, TLC, Json, IOUtils

CONSTANTS NR, PMax, UseImpl
Impl == IF UseImpl THEN JsonDeserialize(IOEnv.IMPL_FILE) ELSE <<>>
ASSUME ImplLoaded == UseImpl => Len(Impl) > 0
ThrList == << <<1, 3>>, <<1, 2>> >>

VARIABLES R, D, P, blk, ti, m, peakC, stage, ac, pc, old, new, agree
vars == <<R, D, P, blk, ti, m, peakC, stage, ac, pc, old, new, agree>>

\* dense mixed-radix index: per cycle (R, D, P) and, for interior cycles only, the blocked flag
Interior(k) == k # 1 /\ k # NR
Base(k)  == 4 * PMax * (IF Interior(k) THEN 2 ELSE 1)
Digit(k) == (((R[k] - 1) * 2 + (D[k] - 1)) * PMax + (P[k] - 1)) * (IF Interior(k) THEN 2 ELSE 1) + (IF blk[k] THEN 1 ELSE 0)
Index == ((FoldLeft(LAMBDA acc, k : acc * Base(NR + 1 - k) + Digit(NR + 1 - k), 0, [k \in 1 .. NR |-> k]) * 2 + (ti - 1)) * 2 + (m - 1)) * 2 + (IF peakC THEN 1 ELSE 0)

Init == /\ R \in [1 .. NR -> 1 .. 2] /\ D \in [1 .. NR -> 1 .. 2] /\ P \in [1 .. NR -> 1 .. PMax]
        /\ blk \in { b \in [1 .. NR -> BOOLEAN] : ~b[1] /\ ~b[NR] }
        /\ ti \in 1 .. 2 /\ m \in 1 .. 2 /\ peakC \in BOOLEAN
        /\ stage = "shape" /\ ac = <<>> /\ pc = <<>> /\ old = <<>> /\ new = <<>> /\ agree = TRUE

T == ThrList[ti]
Qual(a, p, i) == i # 1 /\ i # NR /\ ~blk[i] /\ ~IsNaN(a[i]) /\ ~IsNaN(p[i]) /\ RatLt(T, a[i]) /\ RatLt(T, p[i])
LabelsOf(a, p) == MinRunFold([i \in 1 .. NR |-> Qual(a, p, i)], m)

Features == /\ stage = "shape"
            /\ ac' = [i \in 1 .. NR |-> AmpConsistency(R, D, i, "both", peakC)]
            /\ pc' = [i \in 1 .. NR |-> PeriodConsistency(P, i, "both")]
            /\ stage' = "burstfeat"
            /\ UNCHANGED <<R, D, P, blk, ti, m, peakC, old, new, agree>>
Label == /\ stage = "burstfeat"
         /\ old' = LabelsOf(ac, pc)
         /\ stage' = "labelled"
         /\ UNCHANGED <<R, D, P, blk, ti, m, peakC, ac, pc, new, agree>>
Recompute == /\ stage = "labelled"
             /\ ac' = EditedAmp(R, D, old, peakC, ac)
             /\ pc' = EditedPer(P, old, pc)
             /\ stage' = "edited"
             /\ UNCHANGED <<R, D, P, blk, ti, m, peakC, old, new, agree>>
Relabel == /\ stage = "edited"
           /\ new' = LabelsOf(ac, pc)
           /\ stage' = "relabelled"
           /\ UNCHANGED <<R, D, P, blk, ti, m, peakC, ac, pc, old, agree>>

\* flat table, K = 1 + 6*NR integers per input: ok, old labels mask, new labels mask, then (p, q) of the edited amp / period consistency
K == 3 + 4 * NR
EI(j) == Impl[Index * K + j]
ImplAmp(i) == <<EI(3 + 2 * i - 1), EI(3 + 2 * i)>>
ImplPer(i) == <<EI(3 + 2 * NR + 2 * i - 1), EI(3 + 2 * NR + 2 * i)>>
Judge == /\ stage = "relabelled"
         /\ LET twoSidedA == [i \in 1 .. NR |-> AmpConsistency(R, D, i, "both", peakC)]
                twoSidedP == [i \in 1 .. NR |-> PeriodConsistency(P, i, "both")]
                ok == ~UseImpl \/
                      (/\ EI(1) = 1 /\ EI(2) = BitMask(old)
                       /\ \A i \in 1 .. NR : IF IsEdge(old, i)
                                               THEN ImplAmp(i) \in AllowedAmp(R, D, old, peakC, i) /\ ImplPer(i) \in AllowedPer(P, old, i)
                                               ELSE ImplAmp(i) = twoSidedA[i] /\ ImplPer(i) = twoSidedP[i]
                       /\ EI(3) = BitMask(LabelsOf([i \in 1 .. NR |-> ImplAmp(i)], [i \in 1 .. NR |-> ImplPer(i)])))
            IN /\ agree' = ok
               /\ IF ~ok THEN PrintT(<<"DISAGREE", Index, "recompute_edges", R, D, P, blk, T, m, peakC, BitMask(old), ac, pc, BitMask(new), [j \in 1 .. K |-> EI(j)]>>) ELSE TRUE
         /\ stage' = "done"
         /\ UNCHANGED <<R, D, P, blk, ti, m, peakC, ac, pc, old, new>>
Next == Features \/ Label \/ Recompute \/ Relabel \/ Judge
Spec == Init /\ [][Next]_vars

Done == stage \in {"relabelled", "done"}
InvGrow == Done => Grows(old, new)
\* lowering the consistency thresholds as well still only adds labels
InvOnlyEdges == stage \in {"edited", "relabelled", "done"} =>
                  \A i \in 1 .. NR : ~IsEdge(old, i) => ac[i] = AmpConsistency(R, D, i, "both", peakC) /\ pc[i] = PeriodConsistency(P, i, "both")
\* a one-sided value is never smaller than the two-sided one (that is why bursts can only grow)
InvOneSidedLarger == stage \in {"edited", "relabelled", "done"} =>
                  \A i \in 2 .. (NR - 1) : LET b == AmpConsistency(R, D, i, "both", peakC) IN IsNaN(b) \/ IsNaN(ac[i]) \/ RatLe(b, ac[i])
ImplAgrees == agree
=============================================================================
