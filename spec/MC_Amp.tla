-------------------------------- MODULE MC_Amp --------------------------------
(***************************************************************************)
(* C07 on every sample mask over NS samples x every tiling of the samples  *)
(* into cycles (side extrema = a subset of >= 2 indices) x thresholds x    *)
(* minimum run.  burst_fraction is compared as an exact rational with the  *)
(* real compute_burst_fraction (sample-wise detector stubbed to return     *)
(* TLC's mask); the labels with the real detect_bursts_amp.                *)
(***************************************************************************)
EXTENDS Detect, TLC, Json, IOUtils

CONSTANTS NS, MaxM, UseImpl
File == IF UseImpl THEN JsonDeserialize(IOEnv.IMPL_FILE) ELSE [frac |-> <<>>, lab |-> <<>>]
Impl == File.lab       \* one integer per input: bit mask of the labels (negative: raised)
Frac == File.frac      \* NS integers per (mask, sides): ok, then p*16+q for each cycle's burst fraction, padded with -1
\* evaluated once, single-threaded, before the workers start (TLC caches the value of a constant definition)
ASSUME ImplLoaded == UseImpl => Len(Impl) > 0
ThrList == << <<0, 1>>, <<1, 3>>, <<1, 2>>, <<1, 1>> >>           \* burst_fraction_threshold in {0, 1/3, 1/2, 1}

VARIABLES mask, sides, ti, m, stage, frac, labels, agree
vars == <<mask, sides, ti, m, stage, frac, labels, agree>>

Index == ((BitMask(mask) * Pow2(NS) + SetMask(sides)) * Len(ThrList) + (ti - 1)) * (MaxM + 1) + m
Init == /\ mask \in [1 .. NS -> BOOLEAN]
        /\ sides \in { S \in SUBSET (0 .. (NS - 1)) : Cardinality(S) >= 2 }
        /\ ti \in 1 .. Len(ThrList) /\ m \in 0 .. MaxM
        /\ stage = "shape" /\ frac = <<>> /\ labels = <<>> /\ agree = TRUE

SideSeq == SortedSeq(sides)
RowsOf  == [k \in 1 .. (Len(SideSeq) - 1) |-> [last |-> SideSeq[k], next |-> SideSeq[k + 1]]]

ComputeFraction == /\ stage = "shape"
                   /\ frac' = [k \in 1 .. Len(RowsOf) |-> BurstFraction(mask, RowsOf[k])]
                   /\ stage' = "burstfeat"
                   /\ UNCHANGED <<mask, sides, ti, m, labels, agree>>
AtLeastRat(f, t) == RatLe(t, f)
DetectStep == /\ stage = "burstfeat"
              /\ labels' = MinRunFold([k \in 1 .. Len(frac) |-> AtLeastRat(frac[k], ThrList[ti])], m)
              /\ stage' = "labelled"
              /\ UNCHANGED <<mask, sides, ti, m, frac, agree>>
E == Impl[Index + 1]
FI(j) == Frac[(BitMask(mask) * Pow2(NS) + SetMask(sides)) * NS + j]
FracAgrees == FI(1) = 1 /\ \A k \in 1 .. (NS - 1) : FI(k + 1) = (IF k <= Len(frac) THEN frac[k][1] * 16 + frac[k][2] ELSE -1)
Judge == /\ stage = "labelled"
         /\ LET ok == ~UseImpl \/ (FracAgrees /\ E = BitMask(labels)) IN
              /\ agree' = ok
              /\ IF ~ok THEN PrintT(<<"DISAGREE", Index, "burst_fraction/detect_bursts_amp", mask, SideSeq, ThrList[ti], m, frac, BitMask(labels), <<E, [j \in 1 .. NS |-> FI(j)]>>>>) ELSE TRUE
         /\ stage' = "done"
         /\ UNCHANGED <<mask, sides, ti, m, frac, labels>>
Next == ComputeFraction \/ DetectStep \/ Judge
Spec == Init /\ [][Next]_vars

Done == stage \in {"labelled", "done"}
InvUnit     == stage # "shape" => \A k \in 1 .. Len(frac) : RatLe(Zero, frac[k]) /\ RatLe(frac[k], One)
InvInclusive == stage # "shape" => \A k \in 1 .. Len(frac) :
                   frac[k] = One <=> \A i \in RowsOf[k].last .. RowsOf[k].next : At(mask, i)
Sub(a, b) == \A i \in 1 .. Len(a) : a[i] => b[i]
InvMonotone == Done => /\ (ti < Len(ThrList) => Sub(MinRunFold([k \in 1 .. Len(frac) |-> AtLeastRat(frac[k], ThrList[ti + 1])], m), labels))
                       /\ Sub(MinRunFold([k \in 1 .. Len(frac) |-> AtLeastRat(frac[k], ThrList[ti])], m + 1), labels)
ImplAgrees == agree
=============================================================================
