----------------------------- MODULE Trace_Edges -----------------------------
(***************************************************************************)
(* Trace validation of recorded recompute_edges / Bycycle.recompute_edges  *)
(* calls on consistency-labelled tables of generated signals (C16).        *)
(***************************************************************************)
EXTENDS Edges, TLC, Json, IOUtils
Cases == JsonDeserialize(IOEnv.TRACE_FILE)
VARIABLES tid, stage, fails
vars == <<tid, stage, fails>>
c == Cases[tid]
Fail(cond, name) == IF cond THEN <<>> ELSE <<name>>
Init == tid \in 1 .. Len(Cases) /\ stage = "call" /\ fails = <<>>

n == Len(c.inp)
InLab  == [i \in 1 .. n |-> c.inp[i].lab]
OutLab == [i \in 1 .. Len(c.out) |-> c.out[i].lab]
Codes  == [i \in 1 .. Len(c.out) |-> [amp_fraction |-> c.out[i].codes[1], amp_consistency |-> c.out[i].codes[2],
                                      period_consistency |-> c.out[i].codes[3], monotonicity |-> c.out[i].codes[4]]]
Thr    == [amp_fraction |-> c.thr[1], amp_consistency |-> c.thr[2], period_consistency |-> c.thr[3], monotonicity |-> c.thr[4]]

Clauses ==
  IF c.raised # "" THEN <<"C16.raised">>
  ELSE IF Len(c.out) # n THEN <<"C16.row_count">>
  ELSE LET R == Strict([i \in 1 .. n |-> c.inp[i].R])
           D == Strict([i \in 1 .. n |-> c.inp[i].D])
           P == Strict([i \in 1 .. n |-> c.inp[i].P])
           lab == Strict(InLab)
       IN
          Fail(c.pre = c.post, "C16.input_table_modified")
       \o Fail(\A i \in 1 .. n : c.out[i].fp = c.inp[i].fp, "C16.other_columns_changed")
       \o Fail(\A i \in 1 .. n : ~IsEdge(lab, i) => c.out[i].ac_l = c.inp[i].ac_l /\ c.out[i].pc_l = c.inp[i].pc_l, "C16.non_edge_cycle_changed")
       \o Fail(\A i \in 1 .. n : IsEdge(lab, i) => c.out[i].ac \in AllowedAmp(R, D, lab, c.peakC, i), "C16.edge_amp_consistency")
       \o Fail(\A i \in 1 .. n : IsEdge(lab, i) => c.out[i].pc \in AllowedPer(P, lab, i), "C16.edge_period_consistency")
       \o Fail(OutLab = DetectCycles(Codes, Thr, c.m), "C16.labels_not_rule_on_edited_table")
       \o (IF c.same_thr THEN Fail(Grows(lab, OutLab), "C16.bursts_do_not_only_grow") ELSE <<>>)
       \o (IF c.lowered THEN Fail(Sub(lab, OutLab), "C16.lowered_thresholds_lost_a_burst") ELSE <<>>)

Judge == /\ stage = "call"
         /\ fails' = Clauses
         /\ PrintT(<<"VERDICT", tid, fails'>>)
         /\ stage' = "done"
         /\ UNCHANGED tid
Next == Judge
Spec == Init /\ [][Next]_vars
=============================================================================
