--------------------------- MODULE Trace_Pipeline ---------------------------
(***************************************************************************)
(* Trace validation of recorded compute_features / Bycycle.fit executions  *)
(* (C01 - C07).  One case = one public call with the events observed at    *)
(* the neurodsp boundary (filter length, filter, amplitude, dual-threshold *)
(* detector), at the internal stage functions (find_extrema, find_zerox)   *)
(* and the returned table (or the raised exception).                       *)
(*                                                                         *)
(* The state machine has one action per pipeline stage.  Each action       *)
(* recomputes what the specification allows from the PRE-state, compares   *)
(* with what was logged, records the name of every failing clause, and     *)
(* then adopts the logged value (when one exists) so that later stages are *)
(* judged on their own.  Verdicts are total: every case reaches "done".    *)
(***************************************************************************)
EXTENDS Cyclepoints, Shape, BurstFeat, Detect, TLC, Json, IOUtils

Cases == JsonDeserialize(IOEnv.TRACE_FILE)

VARIABLES tid, stage, ext, zx, rows, fails
vars == <<tid, stage, ext, zx, rows, fails>>

c      == Cases[tid]
peakC  == c.center = "peak"
sa     == IF peakC THEN c.sig ELSE NegSeq(c.sig)          \* the signal the peak-first analysis runs on
padlen == IF c.pad THEN (c.flen.L + 1) \div 2 ELSE 0      \* ceil(filter length / 2)
Three  == <<3, 1>>
Fail(cond, name) == IF cond THEN <<>> ELSE <<name>>
Raised == c.raised # ""

Init == tid \in 1 .. Len(Cases) /\ stage = "call" /\ ext = <<<<>>, <<>>>> /\ zx = <<<<>>, <<>>>> /\ rows = <<>> /\ fails = <<>>

Call == /\ stage = "call"
        /\ fails' = Fail(c.sig_untouched, "C15.signal_mutated")
        /\ stage' = "filter"
        /\ UNCHANGED <<tid, ext, zx, rows>>

\* ---- environment step: the narrowband filter.  Its OUTPUT is taken as given; its ARGUMENTS are checked. ----
FilterClauses ==
     Fail(c.filt.fs = c.call.fs /\ c.filt.flo = c.call.flo /\ c.filt.fhi = c.call.fhi, "C02.filter_args.fs_band")
  \o Fail(c.filt.pass_type = c.call.pass_type /\ c.filt.remove_edges = FALSE /\ c.filt.extra = <<>> /\ c.filt.nargs = 0, "C02.filter_args.pass_type_edges")
  \o Fail(c.filt.ncyc = c.call.ncyc /\ c.filt.nsec = c.call.nsec, "C02.filter_args.length")
  \o (IF c.pad THEN Fail(/\ c.flen.seen /\ c.flen.fs = c.call.fs /\ c.flen.flo = c.call.flo /\ c.flen.fhi = c.call.fhi
                         /\ c.flen.pass_type = c.call.pass_type /\ c.flen.nsec = c.call.nsec
                         /\ c.flen.ncyc = (IF c.call.nsec = NaN /\ c.call.ncyc = NaN THEN Three ELSE c.call.ncyc),
                         "C02.pad_length_args") ELSE <<>>)
  \o Fail(c.filt.input = PadSeq(sa, padlen), "C02.filter_input")
  \o Fail(Len(c.filt.pos) = Len(c.filt.input) /\ ~c.filt.nan, "C02.filter_output_shape")

Filter == /\ stage = "filter"
          /\ IF ~c.filt.seen
               THEN /\ fails' = fails \o (IF Raised THEN <<"C01.totality.raised_before_filtering">>
                                      ELSE <<"C02.filter_never_called">> \o (IF c.has_table /\ Len(c.rows) > 0   \* rows that no analysis of THIS call produced
                                                                              THEN <<"C01.table_returned_without_analysing_the_signal">> ELSE <<>>))
                    /\ stage' = IF ~Raised /\ c.has_table /\ Len(c.rows) > 0 THEN "orphan" ELSE "finish"
               ELSE /\ fails' = fails \o FilterClauses
                    /\ stage' = IF Len(c.filt.pos) = c.n + 2 * padlen THEN "extrema" ELSE "finish"
          /\ UNCHANGED <<tid, ext, zx, rows>>

\* the property's precondition, evaluated on the recorded sign pattern: at least three full cycles inside the boundary
PrecondOf(def, se) == def /\ Len(se[1]) >= 4

FindExtrema ==
  /\ stage = "extrema"
  /\ LET sp   == PadSeq(sa, padlen)
         posv == c.filt.pos
         def  == ExtremaDefined(sp, posv, padlen, c.n, c.B, "peak")
         se   == Extrema(sp, posv, padlen, c.n, c.B, "peak")
         lg   == <<c.ext.pk, c.ext.tr>>
     IN
     IF ~def
       THEN /\ fails' = fails \o (IF ~Raised /\ c.has_table /\ Len(c.rows) > 0 THEN <<"C02.table_without_crossings">> ELSE <<>>)
            /\ ext' = ext /\ stage' = "finish"
       ELSE /\ fails' = fails \o (IF c.ext.seen THEN Fail(lg = se, "C02.extrema") ELSE <<>>)
                              \o (IF Raised /\ PrecondOf(def, se) THEN <<"C01.totality.raised">> ELSE <<>>)
            /\ ext' = IF c.ext.seen THEN lg ELSE se
            /\ stage' = IF Raised \/ ~PrecondOf(def, se) THEN "finish" ELSE "zerox"
  /\ UNCHANGED <<tid, zx, rows>>

FindZerox ==
  /\ stage = "zerox"
  /\ IF ~(/\ \A k \in 1 .. Len(ext[1]) : ext[1][k] \in 0 .. (c.n - 1)
          /\ \A k \in 1 .. Len(ext[2]) : ext[2][k] \in 0 .. (c.n - 1)
          /\ ZeroxDefined(ext[1], ext[2]) /\ Alternating(ext[1], ext[2]) /\ Len(ext[1]) = Len(ext[2]) /\ Len(ext[1]) >= 2 /\ ext[1][1] < ext[2][1])
       THEN fails' = fails \o <<"C01.extrema_not_alternating_peak_first">> /\ zx' = zx /\ stage' = "finish"
       ELSE LET sav == sa
                sz == Zerox(sav, ext[1], ext[2])
                lg == <<c.zx.rs, c.zx.dc>> IN
            /\ fails' = fails \o (IF c.zx.seen THEN Fail(lg = sz, "C03.midpoints") ELSE <<>>)
            /\ zx' = IF c.zx.seen /\ Len(lg[1]) = Len(sz[1]) /\ Len(lg[2]) = Len(sz[2]) THEN lg ELSE sz
            /\ stage' = "rows"
  /\ UNCHANGED <<tid, ext, rows>>

Indexable(t) == \A k \in 1 .. Len(t) : \A f \in {"lastzx", "last", "zx1", "centre", "zx2", "next"} : t[k][f] \in 0 .. (c.n - 1)
RowOf(r) == [last |-> r.last, lastzx |-> r.lastzx, zx1 |-> r.zx1, centre |-> r.centre, zx2 |-> r.zx2, next |-> r.next]
Assemble ==
  /\ stage = "rows"
  /\ LET sr == Rows(ext[1], ext[2], zx[1], zx[2])
         lg == Strict([k \in 1 .. Len(c.rows) |-> RowOf(c.rows[k])]) IN
     IF ~c.has_table
       THEN fails' = fails \o <<"C01.no_table_returned">> /\ rows' = sr /\ stage' = "finish"
       ELSE /\ fails' = fails \o Fail(c.cols = c.exp_cols, "C01.columns")
                              \o Fail(Len(c.rows) = Len(sr), "C01.one_row_per_cycle")
                              \o (IF c.has_samples THEN Fail(lg = sr, "C01.rows") \o Fail(TableWF(lg, c.n, c.B), "C01.wellformed") ELSE <<>>)
                              \o Fail(c.rs = c.has_samples, "C01.return_samples")
            /\ rows' = IF c.has_samples /\ Len(lg) = Len(sr) /\ Indexable(lg) THEN lg ELSE sr      \* adopt the logged rows only when they can be indexed
            /\ stage' = IF Len(c.rows) = Len(sr) THEN "shape" ELSE "finish"
  /\ UNCHANGED <<tid, ext, zx>>

\* ---- named deviation: a table came back although the signal was never filtered in this call (a cache, an early return).  Whatever produced
\* it, it must still be the analysis table of THIS signal: when it carries its cyclepoints, its shape columns, burst features and labels are
\* judged against them like those of any other table.
Orphan == /\ stage = "orphan"
          /\ LET lg == Strict([k \in 1 .. Len(c.rows) |-> RowOf(c.rows[k])]) IN
             IF c.has_samples /\ Indexable(lg) THEN rows' = lg /\ stage' = "shape" ELSE rows' = rows /\ stage' = "finish"
          /\ UNCHANGED <<tid, ext, zx, fails>>

\* ---- C04 ----
IntFields == <<"period", "time_peak", "time_trough", "time_decay", "time_rise", "volt_peak", "volt_trough", "volt_decay", "volt_rise", "volt_amp2", "time_rdsym", "time_ptsym">>
ShapeClauses ==
  LET ampv == IF Len(c.amp.vals) = c.n THEN c.amp.vals ELSE Strict([i \in 1 .. c.n |-> 0])      \* total: no amplitude logged (never asked for) -> band_amp is not judged
      f == Strict([k \in 1 .. Len(rows) |-> ShapeOf(c.sig, ampv, rows[k], peakC)])
      bad(name) == \E k \in 1 .. Len(rows) : c.rows[k][name] # f[k][name]
      ampOK == /\ c.amp.seen /\ c.amp.fs = c.call.fs /\ c.amp.flo = c.call.flo /\ c.amp.fhi = c.call.fhi
               /\ c.amp.remove_edges = FALSE /\ c.amp.ncyc = Three /\ c.amp.extra = <<>> /\ c.amp.nargs = 0
               /\ (c.amp.input = c.sig \/ c.amp.input = NegSeq(c.sig)) /\ Len(c.amp.vals) = c.n
  IN  FoldLeft(LAMBDA acc, name : acc \o (IF bad(name) THEN <<"C04." \o name>> ELSE <<>>), <<>>, IntFields)
   \o Fail(ampOK, "C04.amp_args")
   \o (IF ampOK THEN Fail(\A k \in 1 .. Len(rows) : c.rows[k].band_amp = f[k].band_amp, "C04.band_amp") ELSE <<>>)
   \o Fail(\A k \in 1 .. Len(rows) : ShapeWF(f[k]), "C04.ranges")

ComputeShape == /\ stage = "shape"
                /\ fails' = fails \o ShapeClauses
                /\ stage' = "burst"
                /\ UNCHANGED <<tid, ext, zx, rows>>

\* ---- C05 / C07: burst features from the table's OWN shape columns ----
R  == Strict([k \in 1 .. Len(c.rows) |-> c.rows[k].volt_rise])
D  == Strict([k \in 1 .. Len(c.rows) |-> c.rows[k].volt_decay])
P  == Strict([k \in 1 .. Len(c.rows) |-> c.rows[k].period])
A2 == Strict([k \in 1 .. Len(c.rows) |-> c.rows[k].volt_amp2])
EffM == EffMinCycles(c.call.mnc_bk, c.call.mnc_tk)
\* total verdicts: a flank voltage is a difference of two samples and cannot exceed the range of the signal.  A table that says otherwise (an edited,
\* stale or foreign table) is reported as such, and no arithmetic is done on its voltages (TLC's integers are 32-bit).
SigRange == LET hi == FoldLeft(LAMBDA a, x : IF x > a THEN x ELSE a, c.sig[1], c.sig)
                lo == FoldLeft(LAMBDA a, x : IF x < a THEN x ELSE a, c.sig[1], c.sig) IN hi - lo
VoltInRange == c.n = 0 \/ \A k \in 1 .. Len(c.rows) : /\ Abs(c.rows[k].volt_rise) <= SigRange /\ Abs(c.rows[k].volt_decay) <= SigRange
                                                       /\ Abs(c.rows[k].volt_amp2) <= 2 * SigRange
BurstClauses ==
  IF ~VoltInRange THEN <<"C04.flank_voltage_exceeds_the_range_of_the_signal">> ELSE
  IF c.method = "cycles"
  THEN Fail(\A k \in 1 .. Len(rows) : c.rows[k].amp_fraction = AmpFraction(A2, k), "C05.amp_fraction")
    \o Fail(\A k \in 1 .. Len(rows) : c.rows[k].amp_consistency = AmpConsistency(R, D, k, "both", peakC), "C05.amp_consistency")
    \o Fail(\A k \in 1 .. Len(rows) : c.rows[k].period_consistency = PeriodConsistency(P, k, "both"), "C05.period_consistency")
    \o Fail(\A k \in 1 .. Len(rows) : c.rows[k].monotonicity = Monotonicity(c.sig, rows[k], peakC), "C05.monotonicity")
    \o Fail(\A k \in 1 .. Len(rows) : (R[k] > 0 /\ D[k] > 0 /\ (k > 1 => R[k-1] > 0 /\ D[k-1] > 0) /\ (k < Len(rows) => R[k+1] > 0 /\ D[k+1] > 0)) =>
               InUnit(c.rows[k].amp_fraction) /\ InUnit(c.rows[k].amp_consistency) /\ InUnit(c.rows[k].period_consistency) /\ InUnit(c.rows[k].monotonicity), "C05.unit_range")
    \o Fail(~c.dt.seen, "C06.detector_called_for_cycles")
  ELSE LET dtOK == /\ c.dt.seen /\ c.dt.fs = c.call.fs /\ c.dt.flo = c.call.flo /\ c.dt.fhi = c.call.fhi
                   /\ c.dt.thr_lo = c.call.thr_lo /\ c.dt.thr_hi = c.call.thr_hi /\ c.dt.mbd = c.call.mbd
                   /\ c.dt.ncyc = c.call.dt_ncyc /\ c.dt.extra = <<>> /\ c.dt.nargs = 0
                   /\ c.dt.input = c.sig /\ Len(c.dt.mask) = c.n
           mncOK == c.dt.mnc = (IF c.call.mbd # NaN THEN -1 ELSE EffM)
       IN  Fail(dtOK, "C07.detector_args")
        \o Fail(~c.dt.seen \/ mncOK, "C07.detector_min_n_cycles")
        \o (IF dtOK THEN Fail(\A k \in 1 .. Len(rows) : c.rows[k].burst_fraction = BurstFraction(c.dt.mask, rows[k]), "C07.burst_fraction") ELSE <<>>)

ComputeBurstFeat == /\ stage = "burst"
                    /\ fails' = fails \o BurstClauses
                    /\ stage' = "detect"
                    /\ UNCHANGED <<tid, ext, zx, rows>>

\* ---- C06 / C07: labels from rank codes of the table's own values ----
Codes == [k \in 1 .. Len(c.rows) |-> [amp_fraction |-> c.rows[k].amp_fraction_code, amp_consistency |-> c.rows[k].amp_consistency_code,
                                       period_consistency |-> c.rows[k].period_consistency_code, monotonicity |-> c.rows[k].monotonicity_code]]
Labels == [k \in 1 .. Len(c.rows) |-> c.rows[k].is_burst]
DetectClauses ==
  IF c.method = "cycles"
  THEN Fail(Labels = DetectCycles(Codes, c.thr, IF c.call.mnc_tk # -1 THEN c.call.mnc_tk ELSE 3), "C06.labels")
  ELSE Fail(Labels = DetectAmp([k \in 1 .. Len(c.rows) |-> c.rows[k].burst_fraction_code], c.thr.burst_fraction, EffM), "C07.labels")
    \* ... and on the EXACT fractions of the logged detector mask (a fraction that equals the threshold qualifies, whatever the rounding
    \* of the implementation's own quotient), when mask and threshold were logged exactly
    \o (IF c.dt.seen /\ Len(c.dt.mask) = c.n /\ "bft" \in DOMAIN c.call /\ c.call.bft[2] > 0 /\ Indexable(rows) /\ Len(rows) = Len(c.rows)
        THEN Fail(Labels = DetectAmpExact([k \in 1 .. Len(rows) |-> BurstFraction(c.dt.mask, rows[k])], c.call.bft, EffM), "C07.labels_not_the_rule_on_the_exact_fractions")
        ELSE <<>>)

DetectBursts == /\ stage = "detect"
                /\ fails' = fails \o DetectClauses
                /\ stage' = "finish"
                /\ UNCHANGED <<tid, ext, zx, rows>>

Finish == /\ stage = "finish"
          /\ PrintT(<<"VERDICT", tid, fails>>)
          /\ stage' = "done"
          /\ UNCHANGED <<tid, ext, zx, rows, fails>>

Next == Call \/ Filter \/ Orphan \/ FindExtrema \/ FindZerox \/ Assemble \/ ComputeShape \/ ComputeBurstFeat \/ DetectBursts \/ Finish
Spec == Init /\ [][Next]_vars
=============================================================================
