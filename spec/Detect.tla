-------------------------------- MODULE Detect --------------------------------
(***************************************************************************)
(* Burst labelling (C06, C07, C16).  Threshold decisions are taken on      *)
(* order-isomorphic rank codes of the implementation's own floats:         *)
(* code -1 is NaN (never above, never at-or-above anything).               *)
(***************************************************************************)
EXTENDS RunFilter

Feat4 == <<"amp_fraction", "amp_consistency", "period_consistency", "monotonicity">>
Above(code, thr)   == code # -1 /\ code > thr
AtLeast(code, thr) == code # -1 /\ code >= thr

\* codes: sequence over cycles of records of rank codes; thr: record of threshold codes
QualifiesCycles(codes, thr, i) ==
  /\ i # 1 /\ i # Len(codes)
  /\ \A k \in 1 .. 4 : Above(codes[i][Feat4[k]], thr[Feat4[k]])
DetectCycles(codes, thr, m) == IF Len(codes) = 0 THEN <<>>
                               ELSE MinRunFold([i \in 1 .. Len(codes) |-> QualifiesCycles(codes, thr, i)], m)

DetectAmp(fracCodes, thrCode, m) == IF Len(fracCodes) = 0 THEN <<>>
                                    ELSE MinRunFold([i \in 1 .. Len(fracCodes) |-> AtLeast(fracCodes[i], thrCode)], m)

\* the same rule on EXACT fractions <<numerator, denominator>> and an exact threshold: a cycle whose fraction equals the threshold qualifies
DetectAmpExact(fracs, thr, m) == IF Len(fracs) = 0 THEN <<>>
                                  ELSE MinRunFold([i \in 1 .. Len(fracs) |-> ~IsNaN(fracs[i]) /\ RatLe(thr, fracs[i])], m)

\* fraction of the cycle's samples, last..next INCLUSIVE, that the sample-wise detector marks
BurstFraction(mask, r) == Rat(Cardinality({ i \in r.last .. r.next : At(mask, i) }), r.next - r.last + 1)

\* one and the same minimum-cycle count: burst options' value if given, else the thresholds' value, else 3 (-1 = absent)
EffMinCycles(bk, tk) == IF bk # -1 THEN bk ELSE IF tk # -1 THEN tk ELSE 3

\* cycles just outside a burst (labels lab): before a burst start / after a burst end
EdgeBefore(lab) == { i \in 1 .. (Len(lab) - 1) : ~lab[i] /\ lab[i + 1] }
EdgeAfter(lab)  == { i + 1 : i \in { i \in 1 .. (Len(lab) - 1) : lab[i] /\ ~lab[i + 1] } }
=============================================================================
