-------------------------------- MODULE Tables --------------------------------
(***************************************************************************)
(* Cycle tables as sequences of rows and the table / signal utilities      *)
(* (C13, C18).  A projected row is a record                                *)
(*    id : identity of the cycle (its position in the source table),       *)
(*    s  : its six sample indices <<lastzx, last, zx1, centre, zx2, next>>,*)
(*    fp : a fingerprint of all its non-sample feature values.             *)
(* Window limits are in HALF-sample units (a2 = 2*start*fs), so limits     *)
(* between two samples are representable; None == -1.                      *)
(***************************************************************************)
EXTENDS Seqs

None == -1
LastOf(r) == r.s[2]
NextOf(r) == r.s[6]
Shift(r, d) == [r EXCEPT !.s = [k \in 1 .. 6 |-> r.s[k] - d]]
ShiftAll(t, d) == Strict([k \in 1 .. Len(t) |-> Shift(t[k], d)])

\* ---- C13: epoching.  Epoch e (1-based) of length L owns the cycles whose CLOSING side extremum lies in ((e-1)L, eL] ----
NEpochs(sigLen, L) == (sigLen + L - 1) \div L
EpochRows(t, L, e) == SelectSeq(t, LAMBDA r : (e - 1) * L < NextOf(r) /\ NextOf(r) <= e * L)
Epoch(t, L, e)     == ShiftAll(EpochRows(t, L, e), (e - 1) * L)
Epochs(t, sigLen, L) == [e \in 1 .. NEpochs(sigLen, L) |-> Epoch(t, L, e)]
\* every cycle in exactly one epoch, original order, un-shifting gives the table back
Concat(ss) == FoldLeft(LAMBDA acc, x : acc \o x, <<>>, ss)
Partition(t, sigLen, L) == Concat([e \in 1 .. NEpochs(sigLen, L) |-> ShiftAll(Epoch(t, L, e), -((e - 1) * L))]) = t

\* ---- C18: limit_df.  Bounds on the result, not one answer ----
Inside(t, a2, b2)     == SelectSeq(t, LAMBDA r : 2 * LastOf(r) >= a2 /\ (b2 = None \/ 2 * NextOf(r) <= b2))
NotOutside(t, a2, b2) == SelectSeq(t, LAMBDA r : ~(2 * NextOf(r) < a2) /\ ~(b2 # None /\ 2 * LastOf(r) > b2))
Ids(t) == [k \in 1 .. Len(t) |-> t[k].id]
IsSubSeq(a, b) == \* a is a (not necessarily contiguous) subsequence of b; ids are distinct, so compare by id order
  /\ \A k \in 1 .. Len(a) : \E j \in 1 .. Len(b) : b[j] = a[k]
  /\ \A k \in 1 .. (Len(a) - 1) : (CHOOSE j \in 1 .. Len(b) : b[j] = a[k]) < (CHOOSE j \in 1 .. Len(b) : b[j] = a[k + 1])
RowById(t, i) == t[CHOOSE k \in 1 .. Len(t) : t[k].id = i]
LimitOK(t, a2, b2, reset, out) ==
  LET a == IF a2 = None THEN 0 ELSE a2 IN
  /\ IsSubSeq(Ids(Inside(t, a, b2)), Ids(out))
  /\ IsSubSeq(Ids(out), Ids(NotOutside(t, a, b2)))
  /\ \A k \in 1 .. Len(out) : out[k].fp = RowById(t, out[k].id).fp
  /\ IF reset THEN \E d \in {a \div 2, (a + 1) \div 2} : \A k \in 1 .. Len(out) : out[k].s = Shift(RowById(t, out[k].id), d).s
              ELSE \A k \in 1 .. Len(out) : out[k].s = RowById(t, out[k].id).s
\* what the current code returns (used by the model's own invariants): exactly the cycles entirely inside
Limit(t, a2, b2, reset) == LET a == IF a2 = None THEN 0 ELSE a2 IN
                           IF reset THEN ShiftAll(Inside(t, a, b2), a \div 2) ELSE Inside(t, a, b2)

\* limit_signal: numpy indices of the samples with start <= t < stop, t = i / fs, in half-sample units
LimitSignalIdx(n, a2, b2) == { i \in 0 .. (n - 1) : (a2 = None \/ 2 * i >= a2) /\ (b2 = None \/ 2 * i < b2) }

\* flatten_dfs: concatenation in order, each row carrying the label of its table
Flatten(tables, labels) == Concat([k \in 1 .. Len(tables) |-> [j \in 1 .. Len(tables[k]) |-> [row |-> tables[k][j], label |-> labels[k]]]])
\* ---- rename_extrema_df (C04, C09): what turns the peak-centred analysis of the NEGATED signal into the trough-centred table ----
\* a column is [name, fp, fpneg, fpone]: fingerprints of its values v, of -v and of 1 - v.  Centre "peak": nothing changes.  Centre "trough":
\* peak/trough and rise/decay swap names, the two extremum voltages change sign, the two symmetry fractions become one minus themselves,
\* and the sample columns are renamed exactly when return_samples is set.  Order and number of columns are kept.
FeatRename(n) == CASE n = "time_peak" -> "time_trough" [] n = "time_trough" -> "time_peak" [] n = "volt_peak" -> "volt_trough" [] n = "volt_trough" -> "volt_peak"
                   [] n = "time_rise" -> "time_decay" [] n = "time_decay" -> "time_rise" [] n = "volt_rise" -> "volt_decay" [] n = "volt_decay" -> "volt_rise" [] OTHER -> n
SampRename(n) == CASE n = "sample_peak" -> "sample_trough" [] n = "sample_zerox_decay" -> "sample_zerox_rise" [] n = "sample_zerox_rise" -> "sample_zerox_decay"
                   [] n = "sample_last_zerox_decay" -> "sample_last_zerox_rise" [] n = "sample_last_trough" -> "sample_last_peak"
                   [] n = "sample_next_trough" -> "sample_next_peak" [] OTHER -> n
RenamedCol(col, centre, rs) ==
  IF centre = "peak" THEN <<col.name, col.fp>>
  ELSE LET n1 == FeatRename(col.name)
           n2 == IF rs THEN SampRename(n1) ELSE n1
       IN  <<n2, IF n2 \in {"volt_peak", "volt_trough"} THEN col.fpneg ELSE IF n2 \in {"time_rdsym", "time_ptsym"} THEN col.fpone ELSE col.fp>>
RenameOK(cols, centre, rs, out) == out = [k \in 1 .. Len(cols) |-> RenamedCol(cols[k], centre, rs)]
=============================================================================
