------------------------------ MODULE Trace_Pool ------------------------------
(***************************************************************************)
(* Trace validation of recorded group analyses on the real process pool    *)
(* (C11, C12).  One case = one compute_features_2d / _3d / BycycleGroup.fit *)
(* call:  per worker PROCESS the sequence of tasks it executed (logged in  *)
(* the worker with a per-process sequence number - never ordered by wall   *)
(* clock across processes), the fingerprints of the tables the parent      *)
(* received, and the fingerprints of the reference analyses of every       *)
(* signal on its own.                                                      *)
(*                                                                         *)
(* Judge  - the result list / nested list against the reference, placed by *)
(*          the specification's own index arithmetic (Reshape, Transpose). *)
(* then the Pool state machine is run with R(k) = the reference of task k; *)
(* Take(w) must follow worker w's log, everything else is unlogged and     *)
(* chosen by TLC.  Reaching a state where all logs are consumed and the    *)
(* parent holds the full list explains the schedule (NOTE).                *)
(***************************************************************************)
EXTENDS Pool, TLC, Json, IOUtils
Cases == JsonDeserialize(IOEnv.TRACE_FILE)

VARIABLES tid, stage, pos, fails
c == Cases[tid]
T == c.T
W == Len(c.logs)
RefOf(k) == c.ref[k]
tvars == <<tid, stage, pos, fails, submitted, queue, running, outq, parked, nextIdx, items, collected, finished>>
Fail(cond, name) == IF cond THEN <<>> ELSE <<name>>

Init == /\ tid \in 1 .. Len(Cases) /\ stage = "judge" /\ fails = <<>>
        /\ pos = [w \in 1 .. Len(Cases[tid].logs) |-> 0]
        /\ PInit(Len(Cases[tid].logs))

\* ---- placement of the results (the specification does the index arithmetic) ----
Expected ==
  CASE c.mode = "2d"  -> c.ref                                           \* position i = analysis of row i with the options of row i
    [] c.mode = "3d01" -> Reshape(c.ref, c.n0, c.n1)                    \* tasks = flattened signals, row-major
    [] c.mode = "3d0"  -> c.ref                                           \* task i = epoched analysis of sigs[i]: a list over epochs
    [] OTHER           -> Transpose(c.ref, c.n0, c.n1)                  \* "3d1": task j = epoched analysis of sigs[:, j], transposed back
Nested == c.mode # "2d"
\* what every behaviour of the pool specification implies for the per-process logs (Take removes the HEAD of a queue filled in task order):
\* each worker's log is increasing and the logs partition the tasks.  Used where the search for an explaining schedule is not run
\* (hundreds of tasks: the interleavings of the logs are too many to explore).
LogsInQueueOrder == /\ \A w \in 1 .. W : \A i, j \in 1 .. Len(c.logs[w]) : i < j => c.logs[w][i] < c.logs[w][j]
                    /\ \A k \in 1 .. T : Cardinality({ w \in 1 .. W : \E i \in 1 .. Len(c.logs[w]) : c.logs[w][i] = k }) = 1
PlacementClauses ==
  IF ~Nested
  THEN Fail(Len(c.out) = T, c.pid \o ".number_of_results")
    \o Fail(Len(c.out) = T => \A k \in 1 .. T : c.out[k] = Expected[k], c.pid \o ".table_at_wrong_position_or_with_wrong_options")
  ELSE Fail("nested_list" \notin DOMAIN c \/ c.nested_list, c.pid \o ".result_is_not_a_nested_list")
    \o Fail(Len(c.out) = c.n0 /\ \A i \in 1 .. Len(c.out) : Len(c.out[i]) = c.n1, c.pid \o ".shape_of_nested_result")
    \o Fail((Len(c.out) = c.n0 /\ \A i \in 1 .. Len(c.out) : Len(c.out[i]) = c.n1) =>
               \A i \in 1 .. c.n0, j \in 1 .. c.n1 : c.out[i][j] = Expected[i][j], c.pid \o ".table_at_wrong_position_or_with_wrong_options")
\* the clauses about the group object apply to 2-D and 3-D runs alike
GroupClauses ==
     (IF c.models # <<>> THEN Fail(c.models = c.out, c.pid \o ".group_models_do_not_mirror_results") ELSE <<>>)
  \o (IF "rmodels" \in DOMAIN c /\ c.rmodels # <<>>
      THEN Fail(c.rmodels = c.rexpected, c.pid \o ".group_recompute_edges_differs_from_functional_edge_recomputation_of_each_model")
        \o Fail(c.rheld = c.rmodels, c.pid \o ".group_models_do_not_mirror_df_features_after_recompute_edges") ELSE <<>>)
  \o (IF "check_logs" \in DOMAIN c /\ c.check_logs THEN Fail(LogsInQueueOrder, c.pid \o ".worker_logs_not_a_partition_of_the_tasks_in_queue_order") ELSE <<>>)
Clauses == IF c.raised # "" THEN <<c.pid \o ".raised">> ELSE PlacementClauses \o GroupClauses

Judge == /\ stage = "judge"
         /\ fails' = Clauses
         /\ PrintT(<<"VERDICT", tid, fails'>>)
         /\ stage' = IF c.check_schedule THEN "run" ELSE "done"
         /\ UNCHANGED <<tid, pos, submitted, queue, running, outq, parked, nextIdx, items, collected, finished>>

\* ---- the schedule: Pool actions, Take bound to the per-process logs ----
Keep == /\ UNCHANGED <<tid, stage, fails>>
TrSubmit  == stage = "run" /\ Submit(T) /\ Keep /\ UNCHANGED pos
TrTake(w) == /\ stage = "run" /\ pos[w] < Len(c.logs[w]) /\ queue # <<>> /\ Head(queue) = c.logs[w][pos[w] + 1]
             /\ Take(w) /\ pos' = [pos EXCEPT ![w] = @ + 1] /\ Keep
TrFinish(w) == stage = "run" /\ Finish(w, RefOf) /\ Keep /\ UNCHANGED pos
TrHandle  == stage = "run" /\ Handle /\ Keep /\ UNCHANGED pos
TrConsume == stage = "run" /\ Consume /\ Keep /\ UNCHANGED pos
Explained == /\ stage = "run" /\ \A w \in 1 .. W : pos[w] = Len(c.logs[w])
             /\ Len(collected) = T /\ collected = c.ref
             /\ PrintT(<<"NOTE", tid, "schedule_explained">>)
             /\ stage' = "done"
             /\ UNCHANGED <<tid, pos, fails, submitted, queue, running, outq, parked, nextIdx, items, collected, finished>>

Next == Judge \/ TrSubmit \/ (\E w \in 1 .. W : TrTake(w) \/ TrFinish(w)) \/ TrHandle \/ TrConsume \/ Explained
Spec == Init /\ [][Next]_tvars
\* the pool invariant, evaluated in every state of every explained schedule
Prefix == stage = "run" => \A k \in 1 .. Len(collected) : collected[k] = c.ref[k]
View == <<tid, stage, pos, submitted, queue, running, outq, parked, nextIdx, items, collected>>
=============================================================================
