---------------------------- MODULE Trace_Session ----------------------------
(***************************************************************************)
(* Trace validation of replayed sessions (C14, C15).  The behaviours come  *)
(* from TLC itself (simulation of Session.tla); the harness replays each   *)
(* on REAL Bycycle objects sharing real dictionaries, and records after    *)
(* every action the contents of every dictionary, fingerprints of the      *)
(* object's table and of what the functional API yields for the settings   *)
(* as the user wrote them, and pre/post fingerprints of every argument of  *)
(* functional calls.  Each event is bound to the Session action of the     *)
(* same name; the recorded post-state is compared with the specified one.  *)
(***************************************************************************)
EXTENDS Session, Json, IOUtils
Cases == JsonDeserialize(IOEnv.TRACE_FILE)
VARIABLES tid, l, fails, results
tvars == <<vars, tid, l, fails, results>>
c == Cases[tid]
e == c[l]
Fail(cond, name) == IF cond THEN <<>> ELSE <<name>>

TInit == /\ Init /\ tid \in 1 .. Len(Cases) /\ l = 1 /\ fails = <<>> /\ results = <<>>

\* what the recorded post-state must satisfy after the specified action has been taken (primed variables = specified post-state)
HeapClause == Fail(e.heap = [r \in Refs |-> heap'[r]], "C15.caller_dictionary_modified_by." \o e.a \o (IF e.a = "Call" THEN "." \o e.f ELSE ""))
Key == <<e.f, e.method, e.s, [r \in {e.tk, BkRef} |-> heap[r]]>>
Seen == { k \in 1 .. Len(results) : results[k][1] = Key }
Step ==
  /\ l <= Len(c)
  /\ CASE e.a = "New"  -> New(e.o, e.method, e.tk) /\ fails' = fails \o HeapClause \o Fail(e.raised = "", "C14.constructor_raised") /\ UNCHANGED results
       [] e.a = "Fit"  -> Fit(e.o, e.s) /\ UNCHANGED results
                          /\ fails' = fails \o HeapClause \o (IF e.raised # "" THEN <<"C14.fit_raised">>
                                                             ELSE Fail(e.df_fp = e.fresh_fp, "C14.fit_differs_from_fresh_analysis_with_current_settings")
                                                               \o Fail(e.attr_ok, "C14.attribute_access_returns_stale_columns_after.Fit"))
       [] e.a = "Recompute" -> Recompute(e.o, e.v) /\ UNCHANGED results
                          /\ fails' = fails \o HeapClause \o (IF e.raised # "" THEN <<"C14.recompute_edges_raised">>
                                                             ELSE Fail(e.df_fp = e.fresh_fp, "C14.recompute_edges_differs_from_functional_edge_recomputation")
                                                               \o Fail(e.reduced_ok, "C14.reduce_thresholds_is_not_every_threshold_lowered_by_r")
                                                               \o Fail(e.attr_ok, "C14.attribute_access_returns_stale_columns_after.Recompute"))
       [] e.a = "RecomputeRaises" -> RecomputeRaises(e.o) /\ UNCHANGED results
                          /\ fails' = fails \o HeapClause \o Fail(e.raised = e.fresh_raised, "C14.recompute_edges_outcome_differs_from_functional_edge_recomputation")
                                             \o Fail(e.raised = "" \/ e.df_fp = e.before_fp, "EXT.table_changed_by_a_failed_recompute_edges")
                                             \o Fail(e.raised # "", "EXT.recompute_edges_of_an_amplitude_or_unfitted_object_did_not_raise")
       [] e.a = "Load" -> Load(e.o, e.s) /\ UNCHANGED results
                          /\ fails' = fails \o HeapClause \o Fail(e.raised = "" /\ e.df_fp = e.fresh_fp, "C14.load") \o Fail(e.attr_ok, "C14.attribute_access_returns_stale_columns_after.Load")
       [] e.a = "Edit" -> EditDict(e.o, e.method, e.v) /\ fails' = fails \o HeapClause /\ UNCHANGED results
       [] e.a = "SetCentre" -> SetCentre(e.o, e.method) /\ fails' = fails \o HeapClause \o Fail(e.raised = "", "C14.attribute_assignment_raised") /\ UNCHANGED results
       [] e.a = "Rebind" -> Rebind(e.o, e.tk) /\ fails' = fails \o HeapClause \o Fail(e.raised = "", "C14.attribute_assignment_raised") /\ UNCHANGED results
       [] e.a = "GetAttr" -> GetAttr(e.o) /\ UNCHANGED results
                          /\ fails' = fails \o HeapClause
                                \o Fail(e.attr_col = (IF obj[e.o].df.kind = "none" THEN "AttributeError" ELSE "column"), "C14.attribute_access_of_a_column")
                                \o Fail(e.attr_missing = "AttributeError", "C14.attribute_access_of_a_missing_name")
       [] OTHER -> Call(e.f, e.method, e.tk, e.s)
                   /\ fails' = fails \o HeapClause
                         \o (IF e.raised # "" THEN <<"C15.call_raised." \o e.f>>
                             ELSE Fail(e.pre = e.post, "C15.argument_modified_by." \o e.f)
                               \o Fail(\A k \in Seen : results[k][2] = e.result_fp, "C15.repeated_call_returns_a_different_result." \o e.f)
                               \o Fail(e.again_fp = -1 \/ e.again_fp = e.result_fp, "C15.result_depends_on_calls_made_in_between." \o e.f))
                   /\ results' = IF e.raised = "" THEN Append(results, <<Key, e.result_fp>>) ELSE results
  /\ l' = l + 1
  /\ UNCHANGED tid
Finish == /\ l = Len(c) + 1
          /\ PrintT(<<"VERDICT", tid, fails>>)
          /\ l' = l + 1
          /\ UNCHANGED <<vars, tid, fails, results>>
TNext == Step \/ Finish
TSpec == TInit /\ [][TNext]_tvars
\* the Session invariants are evaluated in every state of every replayed behaviour
THeapIsIntent == HeapIsIntent
=============================================================================
