--------------------------- MODULE PlacementProof ---------------------------
(***************************************************************************)
(* Unbounded facts about the index arithmetic of the 3-D group analysis    *)
(* (C12), proved with TLAPS for ALL array extents - TLC checks them only   *)
(* up to 3 x 3.  FlatIndex is the position of signal [i, j] in the         *)
(* row-major flattened task list; Reshape reads it back.                   *)
(***************************************************************************)
EXTENDS Integers, TLAPS

FlatIndex(i, j, n1) == (i - 1) * n1 + j

\* multiplication by a natural number is monotone (the one non-linear fact the proofs need)
LEMMA MulMono == ASSUME NEW a \in Int, NEW b \in Int, NEW n \in Nat, a >= b PROVE a * n >= b * n
<1>1. (a - b) \in Nat
  OBVIOUS
<1>2. (a - b) * n \in Nat
  BY <1>1
<1>3. a * n = b * n + (a - b) * n
  OBVIOUS
<1> QED BY <1>2, <1>3

\* the flat index of every [i, j] lies inside the task list
THEOREM InRange ==
  ASSUME NEW n0 \in Nat \ {0}, NEW n1 \in Nat \ {0}, NEW i \in 1 .. n0, NEW j \in 1 .. n1
  PROVE  FlatIndex(i, j, n1) \in 1 .. (n0 * n1)
<1>1. (i - 1) * n1 >= 0 * n1 /\ (n0 - 1) * n1 >= (i - 1) * n1
  BY MulMono
<1>2. (n0 - 1) * n1 + n1 = n0 * n1
  OBVIOUS
<1> QED BY <1>1, <1>2 DEF FlatIndex

\* different signals get different positions: nothing can be overwritten or duplicated
THEOREM Injective ==
  ASSUME NEW n1 \in Nat \ {0}, NEW i \in Nat \ {0}, NEW j \in 1 .. n1, NEW k \in Nat \ {0}, NEW l \in 1 .. n1,
         FlatIndex(i, j, n1) = FlatIndex(k, l, n1)
  PROVE  i = k /\ j = l
<1>1. CASE i = k
  BY <1>1 DEF FlatIndex
<1>2. CASE i < k
  <2>1. (k - 1) * n1 >= i * n1
    BY <1>2, MulMono
  <2>2. i * n1 = (i - 1) * n1 + n1
    OBVIOUS
  <2> QED BY <2>1, <2>2 DEF FlatIndex
<1>3. CASE i > k
  <2>1. (i - 1) * n1 >= k * n1
    BY <1>3, MulMono
  <2>2. k * n1 = (k - 1) * n1 + n1
    OBVIOUS
  <2> QED BY <2>1, <2>2 DEF FlatIndex
<1> QED BY <1>1, <1>2, <1>3

\* the index the pinned tree used, i + j - 1 (0-based i + j), is NOT injective as soon as both extents exceed 1
THEOREM OldIndexCollides == \E i, j, k, l \in 1 .. 2 : <<i, j>> # <<k, l>> /\ i + j = k + l
  BY DEF FlatIndex
=============================================================================
