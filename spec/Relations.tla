------------------------------ MODULE Relations ------------------------------
(***************************************************************************)
(* Two-run relations (self-composition) between projected cycle tables     *)
(* (C09, C10).  A table is a sequence of rows as logged by the harness:    *)
(* cyclepoints under temporal role names, integer durations, voltages as   *)
(* integers on the run's dyadic grid (volt_amp as 2*volt_amp), ratios as   *)
(* exact rationals, burst features additionally as the three limbs of      *)
(* their float64 (bit identity), and the burst label.                      *)
(***************************************************************************)
EXTENDS Seqs

Roles == <<"last", "lastzx", "zx1", "centre", "zx2", "next">>
SameSamples(a, b) == \A k \in 1 .. 6 : a[Roles[k]] = b[Roles[k]]

\* C09: a = row of the trough-centred analysis of s, b = row of the peak-centred analysis of -s
MirrorRow(a, b) ==
  /\ SameSamples(a, b)
  /\ a.period = b.period
  /\ a.time_peak = b.time_trough /\ a.time_trough = b.time_peak
  /\ a.time_rise = b.time_decay  /\ a.time_decay = b.time_rise
  /\ a.volt_rise = b.volt_decay  /\ a.volt_decay = b.volt_rise /\ a.volt_amp2 = b.volt_amp2
  /\ a.volt_peak = -b.volt_trough /\ a.volt_trough = -b.volt_peak
  /\ a.time_rdsym = OneMinus(b.time_rdsym) /\ a.time_ptsym = OneMinus(b.time_ptsym)
  /\ a.band_amp = b.band_amp
MirrorBurst(a, b) == a.burst_limbs = b.burst_limbs /\ a.is_burst = b.is_burst

IntNames == <<"period", "time_peak", "time_trough", "time_rise", "time_decay", "volt_peak", "volt_trough", "volt_rise", "volt_decay", "volt_amp2">>
RatNames == <<"time_rdsym", "time_ptsym", "band_amp">>
\* C10 amplitude: b = row of the analysis of 2^k * s, projected on the grid 2^(e+k): every projected field coincides,
\* i.e. indices/durations/ratios/labels unchanged and every voltage feature and band_amp multiplied by exactly 2^k
ScaledRow(a, b) ==
  /\ SameSamples(a, b)
  /\ \A k \in 1 .. Len(IntNames) : a[IntNames[k]] = b[IntNames[k]]
  /\ \A k \in 1 .. Len(RatNames) : a[RatNames[k]] = b[RatNames[k]]
  /\ a.sym_limbs = b.sym_limbs /\ a.burst_limbs = b.burst_limbs /\ a.is_burst = b.is_burst
\* C10 sampling rate: the entire table is unchanged, bit for bit
SameRow(a, b) == ScaledRow(a, b) /\ a.volt_limbs = b.volt_limbs
=============================================================================
