---------------------------- MODULE Trace_Extrema ----------------------------
(***************************************************************************)
(* Trace validation of direct find_extrema / find_zerox calls (C02, C03):  *)
(* all first_extrema values, pad on/off, boundaries, filter options.       *)
(* Events: EnvFilterLength, EnvFilter (arguments checked, output taken as  *)
(* the environment's choice), Return(find_extrema), Return(find_zerox).    *)
(***************************************************************************)
EXTENDS Cyclepoints, TLC, Json, IOUtils

Cases == JsonDeserialize(IOEnv.TRACE_FILE)
VARIABLES tid, stage, ext, fails
vars == <<tid, stage, ext, fails>>

c      == Cases[tid]
padlen == IF c.pad THEN (c.flen.L + 1) \div 2 ELSE 0
Three  == <<3, 1>>
Fail(cond, name) == IF cond THEN <<>> ELSE <<name>>
Raised == c.raised # ""

Init == tid \in 1 .. Len(Cases) /\ stage = "filter" /\ ext = <<<<>>, <<>>>> /\ fails = <<>>

FilterClauses ==
     Fail(c.filt.fs = c.call.fs /\ c.filt.flo = c.call.flo /\ c.filt.fhi = c.call.fhi, "C02.filter_args.fs_band")
  \o Fail(c.filt.pass_type = c.call.pass_type /\ c.filt.remove_edges = FALSE /\ c.filt.extra = <<>> /\ c.filt.nargs = 0, "C02.filter_args.pass_type_edges")
  \o Fail(c.filt.ncyc = c.call.ncyc /\ c.filt.nsec = c.call.nsec, "C02.filter_args.length")
  \o (IF c.pad THEN Fail(/\ c.flen.seen /\ c.flen.fs = c.call.fs /\ c.flen.flo = c.call.flo /\ c.flen.fhi = c.call.fhi
                         /\ c.flen.pass_type = c.call.pass_type /\ c.flen.nsec = c.call.nsec
                         /\ c.flen.ncyc = (IF c.call.nsec = NaN /\ c.call.ncyc = NaN THEN Three ELSE c.call.ncyc),
                         "C02.pad_length_args") ELSE Fail(~c.flen.seen, "C02.pad_length_computed_without_pad"))
  \o Fail(c.filt.input = PadSeq(c.sig, padlen), "C02.filter_input")
  \o Fail(Len(c.filt.pos) = Len(c.filt.input) /\ ~c.filt.nan, "C02.filter_output_shape")

Filter == /\ stage = "filter"
          /\ IF ~c.filt.seen
               THEN fails' = <<"C02.filter_never_called">> /\ stage' = "finish"
               ELSE fails' = FilterClauses /\ stage' = IF Len(c.filt.pos) = c.n + 2 * padlen THEN "extrema" ELSE "finish"
          /\ UNCHANGED <<tid, ext>>

FindExtrema ==
  /\ stage = "extrema"
  /\ LET sp   == PadSeq(c.sig, padlen)
         posv == c.filt.pos
         def  == ExtremaDefined(sp, posv, padlen, c.n, c.B, c.first)
         se   == Extrema(sp, posv, padlen, c.n, c.B, c.first)
         lg   == <<c.ext.pk, c.ext.tr>>
     IN IF ~def
          THEN fails' = fails /\ ext' = ext /\ stage' = "finish"        \* outside the precondition: nothing is claimed
          ELSE /\ fails' = fails \o (IF Raised THEN <<"C02.raised_on_defined_input">> ELSE Fail(lg = se, "C02.extrema"))
               /\ ext' = IF Raised THEN se ELSE lg
               /\ stage' = IF Raised THEN "finish" ELSE "zerox"
  /\ UNCHANGED tid

FindZerox ==
  /\ stage = "zerox"
  /\ IF ~c.zx.seen \/ ~(/\ \A k \in 1 .. Len(ext[1]) : ext[1][k] \in 0 .. (c.n - 1)
                        /\ \A k \in 1 .. Len(ext[2]) : ext[2][k] \in 0 .. (c.n - 1)
                        /\ ZeroxDefined(ext[1], ext[2]) /\ Alternating(ext[1], ext[2]) /\ Len(ext[1]) + Len(ext[2]) >= 2)
       THEN fails' = fails
       ELSE fails' = fails \o (IF c.zx.raised THEN <<"C03.raised">> ELSE Fail(<<c.zx.rs, c.zx.dc>> = Zerox(c.sig, ext[1], ext[2]), "C03.midpoints"))
  /\ stage' = "finish"
  /\ UNCHANGED <<tid, ext>>

Finish == /\ stage = "finish"
          /\ PrintT(<<"VERDICT", tid, fails>>)
          /\ stage' = "done"
          /\ UNCHANGED <<tid, ext, fails>>

Next == Filter \/ FindExtrema \/ FindZerox \/ Finish
Spec == Init /\ [][Next]_vars
=============================================================================
