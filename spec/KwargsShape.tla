----------------------------- MODULE KwargsShape -----------------------------
(***************************************************************************)
(* C19: the documented decision tables.                                    *)
(*  (1) array shape x axis x option-list shape for the group analysis;     *)
(*  (2) each documented parameter at / just inside / just outside its      *)
(*      valid range, each enumerated option valid / unknown.               *)
(* Outcomes: 0 = a result is returned, 1 = ValueError, 2 = anything else.  *)
(***************************************************************************)
EXTENDS Seqs, TLC

\* ---------------- (1) shapes ----------------
\* axis codes: "0", "1", "01" = (0, 1), "None", and the invalid ones "2", "10" = (1, 0), "x"
Axes == {"0", "1", "01", "None", "2", "10", "x"}
AxisValid(ndim, axis) == IF ndim = 2 THEN axis \in {"0", "None"} ELSE axis \in {"0", "1", "01"}
\* list shapes: <<>> = None, <<0>> = one dict, <<1, d0>> 1-D, <<2, d0, d1>> 2-D, <<3, d0, d1, d2>> 3-D list of dicts
ListFits(ndim, n0, n1, axis, ls) ==
  CASE ls = <<>> \/ ls = <<0>> -> TRUE
    [] ls[1] = 1 -> IF ndim = 2 THEN ls[2] = n0
                    ELSE (axis = "0" /\ ls[2] = n0) \/ (axis = "1" /\ ls[2] = n1)
    [] ls[1] = 2 -> ndim = 3 /\ axis = "01" /\ ls[2] = n0 /\ ls[3] = n1
    [] OTHER     -> FALSE
\* the analysis entry points validate axis and list; check_kwargs_shape alone has nothing to say about a dict / None
AcceptAnalysis(ndim, n0, n1, axis, ls) == AxisValid(ndim, axis) /\ ListFits(ndim, n0, n1, axis, ls)
AcceptChecker(ndim, n0, n1, axis, ls)  == IF ls = <<>> \/ ls = <<0>> THEN TRUE ELSE AcceptAnalysis(ndim, n0, n1, axis, ls)

\* ---------------- (2) parameters ----------------
\* parameter kinds with the positions that exist for them and the ones that are valid
Positions(kind) ==
  CASE kind = "fs"           -> {"negative", "zero", "inside"}
    [] kind = "threshold"    -> {"below", "low", "inside", "high", "above"}
    [] kind = "min_n_cycles" -> {"negative", "zero", "inside"}
    [] kind = "amp_threshes" -> {"reversed", "equal", "ordered", "negative_low"}
    [] kind = "option"       -> {"valid1", "valid2", "unknown", "unknown_empty", "unknown_zero", "unknown_false", "unknown_capitalised", "unknown_bytes"}
                                \* unknown values of other shapes: the empty string, 0, False (falsy values are not "no value"), a valid name with
                                \* another capitalisation, the valid name as bytes
    [] kind = "option_in_degenerate_context" -> {"unknown"}      \* an unknown option must be rejected whatever the other inputs are
    [] kind = "ndim"         -> {"too_few", "ok", "too_many"}
    [] kind = "axis_as_numpy_integer" -> {"zero", "one", "two"}   \* the axis of a 3-D analysis taken from an array (np.arange, argmax): the same values as 0 / 1 / 2
    [] OTHER                 -> {"before_fit", "after_fit"}          \* plot
ValidPos(kind, pos) ==
  CASE kind = "fs"           -> pos = "inside"
    [] kind = "threshold"    -> pos \in {"low", "inside", "high"}
    [] kind = "min_n_cycles" -> pos \in {"zero", "inside"}
    [] kind = "amp_threshes" -> pos \in {"equal", "ordered"}
    [] kind = "option"       -> pos \in {"valid1", "valid2"}
    [] kind = "option_in_degenerate_context" -> FALSE
    [] kind = "ndim"         -> pos = "ok"
    [] kind = "axis_as_numpy_integer" -> pos \in {"zero", "one"}
    [] OTHER                 -> pos = "after_fit"
=============================================================================
