--------------------------- MODULE RunFilterProof ---------------------------
(***************************************************************************)
(* Unbounded facts about the declarative run filter of RunFilter.tla (C08, *)
(* C06, C07), proved with TLAPS for ALL boolean sequences b of ANY length  *)
(* and all minimum lengths: the maximal run through an index is unique, so *)
(* "kept entirely or cleared entirely" is well defined; a kept index was   *)
(* TRUE; a whole maximal run shares one fate; raising the minimum only     *)
(* removes.  TLC checks these on arrays of <= 15 elements.                 *)
(***************************************************************************)
EXTENDS Integers, Sequences, NaturalsInduction, TLAPS

IsMaxRun(b, lo, hi) == /\ lo \in 1 .. Len(b) /\ hi \in 1 .. Len(b) /\ lo <= hi
                       /\ \A i \in lo .. hi : b[i]
                       /\ (lo = 1 \/ ~b[lo - 1])
                       /\ (hi = Len(b) \/ ~b[hi + 1])
Kept(b, m, i) == \E lo, hi \in 1 .. Len(b) : IsMaxRun(b, lo, hi) /\ lo <= i /\ i <= hi /\ hi - lo + 1 >= m

THEOREM NoFalseToTrue ==
  ASSUME NEW b \in Seq(BOOLEAN), NEW m \in Int, NEW i \in 1 .. Len(b), Kept(b, m, i)
  PROVE  b[i]
BY DEF Kept, IsMaxRun

THEOREM RunThroughAnIndexIsUnique ==
  ASSUME NEW b \in Seq(BOOLEAN), NEW i \in 1 .. Len(b),
         NEW lo \in 1 .. Len(b), NEW hi \in 1 .. Len(b), NEW lo2 \in 1 .. Len(b), NEW hi2 \in 1 .. Len(b),
         IsMaxRun(b, lo, hi), IsMaxRun(b, lo2, hi2), lo <= i, i <= hi, lo2 <= i, i <= hi2
  PROVE  lo = lo2 /\ hi = hi2
<1>1. lo = lo2
  <2>1. CASE lo < lo2
    <3>1. (lo2 - 1) \in lo .. hi
      BY <2>1
    <3>2. b[lo2 - 1]
      BY <3>1 DEF IsMaxRun
    <3> QED BY <3>2, <2>1 DEF IsMaxRun
  <2>2. CASE lo2 < lo
    <3>1. (lo - 1) \in lo2 .. hi2
      BY <2>2
    <3>2. b[lo - 1]
      BY <3>1 DEF IsMaxRun
    <3> QED BY <3>2, <2>2 DEF IsMaxRun
  <2> QED BY <2>1, <2>2
<1>2. hi = hi2
  <2>1. CASE hi < hi2
    <3>1. (hi + 1) \in lo2 .. hi2
      BY <2>1
    <3>2. b[hi + 1]
      BY <3>1 DEF IsMaxRun
    <3> QED BY <3>2, <2>1 DEF IsMaxRun
  <2>2. CASE hi2 < hi
    <3>1. (hi2 + 1) \in lo .. hi
      BY <2>2
    <3>2. b[hi2 + 1]
      BY <3>1 DEF IsMaxRun
    <3> QED BY <3>2, <2>2 DEF IsMaxRun
  <2> QED BY <2>1, <2>2
<1> QED BY <1>1, <1>2

\* a maximal run is kept entirely or cleared entirely
THEOREM WholeRunsShareOneFate ==
  ASSUME NEW b \in Seq(BOOLEAN), NEW m \in Int, NEW lo \in 1 .. Len(b), NEW hi \in 1 .. Len(b), IsMaxRun(b, lo, hi),
         NEW i \in lo .. hi, NEW j \in lo .. hi, Kept(b, m, i)
  PROVE  Kept(b, m, j)
<1>1. PICK lo2, hi2 \in 1 .. Len(b) : IsMaxRun(b, lo2, hi2) /\ lo2 <= i /\ i <= hi2 /\ hi2 - lo2 + 1 >= m
  BY DEF Kept
<1>2. i \in 1 .. Len(b)
  BY DEF IsMaxRun
<1>3. lo = lo2 /\ hi = hi2
  BY <1>1, <1>2, RunThroughAnIndexIsUnique
<1> QED BY <1>1, <1>3 DEF Kept

\* ... and it is kept exactly when it is long enough
THEOREM KeptIffLongEnough ==
  ASSUME NEW b \in Seq(BOOLEAN), NEW m \in Int, NEW lo \in 1 .. Len(b), NEW hi \in 1 .. Len(b), IsMaxRun(b, lo, hi), NEW i \in lo .. hi
  PROVE  Kept(b, m, i) <=> hi - lo + 1 >= m
<1>1. ASSUME hi - lo + 1 >= m PROVE Kept(b, m, i)
  BY <1>1 DEF Kept
<1>2. ASSUME Kept(b, m, i) PROVE hi - lo + 1 >= m
  <2>1. PICK lo2, hi2 \in 1 .. Len(b) : IsMaxRun(b, lo2, hi2) /\ lo2 <= i /\ i <= hi2 /\ hi2 - lo2 + 1 >= m
    BY <1>2 DEF Kept
  <2>2. i \in 1 .. Len(b)
    BY DEF IsMaxRun
  <2>3. lo = lo2 /\ hi = hi2
    BY <2>1, <2>2, RunThroughAnIndexIsUnique
  <2> QED BY <2>1, <2>3
<1> QED BY <1>1, <1>2

\* raising min_n_cycles can only remove labels
THEOREM MonotoneInTheMinimum ==
  ASSUME NEW b \in Seq(BOOLEAN), NEW m \in Int, NEW m2 \in Int, m <= m2, NEW i \in 1 .. Len(b), Kept(b, m2, i)
  PROVE  Kept(b, m, i)
BY DEF Kept

\* ---- monotone in the ARRAY: if every TRUE of a is a TRUE of b, every kept index of a is a kept index of b.  This is what makes "raising a
\* threshold only removes labels" (C06, C07) and "with unchanged thresholds bursts only grow" (C16) consequences of the per-cycle comparisons:
\* fewer qualifying cycles -> fewer kept ones.  Needs the EXISTENCE of the maximal run around a stretch of TRUEs (two inductions).
AllTrue(b, lo, hi) == \A j \in lo .. hi : b[j]

LEMMA ExtendLeft ==
  ASSUME NEW b \in Seq(BOOLEAN), NEW hi \in 1 .. Len(b)
  PROVE  \A n \in Nat : \A lo \in 1 .. hi : (lo = n /\ AllTrue(b, lo, hi)) =>
            \E lo2 \in 1 .. lo : AllTrue(b, lo2, hi) /\ (lo2 = 1 \/ ~b[lo2 - 1])
<1> DEFINE P(n) == \A lo \in 1 .. hi : (lo = n /\ AllTrue(b, lo, hi)) =>
                      \E lo2 \in 1 .. lo : AllTrue(b, lo2, hi) /\ (lo2 = 1 \/ ~b[lo2 - 1])
<1>1. P(0)
  OBVIOUS
<1>2. ASSUME NEW n \in Nat, P(n) PROVE P(n + 1)
  <2> SUFFICES ASSUME NEW lo \in 1 .. hi, lo = n + 1, AllTrue(b, lo, hi)
               PROVE  \E lo2 \in 1 .. lo : AllTrue(b, lo2, hi) /\ (lo2 = 1 \/ ~b[lo2 - 1])
    OBVIOUS
  <2>1. CASE lo = 1
    BY <2>1
  <2>2. CASE lo > 1 /\ ~b[lo - 1]
    BY <2>2
  <2>3. CASE lo > 1 /\ b[lo - 1]
    <3>1. (lo - 1) \in 1 .. hi /\ lo - 1 = n
      BY <2>3
    <3>2. AllTrue(b, lo - 1, hi)
      BY <2>3 DEF AllTrue
    <3>3. PICK lo3 \in 1 .. (lo - 1) : AllTrue(b, lo3, hi) /\ (lo3 = 1 \/ ~b[lo3 - 1])
      BY <3>1, <3>2, <1>2
    <3> QED BY <3>3
  <2> QED BY <2>1, <2>2, <2>3
<1>3. \A n \in Nat : P(n)
  <2> HIDE DEF P
  <2> QED BY <1>1, <1>2, NatInduction
<1> QED BY <1>3

LEMMA ExtendRight ==
  ASSUME NEW b \in Seq(BOOLEAN), NEW lo \in 1 .. Len(b)
  PROVE  \A n \in Nat : \A hi \in lo .. Len(b) : (Len(b) - hi = n /\ AllTrue(b, lo, hi)) =>
            \E hi2 \in hi .. Len(b) : AllTrue(b, lo, hi2) /\ (hi2 = Len(b) \/ ~b[hi2 + 1])
<1> DEFINE P(n) == \A hi \in lo .. Len(b) : (Len(b) - hi = n /\ AllTrue(b, lo, hi)) =>
                      \E hi2 \in hi .. Len(b) : AllTrue(b, lo, hi2) /\ (hi2 = Len(b) \/ ~b[hi2 + 1])
<1>1. P(0)
  OBVIOUS
<1>2. ASSUME NEW n \in Nat, P(n) PROVE P(n + 1)
  <2> SUFFICES ASSUME NEW hi \in lo .. Len(b), Len(b) - hi = n + 1, AllTrue(b, lo, hi)
               PROVE  \E hi2 \in hi .. Len(b) : AllTrue(b, lo, hi2) /\ (hi2 = Len(b) \/ ~b[hi2 + 1])
    OBVIOUS
  <2>0. hi + 1 \in lo .. Len(b) /\ Len(b) - (hi + 1) = n
    OBVIOUS
  <2>1. CASE ~b[hi + 1]
    BY <2>1
  <2>2. CASE b[hi + 1]
    <3>1. AllTrue(b, lo, hi + 1)
      BY <2>2 DEF AllTrue
    <3>2. PICK hi3 \in (hi + 1) .. Len(b) : AllTrue(b, lo, hi3) /\ (hi3 = Len(b) \/ ~b[hi3 + 1])
      BY <2>0, <3>1, <1>2
    <3> QED BY <3>2
  <2> QED BY <2>1, <2>2
<1>3. \A n \in Nat : P(n)
  <2> HIDE DEF P
  <2> QED BY <1>1, <1>2, NatInduction
<1> QED BY <1>3

LEMMA MaxRunAround ==
  ASSUME NEW b \in Seq(BOOLEAN), NEW lo \in 1 .. Len(b), NEW hi \in 1 .. Len(b), lo <= hi, AllTrue(b, lo, hi)
  PROVE  \E lo2 \in 1 .. lo, hi2 \in hi .. Len(b) : IsMaxRun(b, lo2, hi2)
<1>1. PICK lo2 \in 1 .. lo : AllTrue(b, lo2, hi) /\ (lo2 = 1 \/ ~b[lo2 - 1])
  <2>1. lo \in Nat /\ lo \in 1 .. hi
    OBVIOUS
  <2> QED BY <2>1, ExtendLeft
<1>2. lo2 \in 1 .. Len(b) /\ hi \in lo2 .. Len(b) /\ Len(b) - hi \in Nat
  OBVIOUS
<1>3. PICK hi2 \in hi .. Len(b) : AllTrue(b, lo2, hi2) /\ (hi2 = Len(b) \/ ~b[hi2 + 1])
  BY <1>1, <1>2, ExtendRight
<1>4. IsMaxRun(b, lo2, hi2)
  BY <1>1, <1>3 DEF IsMaxRun, AllTrue
<1> QED BY <1>4

THEOREM MonotoneInTheArray ==
  ASSUME NEW a \in Seq(BOOLEAN), NEW b \in Seq(BOOLEAN), Len(a) = Len(b), \A j \in 1 .. Len(a) : a[j] => b[j],
         NEW m \in Int, NEW i \in 1 .. Len(a), Kept(a, m, i)
  PROVE  Kept(b, m, i)
<1>1. PICK lo, hi \in 1 .. Len(a) : IsMaxRun(a, lo, hi) /\ lo <= i /\ i <= hi /\ hi - lo + 1 >= m
  BY DEF Kept
<1>2. lo \in 1 .. Len(b) /\ hi \in 1 .. Len(b) /\ lo <= hi /\ AllTrue(b, lo, hi)
  BY <1>1 DEF IsMaxRun, AllTrue
<1>3. PICK lo2 \in 1 .. lo, hi2 \in hi .. Len(b) : IsMaxRun(b, lo2, hi2)
  BY <1>2, MaxRunAround
<1>4. lo2 \in 1 .. Len(b) /\ hi2 \in 1 .. Len(b) /\ lo2 <= i /\ i <= hi2 /\ hi2 - lo2 + 1 >= m
  BY <1>1, <1>3
<1> QED BY <1>3, <1>4 DEF Kept
=============================================================================
