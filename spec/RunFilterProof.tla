--------------------------- MODULE RunFilterProof ---------------------------
(***************************************************************************)
(* Unbounded facts about the declarative run filter of RunFilter.tla (C08, *)
(* C06, C07), proved with TLAPS for ALL boolean sequences b of ANY length  *)
(* and all minimum lengths: the maximal run through an index is unique, so *)
(* "kept entirely or cleared entirely" is well defined; a kept index was   *)
(* TRUE; a whole maximal run shares one fate; raising the minimum only     *)
(* removes.  TLC checks these on arrays of <= 15 elements.                 *)
(***************************************************************************)
EXTENDS Integers, Sequences, TLAPS

IsMaxRun(b, lo, hi) == /\ lo \in 1 .. Len(b) /\ hi \in 1 .. Len(b) /\ lo <= hi
                       /\ \A i \in lo .. hi : b[i]
                       /\ (lo = 1 \/ ~b[lo - 1])
                       /\ (hi = Len(b) \/ ~b[hi + 1])
Kept(b, m, i) == \E lo, hi \in 1 .. Len(b) : IsMaxRun(b, lo, hi) /\ lo <= i /\ i <= hi /\ hi - lo + 1 >= m

THEOREM NoFalseToTrue ==
  ASSUME NEW b \in Seq(BOOLEAN), NEW m \in Int, NEW i \in 1 .. Len(b), Kept(b, m, i)
  PROVE  b[i]
BY DEF Kept, IsMaxRun

THEOREM RunThroughAnIndexIsUnique ==
  ASSUME NEW b \in Seq(BOOLEAN), NEW i \in 1 .. Len(b),
         NEW lo \in 1 .. Len(b), NEW hi \in 1 .. Len(b), NEW lo2 \in 1 .. Len(b), NEW hi2 \in 1 .. Len(b),
         IsMaxRun(b, lo, hi), IsMaxRun(b, lo2, hi2), lo <= i, i <= hi, lo2 <= i, i <= hi2
  PROVE  lo = lo2 /\ hi = hi2
<1>1. lo = lo2
  <2>1. CASE lo < lo2
    <3>1. (lo2 - 1) \in lo .. hi
      BY <2>1
    <3>2. b[lo2 - 1]
      BY <3>1 DEF IsMaxRun
    <3> QED BY <3>2, <2>1 DEF IsMaxRun
  <2>2. CASE lo2 < lo
    <3>1. (lo - 1) \in lo2 .. hi2
      BY <2>2
    <3>2. b[lo - 1]
      BY <3>1 DEF IsMaxRun
    <3> QED BY <3>2, <2>2 DEF IsMaxRun
  <2> QED BY <2>1, <2>2
<1>2. hi = hi2
  <2>1. CASE hi < hi2
    <3>1. (hi + 1) \in lo2 .. hi2
      BY <2>1
    <3>2. b[hi + 1]
      BY <3>1 DEF IsMaxRun
    <3> QED BY <3>2, <2>1 DEF IsMaxRun
  <2>2. CASE hi2 < hi
    <3>1. (hi2 + 1) \in lo .. hi
      BY <2>2
    <3>2. b[hi2 + 1]
      BY <3>1 DEF IsMaxRun
    <3> QED BY <3>2, <2>2 DEF IsMaxRun
  <2> QED BY <2>1, <2>2
<1> QED BY <1>1, <1>2

\* a maximal run is kept entirely or cleared entirely
THEOREM WholeRunsShareOneFate ==
  ASSUME NEW b \in Seq(BOOLEAN), NEW m \in Int, NEW lo \in 1 .. Len(b), NEW hi \in 1 .. Len(b), IsMaxRun(b, lo, hi),
         NEW i \in lo .. hi, NEW j \in lo .. hi, Kept(b, m, i)
  PROVE  Kept(b, m, j)
<1>1. PICK lo2, hi2 \in 1 .. Len(b) : IsMaxRun(b, lo2, hi2) /\ lo2 <= i /\ i <= hi2 /\ hi2 - lo2 + 1 >= m
  BY DEF Kept
<1>2. i \in 1 .. Len(b)
  BY DEF IsMaxRun
<1>3. lo = lo2 /\ hi = hi2
  BY <1>1, <1>2, RunThroughAnIndexIsUnique
<1> QED BY <1>1, <1>3 DEF Kept

\* ... and it is kept exactly when it is long enough
THEOREM KeptIffLongEnough ==
  ASSUME NEW b \in Seq(BOOLEAN), NEW m \in Int, NEW lo \in 1 .. Len(b), NEW hi \in 1 .. Len(b), IsMaxRun(b, lo, hi), NEW i \in lo .. hi
  PROVE  Kept(b, m, i) <=> hi - lo + 1 >= m
<1>1. ASSUME hi - lo + 1 >= m PROVE Kept(b, m, i)
  BY <1>1 DEF Kept
<1>2. ASSUME Kept(b, m, i) PROVE hi - lo + 1 >= m
  <2>1. PICK lo2, hi2 \in 1 .. Len(b) : IsMaxRun(b, lo2, hi2) /\ lo2 <= i /\ i <= hi2 /\ hi2 - lo2 + 1 >= m
    BY <1>2 DEF Kept
  <2>2. i \in 1 .. Len(b)
    BY DEF IsMaxRun
  <2>3. lo = lo2 /\ hi = hi2
    BY <2>1, <2>2, RunThroughAnIndexIsUnique
  <2> QED BY <2>1, <2>3
<1> QED BY <1>1, <1>2

\* raising min_n_cycles can only remove labels
THEOREM MonotoneInTheMinimum ==
  ASSUME NEW b \in Seq(BOOLEAN), NEW m \in Int, NEW m2 \in Int, m <= m2, NEW i \in 1 .. Len(b), Kept(b, m2, i)
  PROVE  Kept(b, m, i)
BY DEF Kept
=============================================================================
