------------------------------ MODULE MC_Detect ------------------------------
(***************************************************************************)
(* C06 on every small table of threshold profiles.  Each cycle has one of  *)
(* the profiles in Profiles: rank codes of its four features relative to   *)
(* the threshold code 1 (0 just below, 1 equal, 2 just above, -1 NaN).     *)
(* The real detect_bursts_cycles is run on tables materialised with        *)
(* nextafter(threshold, -/+inf), the threshold itself and NaN.             *)
(***************************************************************************)
EXTENDS Detect, TLC, Json, IOUtils

CONSTANTS NR, UseImpl
Impl == IF UseImpl THEN JsonDeserialize(IOEnv.IMPL_FILE) ELSE <<>>
\* evaluated once, single-threaded, before the workers start (TLC caches the value of a constant definition)
ASSUME ImplLoaded == UseImpl => Len(Impl) > 0

Profiles == << <<2,2,2,2>>, <<1,2,2,2>>, <<2,1,2,2>>, <<2,2,1,2>>, <<2,2,2,1>>, <<0,2,2,2>>, <<2,-1,2,2>>, <<2,2,0,0>>, <<-1,-1,-1,-1>>, <<1,1,1,1>> >>
NP == Len(Profiles)

VARIABLES prof, m, stage, labels, agree
vars == <<prof, m, stage, labels, agree>>

Index == FoldLeft(LAMBDA acc, k : acc * NP + (prof[NR + 1 - k] - 1), 0, [k \in 1 .. NR |-> k]) * (NR + 2) + m

Init == /\ prof \in [1 .. NR -> 1 .. NP] /\ m \in 0 .. (NR + 1)
        /\ stage = "burstfeat" /\ labels = <<>> /\ agree = TRUE

CodesOf(pf) == [k \in 1 .. NR |-> [amp_fraction |-> Profiles[pf[k]][1], amp_consistency |-> Profiles[pf[k]][2],
                                   period_consistency |-> Profiles[pf[k]][3], monotonicity |-> Profiles[pf[k]][4]]]
Thr(t) == [amp_fraction |-> t, amp_consistency |-> t, period_consistency |-> t, monotonicity |-> t]

DetectStep == /\ stage = "burstfeat"
              /\ labels' = DetectCycles(CodesOf(prof), Thr(1), m)
              /\ stage' = "labelled"
              /\ UNCHANGED <<prof, m, agree>>
\* flat table: one integer per input, the bit mask of the labels (negative when the call raised)
E == Impl[Index + 1]
Judge == /\ stage = "labelled"
         /\ LET ok == ~UseImpl \/ E = BitMask(labels) IN
              /\ agree' = ok
              /\ IF ~ok THEN PrintT(<<"DISAGREE", Index, "detect_bursts_cycles", prof, m, BitMask(labels), E>>) ELSE TRUE
         /\ stage' = "done"
         /\ UNCHANGED <<prof, m, labels>>
Next == DetectStep \/ Judge
Spec == Init /\ [][Next]_vars

Done == stage \in {"labelled", "done"}
Qual(i) == QualifiesCycles(CodesOf(prof), Thr(1), i)
\* the rule, in the property's own words
InvRule == Done => \A i \in 1 .. NR : labels[i] <=> \E w \in MaxRuns([k \in 1 .. NR |-> Qual(k)]) : w[1] <= i /\ i <= w[2] /\ w[2] - w[1] + 1 >= m
InvEnds == Done => ~labels[1] /\ ~labels[NR]
InvOnlyAllAbove == Done => \A i \in 1 .. NR : labels[i] => Profiles[prof[i]] = <<2,2,2,2>>
\* raising any threshold (code 1 -> 2 for one feature or all) or min_n_cycles can only remove labels
Sub(a, b) == \A i \in 1 .. NR : a[i] => b[i]
InvMonotone == Done => /\ Sub(DetectCycles(CodesOf(prof), Thr(2), m), labels)
                       /\ Sub(DetectCycles(CodesOf(prof), [Thr(1) EXCEPT !.amp_consistency = 2], m), labels)
                       /\ Sub(DetectCycles(CodesOf(prof), [Thr(1) EXCEPT !.monotonicity = 2], m), labels)
                       /\ Sub(DetectCycles(CodesOf(prof), Thr(1), m + 1), labels)
                       /\ Sub(labels, DetectCycles(CodesOf(prof), Thr(0), m))
ImplAgrees == agree
=============================================================================
