------------------------------ MODULE MC_Phase ------------------------------
(***************************************************************************)
(* C17, exhaustively: every alternating placement of extrema at least two  *)
(* samples apart on an array of NS samples, either kind first, without     *)
(* midpoints or with one midpoint per flank at ANY position of the flank   *)
(* (including on its extrema, including the last sample).  The list of     *)
(* cases comes with the implementation table; the ASSUMEs check that it is *)
(* exactly TLC's own set of valid cases (all valid, all distinct, and as   *)
(* many as TLC counts).                                                    *)
(***************************************************************************)
EXTENDS Phase, TLC, Json, IOUtils

CONSTANTS NS, UseImpl
File  == IF UseImpl THEN JsonDeserialize(IOEnv.IMPL_FILE) ELSE [cases |-> <<>>, table |-> <<>>, codes |-> <<>>]
Cases == File.cases       \* each: <<extrema (ascending), peakFirst (0/1), withMid (0/1), mids (one per flank, or empty)>>
Impl  == File.table       \* flat: 2*NS integers per case: numerator, denominator of phase/(pi/2) per sample (0,0 = NaN; 0,-1 = inexact)
Codes == File.codes       \* flat: NS + 5 integers per case: rank code of every sample's phase (-1 = NaN), then the codes of -pi, -pi/2, 0, pi/2, pi

ValidExt(E) == Len(E) >= 2 /\ \A k \in 1 .. Len(E) : E[k] \in 0 .. (NS - 1) /\ (k > 1 => E[k] - E[k - 1] >= 2)
ValidCase(cs) == /\ ValidExt(cs[1]) /\ cs[2] \in {0, 1} /\ cs[3] \in {0, 1}
                 /\ IF cs[3] = 0 THEN cs[4] = <<>>
                    ELSE Len(cs[4]) = Len(cs[1]) - 1 /\ \A k \in 1 .. Len(cs[4]) : cs[1][k] <= cs[4][k] /\ cs[4][k] <= cs[1][k + 1]
ExtSets == { S \in SUBSET (0 .. (NS - 1)) : Cardinality(S) >= 2 /\ \A x \in S : (x + 1) \notin S }
NumValid == FoldSet(LAMBDA S, acc : acc + 2 * (1 + FoldLeft(LAMBDA a, k : a * (SortedSeq(S)[k + 1] - SortedSeq(S)[k] + 1), 1,
                                                            [k \in 1 .. (Cardinality(S) - 1) |-> k])), 0, ExtSets)
ASSUME UseImpl => \A i \in 1 .. Len(Cases) : ValidCase(Cases[i])
ASSUME UseImpl => Cardinality({ Cases[i] : i \in 1 .. Len(Cases) }) = Len(Cases) /\ Len(Cases) = NumValid

VARIABLES ci, stage, pha, agree
vars == <<ci, stage, pha, agree>>
Init == ci \in 1 .. Len(Cases) /\ stage = "cyclepoints" /\ pha = <<>> /\ agree = TRUE

cs  == Cases[ci]
Ext == cs[1]
Odd  == [k \in 1 .. ((Len(Ext) + 1) \div 2) |-> Ext[2 * k - 1]]
Even == [k \in 1 .. (Len(Ext) \div 2)       |-> Ext[2 * k]]
pk == IF cs[2] = 1 THEN Odd ELSE Even
tr == IF cs[2] = 1 THEN Even ELSE Odd
\* flank k runs from Ext[k] to Ext[k+1]; it is a decay when it starts at a peak
FlankIsDecay(k) == (cs[2] = 1) = (k % 2 = 1)
rs == IF cs[3] = 0 THEN <<>> ELSE SelectSeq([k \in 1 .. Len(cs[4]) |-> IF FlankIsDecay(k) THEN -1 ELSE cs[4][k]], LAMBDA x : x >= 0)
dc == IF cs[3] = 0 THEN <<>> ELSE SelectSeq([k \in 1 .. Len(cs[4]) |-> IF FlankIsDecay(k) THEN cs[4][k] ELSE -1], LAMBDA x : x >= 0)

Interpolate == /\ stage = "cyclepoints"
               /\ pha' = Phase(NS, pk, tr, rs, dc)
               /\ stage' = "phase"
               /\ UNCHANGED <<ci, agree>>
EI(j) == Impl[(ci - 1) * 2 * NS + j]
CI(j) == Codes[(ci - 1) * (NS + 5) + j]
\* The implementation is judged by what C17 STATES (anchors, range, monotone except the wrap, finite span), on rank codes of its own
\* floats.  Agreement with the model's linear interpolation is recorded as a NOTE only: another monotone interpolation would also satisfy C17.
Judge == /\ stage = "phase"
         /\ LET c  == [j \in 1 .. NS |-> CI(j)]
                K  == [j \in 1 .. 5 |-> CI(NS + j)]
                ok == ~UseImpl \/ (CodeRange(c, K) /\ CodeSpan(c, Ext[1], Ext[Len(Ext)]) /\ CodeAnchors(c, K, pk, tr, rs, dc) /\ CodeMonotone(c, K, tr))
                lin == ~UseImpl \/ \A j \in 1 .. NS : <<EI(2 * j - 1), EI(2 * j)>> = pha[j]
            IN /\ agree' = ok
               /\ IF ~ok THEN PrintT(<<"DISAGREE", ci, "extrema_interpolated_phase", pk, tr, rs, dc, pha, c, K>>) ELSE TRUE
               /\ IF ok /\ ~lin THEN PrintT(<<"NOTE", ci, "not_the_linear_interpolation_of_the_model">>) ELSE TRUE
         /\ stage' = "done"
         /\ UNCHANGED <<ci, pha>>
Next == Interpolate \/ Judge
Spec == Init /\ [][Next]_vars

Done == stage \in {"phase", "done"}
InvRange    == Done => InRange(pha)
InvSpan     == Done => FiniteSpan(pha, Ext[1], Ext[Len(Ext)])
InvAnchors  == Done => AnchorsOK(pha, pk, tr, rs, dc)
InvMonotone == Done => MonotoneExceptWrap(pha, tr)
ImplAgrees  == agree
=============================================================================
