---------------------------- MODULE Cyclepoints ----------------------------
(***************************************************************************)
(* Cyclepoints of a signal (C01, C02, C03): extrema of narrowband          *)
(* half-waves, flank midpoints, and the assembly of cycle rows.            *)
(*                                                                         *)
(* Index conventions (all numpy indices):                                  *)
(*   - pos[i] <=> filtered sample i is > 0 (on the padded signal);         *)
(*   - a zero-crossing is indexed by the sample BEFORE the sign change:    *)
(*     rise at i:  filtered[i] <= 0 < filtered[i+1],                       *)
(*     decay at i: filtered[i] > 0 >= filtered[i+1];                       *)
(*   - the sample window of a half-wave is [x_start, x_end) in crossing    *)
(*     indices, i.e. it begins ON the last sample before the sign change;  *)
(*   - ties: the FIRST maximum / minimum of the raw signal wins.           *)
(***************************************************************************)
EXTENDS Seqs

RiseSet(pos)  == { i \in 0 .. (N(pos) - 2) : ~At(pos, i) /\  At(pos, i + 1) }
DecaySet(pos) == { i \in 0 .. (N(pos) - 2) :  At(pos, i) /\ ~At(pos, i + 1) }
HasCrossings(pos) == RiseSet(pos) # {} /\ DecaySet(pos) # {}

NextIn(S, x) == MinOf({ y \in S : y > x })
\* half-waves closed by a crossing on both sides, as <<start crossing, end crossing>>
ClosedPos(pos) == LET R == RiseSet(pos)  D == DecaySet(pos) IN
                  { <<r, NextIn(D, r)>> : r \in { r \in R : \E d \in D : d > r } }
ClosedNeg(pos) == LET R == RiseSet(pos)  D == DecaySet(pos) IN
                  { <<d, NextIn(R, d)>> : d \in { d \in D : \E r \in R : r > d } }

\* sp: raw (padded) signal.  One extremum per closed half-wave, first occurrence on ties.
RawPeaks(sp, pos)   == { FirstArgMax(sp, w[1], w[2]) : w \in ClosedPos(pos) }
RawTroughs(sp, pos) == { FirstArgMin(sp, w[1], w[2]) : w \in ClosedNeg(pos) }

\* un-pad, then keep indices strictly inside the boundary: B < i < n - B   (n = un-padded length)
Kept(S, padlen, n, B) == { i - padlen : i \in { i \in S : i - padlen > B /\ i - padlen < n - B } }

\* first_extrema trimming on ascending sequences; defined only when the sequences it inspects are non-empty
ForceDefined(pk, tr, first) ==
  CASE first = "peak"   -> pk # <<>> /\ tr # <<>> /\ (IF pk[1] > tr[1] THEN Len(tr) >= 2 ELSE TRUE)
    [] first = "trough" -> pk # <<>> /\ tr # <<>> /\ (IF tr[1] > pk[1] THEN Len(pk) >= 2 ELSE TRUE)
    [] OTHER            -> TRUE
ForceFirst(pk, tr, first) ==
  CASE first = "peak"   -> LET tr1 == IF pk[1] > tr[1] THEN Tail(tr) ELSE tr
                               pk1 == IF pk[Len(pk)] > tr1[Len(tr1)] THEN Front(pk) ELSE pk
                           IN  <<pk1, tr1>>
    [] first = "trough" -> LET pk1 == IF tr[1] > pk[1] THEN Tail(pk) ELSE pk
                               tr1 == IF tr[Len(tr)] > pk1[Len(pk1)] THEN Front(tr) ELSE tr
                           IN  <<pk1, tr1>>
    [] OTHER            -> <<pk, tr>>

\* find_extrema: <<peaks, troughs>> as ascending sequences of numpy indices into the un-padded signal
ExtremaDefined(sp, pos, padlen, n, B, first) ==
  /\ HasCrossings(pos)
  /\ ForceDefined(SortedSeq(Kept(RawPeaks(sp, pos), padlen, n, B)), SortedSeq(Kept(RawTroughs(sp, pos), padlen, n, B)), first)
Extrema(sp, pos, padlen, n, B, first) ==
  ForceFirst(SortedSeq(Kept(RawPeaks(sp, pos), padlen, n, B)), SortedSeq(Kept(RawTroughs(sp, pos), padlen, n, B)), first)

\* zero padding of a sequence by k samples on both sides
PadSeq(s, k) == LET n == Len(s) IN Strict([i \in 1 .. (n + 2 * k) |-> IF i <= k \/ i > k + n THEN 0 ELSE s[i - k]])
NegSeq(s)    == Strict([i \in 1 .. Len(s) |-> -s[i]])

(***************************************************************************)
(* Flank midpoints (find_zerox).  Segment s[a..b] (inclusive), a < b.      *)
(* Named deviations of the code, written down as such:                     *)
(*   ZeroSegment / InvertedFlank -> temporal centre a + len \div 2         *)
(*   DummyCrossing (level never crossed in the flank's direction) -> same  *)
(***************************************************************************)
Below(s, a, b, dir, i) == IF dir = "rise" THEN 2 * At(s, i) <= At(s, a) + At(s, b)     \* at or below the half-height
                                          ELSE 2 * At(s, i) >  At(s, a) + At(s, b)     \* decay: strictly above it
CrossingSet(s, a, b, dir) == { i - a : i \in { i \in a .. (b - 1) : Below(s, a, b, dir, i) /\ ~Below(s, a, b, dir, i + 1) } }
ZeroSegment(s, a, b)      == \A i \in a .. b : At(s, i) = 0
InvertedFlank(s, a, b, dir) == IF dir = "rise" THEN At(s, a) > At(s, b) ELSE At(s, a) < At(s, b)
Centre(a, b) == a + ((b - a + 1) \div 2)
FlankMid(s, a, b, dir) ==
  IF ZeroSegment(s, a, b) \/ InvertedFlank(s, a, b, dir) THEN Centre(a, b)
  ELSE LET X == CrossingSet(s, a, b, dir) IN
       IF X = {} THEN Centre(a, b) ELSE a + FloorMedian(SortedSeq(X))
FlankClass(s, a, b, dir) ==   \* for coverage accounting
  IF ZeroSegment(s, a, b) THEN "zero" ELSE IF InvertedFlank(s, a, b, dir) THEN "inverted"
  ELSE LET X == CrossingSet(s, a, b, dir) IN
       IF X = {} THEN "dummy" ELSE IF Cardinality(X) = 1 THEN "single" ELSE "multi"

\* which extremum comes first fixes the pairing; pk, tr ascending and alternating
ZeroxDefined(pk, tr) == /\ pk # <<>> /\ tr # <<>>
                        /\ IF pk[1] < tr[1] THEN Len(tr) \in {Len(pk) - 1, Len(pk)} ELSE Len(pk) \in {Len(tr) - 1, Len(tr)}
Zerox(s, pk, tr) ==
  IF pk[1] < tr[1]
  THEN << Strict([k \in 1 .. (Len(pk) - 1) |-> FlankMid(s, tr[k], pk[k + 1], "rise")]),
          Strict([k \in 1 .. Len(tr)       |-> FlankMid(s, pk[k], tr[k],     "decay")]) >>
  ELSE << Strict([k \in 1 .. Len(pk)       |-> FlankMid(s, tr[k], pk[k],     "rise")]),
          Strict([k \in 1 .. (Len(tr) - 1) |-> FlankMid(s, pk[k], tr[k + 1], "decay")]) >>

Alternating(pk, tr) ==     \* strictly alternating, strictly increasing in time
  LET all == SortedSeq({ pk[k] : k \in 1 .. Len(pk) } \cup { tr[k] : k \in 1 .. Len(tr) })
      isPk(x) == \E k \in 1 .. Len(pk) : pk[k] = x
  IN  /\ Len(all) = Len(pk) + Len(tr)
      /\ \A k \in 1 .. (Len(all) - 1) : isPk(all[k]) # isPk(all[k + 1])

(***************************************************************************)
(* Cycle rows (compute_cyclepoints).  The analysis is peak-first with      *)
(* equally many peaks and troughs; generic role names in temporal order:   *)
(*   lastzx <= last <= zx1 <= centre <= zx2 <= next                        *)
(* peak-centred: last/next = troughs, zx1 = rise, zx2 = decay midpoint.    *)
(***************************************************************************)
Rows(pk, tr, rs, dc) ==
  Strict([k \in 1 .. (Len(pk) - 1) |-> [ last |-> tr[k], lastzx |-> dc[k], zx1 |-> rs[k],
                                         centre |-> pk[k + 1], zx2 |-> dc[k + 1], next |-> tr[k + 1] ]])

\* C01: what must hold of every returned table (n = signal length, B = boundary)
RowWF(r, n, B) ==
  /\ r.last < r.centre /\ r.centre < r.next
  /\ r.last <= r.zx1 /\ r.zx1 <= r.centre /\ r.centre <= r.zx2 /\ r.zx2 <= r.next
  /\ r.lastzx <= r.last
  /\ \A f \in {"last", "zx1", "centre", "zx2", "next"} : r[f] > B /\ r[f] < n - B
TableWF(rows, n, B) ==
  /\ \A k \in 1 .. Len(rows) : RowWF(rows[k], n, B)
  /\ \A k \in 1 .. (Len(rows) - 1) : rows[k].next = rows[k + 1].last /\ rows[k].zx2 = rows[k + 1].lastzx
=============================================================================
