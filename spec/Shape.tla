-------------------------------- MODULE Shape --------------------------------
(***************************************************************************)
(* Shape features of one cycle (C04), read against the ORIGINAL signal s   *)
(* (integers on the run's dyadic grid) and the analytic amplitude amp.     *)
(* A row carries its cyclepoints under role names in temporal order:       *)
(*      lastzx <= last <= zx1 <= centre <= zx2 <= next                     *)
(* peakC = TRUE : centre is a peak,  last/next are troughs                 *)
(* peakC = FALSE: centre is a trough, last/next are peaks                  *)
(* Voltages are integers, volt_amp is carried as 2*volt_amp (amp2).        *)
(***************************************************************************)
EXTENDS Seqs

ShapeOf(s, amp, r, peakC) ==
  LET period == r.next - r.last
      tFirst == r.centre - r.last          \* flank before the centre
      tSecond == r.next - r.centre         \* flank after the centre
      tCentre == r.zx2 - r.zx1             \* span of the centre extremum between its midpoints
      tSide   == r.zx1 - r.lastzx          \* span of the preceding side extremum
      tRise   == IF peakC THEN tFirst ELSE tSecond
      tDecay  == IF peakC THEN tSecond ELSE tFirst
      tPeak   == IF peakC THEN tCentre ELSE tSide
      tTrough == IF peakC THEN tSide ELSE tCentre
      vRise   == IF peakC THEN At(s, r.centre) - At(s, r.last) ELSE At(s, r.next) - At(s, r.centre)
      vDecay  == IF peakC THEN At(s, r.centre) - At(s, r.next) ELSE At(s, r.last) - At(s, r.centre)
  IN  [ period |-> period, time_rise |-> tRise, time_decay |-> tDecay, time_peak |-> tPeak, time_trough |-> tTrough,
        volt_peak   |-> IF peakC THEN At(s, r.centre) ELSE At(s, r.last),
        volt_trough |-> IF peakC THEN At(s, r.last) ELSE At(s, r.centre),
        volt_rise |-> vRise, volt_decay |-> vDecay, volt_amp2 |-> vRise + vDecay,
        time_rdsym |-> Rat(tRise, period),
        time_ptsym |-> Rat(tPeak, tPeak + tTrough),
        band_amp   |-> Rat(SumRange(amp, r.last, r.next), r.next - r.last) ]      \* half-open [last, next)

\* What the code does for trough-centred cycles: analyse -s peak-centred, then swap names, negate the extremum
\* voltages and replace the symmetries by one minus themselves.  MC_Shape checks this equals ShapeOf(s, .., FALSE).
ViaNegation(s, amp, r) ==
  LET p == ShapeOf(Strict([i \in 1 .. Len(s) |-> -s[i]]), amp, r, TRUE) IN
  [ period |-> p.period, time_rise |-> p.time_decay, time_decay |-> p.time_rise,
    time_peak |-> p.time_trough, time_trough |-> p.time_peak,
    volt_peak |-> -p.volt_trough, volt_trough |-> -p.volt_peak,
    volt_rise |-> p.volt_decay, volt_decay |-> p.volt_rise, volt_amp2 |-> p.volt_amp2,
    time_rdsym |-> OneMinus(p.time_rdsym), time_ptsym |-> OneMinus(p.time_ptsym), band_amp |-> p.band_amp ]

\* C04's stated ranges and identities
ShapeWF(f) == /\ f.period = f.time_rise + f.time_decay /\ f.period > 0
              /\ f.time_rise > 0 /\ f.time_decay > 0
              /\ RatLt(Zero, f.time_rdsym) /\ RatLt(f.time_rdsym, One)
              /\ RatLe(Zero, f.time_ptsym) /\ RatLe(f.time_ptsym, One)
              /\ f.volt_amp2 = f.volt_rise + f.volt_decay
=============================================================================
