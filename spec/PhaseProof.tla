----------------------------- MODULE PhaseProof -----------------------------
(***************************************************************************)
(* Unbounded facts about the phase model of Phase.tla (C17), proved with   *)
(* TLAPS for ALL anchor positions and anchor values: on a segment between  *)
(* two consecutive anchors a < b with start value s and end value e        *)
(* (s <= e, in quarter turns) the interpolated phase                        *)
(*        Num(i) / (b - a),   Num(i) = s*(b-a) + (e-s)*(i-a)               *)
(* stays between s and e, equals s at a and e at b, and never decreases    *)
(* from one sample to the next.  TLC checks this only on arrays of <= 13   *)
(* samples.  (Numerators are compared; the common denominator b-a > 0.)    *)
(***************************************************************************)
EXTENDS Integers, TLAPS

Num(s, e, a, b, i) == s * (b - a) + (e - s) * (i - a)

LEMMA MulMono == ASSUME NEW x \in Int, NEW y \in Int, NEW n \in Nat, x >= y PROVE x * n >= y * n
<1>1. (x - y) \in Nat
  OBVIOUS
<1>2. (x - y) * n \in Nat
  BY <1>1
<1>3. x * n = y * n + (x - y) * n
  OBVIOUS
<1> QED BY <1>2, <1>3

THEOREM AtTheAnchors ==
  ASSUME NEW s \in Int, NEW e \in Int, NEW a \in Int, NEW b \in Int, a < b
  PROVE  Num(s, e, a, b, a) = s * (b - a) /\ Num(s, e, a, b, b) = e * (b - a)
<1>1. (e - s) * (a - a) = 0
  OBVIOUS
<1>2. s * (b - a) + (e - s) * (b - a) = e * (b - a)
  OBVIOUS
<1> QED BY <1>1, <1>2 DEF Num

THEOREM WithinTheSegment ==
  ASSUME NEW s \in Int, NEW e \in Int, NEW a \in Int, NEW b \in Int, NEW i \in Int, a <= i, i <= b, a < b, s <= e
  PROVE  s * (b - a) <= Num(s, e, a, b, i) /\ Num(s, e, a, b, i) <= e * (b - a)
<1>1. (e - s) \in Nat /\ (i - a) \in Nat /\ (b - a) \in Nat
  OBVIOUS
<1>2. (e - s) * (i - a) >= 0
  BY <1>1
<1>3. (i - a) * (e - s) <= (b - a) * (e - s)
  BY <1>1, MulMono
<1>4. (e - s) * (i - a) <= (e - s) * (b - a)
  BY <1>3
<1>5. s * (b - a) + (e - s) * (b - a) = e * (b - a)
  OBVIOUS
<1> QED BY <1>2, <1>4, <1>5 DEF Num

THEOREM NeverDecreases ==
  ASSUME NEW s \in Int, NEW e \in Int, NEW a \in Int, NEW b \in Int, NEW i \in Int, a <= i, i < b, s <= e
  PROVE  Num(s, e, a, b, i) <= Num(s, e, a, b, i + 1)
<1>1. (e - s) * ((i + 1) - a) = (e - s) * (i - a) + (e - s)
  OBVIOUS
<1> QED BY <1>1 DEF Num
=============================================================================
