---------------------------- MODULE MC_BurstFeat ----------------------------
(***************************************************************************)
(* C05 on every small cycle table: NR rows with volt_rise, volt_decay in    *)
(* VLo..VHi and period in 1..PMax, both centrings, the three directions.   *)
(* The real compute_amp_fraction / compute_amp_consistency /               *)
(* compute_period_consistency are compared on every table.                 *)
(***************************************************************************)
EXTENDS BurstFeat, TLC, Json, IOUtils

CONSTANTS NR, VLo, VHi, PMax, UseImpl
Neg1 == -1
Neg2 == -2
Impl == IF UseImpl THEN JsonDeserialize(IOEnv.IMPL_FILE) ELSE <<>>
\* evaluated once, single-threaded, before the workers start (TLC caches the value of a constant definition)
ASSUME ImplLoaded == UseImpl => Len(Impl) > 0

VARIABLES R, D, P, peakC, stage, out, agree
vars == <<R, D, P, peakC, stage, out, agree>>

W == VHi - VLo + 1
RowDigit(k) == ((R[k] - VLo) * W + (D[k] - VLo)) * PMax + (P[k] - 1)
Index == FoldLeft(LAMBDA acc, k : acc * (W * W * PMax) + RowDigit(NR + 1 - k), 0, [k \in 1 .. NR |-> k]) * 2 + (IF peakC THEN 1 ELSE 0)

Init == /\ R \in [1 .. NR -> VLo .. VHi] /\ D \in [1 .. NR -> VLo .. VHi] /\ P \in [1 .. NR -> 1 .. PMax]
        /\ peakC \in BOOLEAN /\ stage = "shape" /\ out = <<>> /\ agree = TRUE

Dirs == <<"both", "next", "last">>
A2 == [k \in 1 .. NR |-> R[k] + D[k]]
Compute == /\ stage = "shape"
           /\ out' = [ amp_fraction |-> [k \in 1 .. NR |-> AmpFraction(A2, k)],
                       amp_consistency |-> [d \in 1 .. 3 |-> [k \in 1 .. NR |-> AmpConsistency(R, D, k, Dirs[d], peakC)]],
                       period_consistency |-> [d \in 1 .. 3 |-> [k \in 1 .. NR |-> PeriodConsistency(P, k, Dirs[d])]] ]
           /\ stage' = "burstfeat"
           /\ UNCHANGED <<R, D, P, peakC, agree>>

\* flat table, K = 1 + 14*NR integers per input: ok, then numerator/denominator of amp_fraction (NR values), of amp_consistency
\* for the directions both, next, last (3*NR values) and of period_consistency likewise
K == 1 + 14 * NR
FlatRats(l) == FoldLeft(LAMBDA acc, r : acc \o <<r[1], r[2]>>, <<>>, l)
FlatOut == <<1>> \o FlatRats(out.amp_fraction)
                \o FlatRats(out.amp_consistency[1]) \o FlatRats(out.amp_consistency[2]) \o FlatRats(out.amp_consistency[3])
                \o FlatRats(out.period_consistency[1]) \o FlatRats(out.period_consistency[2]) \o FlatRats(out.period_consistency[3])
EI(j) == Impl[Index * K + j]
Judge == /\ stage = "burstfeat"
         /\ LET fo == FlatOut
                ok == ~UseImpl \/ (\A j \in 1 .. K : EI(j) = fo[j]) IN
              /\ agree' = ok
              /\ IF ~ok THEN PrintT(<<"DISAGREE", Index, "burst_features", R, D, P, peakC, fo, [j \in 1 .. K |-> EI(j)]>>) ELSE TRUE
         /\ stage' = "done"
         /\ UNCHANGED <<R, D, P, peakC, out>>
Next == Compute \/ Judge
Spec == Init /\ [][Next]_vars

Done == stage \in {"burstfeat", "done"}
Positive == \A k \in 1 .. NR : R[k] > 0 /\ D[k] > 0
InvUnitRange == Done /\ Positive => \A k \in 1 .. NR : /\ InUnit(out.amp_fraction[k])
                                                      /\ \A d \in 1 .. 3 : InUnit(out.amp_consistency[d][k]) /\ InUnit(out.period_consistency[d][k])
InvEndsNaN   == Done => \A d \in 1 .. 3 : /\ out.amp_consistency[d][1] = NaN /\ out.amp_consistency[d][NR] = NaN
                                          /\ out.period_consistency[d][1] = NaN /\ out.period_consistency[d][NR] = NaN
\* "both" is the smaller of the one-sided values (whenever those are defined)
InvBothIsMin == Done /\ Positive => \A k \in 2 .. (NR - 1) :
                    /\ out.amp_consistency[1][k] = RatMin(out.amp_consistency[2][k], out.amp_consistency[3][k])
                    /\ out.period_consistency[1][k] = RatMin(out.period_consistency[2][k], out.period_consistency[3][k])
\* mirror (C09): a trough-centred table is the peak-centred table with rise and decay swapped
InvMirror    == stage = "shape" => \A k \in 1 .. NR, d \in 1 .. 3 : AmpConsistency(R, D, k, Dirs[d], FALSE) = AmpConsistency(D, R, k, Dirs[d], TRUE)
\* amplitude fraction is a rank: covariant with positive scaling of the amplitudes (C10)
InvRankScale == stage = "shape" => \A k \in 1 .. NR : AmpFraction(A2, k) = AmpFraction([j \in 1 .. NR |-> 4 * A2[j]], k)
ImplAgrees   == agree
=============================================================================
