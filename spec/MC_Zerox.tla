------------------------------ MODULE MC_Zerox ------------------------------
(***************************************************************************)
(* C03, literally its quantifier: every alternating peak/trough index      *)
(* sequence over every small integer-valued signal.  Extremum placements   *)
(* are all subsets of sample indices with at least two elements, either    *)
(* kind first.  Judge compares with the real find_zerox.                   *)
(***************************************************************************)
EXTENDS Cyclepoints, TLC, Json, IOUtils

CONSTANTS NS, V, UseImpl
Impl == IF UseImpl THEN JsonDeserialize(IOEnv.IMPL_FILE) ELSE <<>>
\* evaluated once, single-threaded, before the workers start (TLC caches the value of a constant definition)
ASSUME ImplLoaded == UseImpl => Len(Impl) > 0

VARIABLES sig, place, peakFirst, stage, zx, agree
vars == <<sig, place, peakFirst, stage, zx, agree>>

SigIndex(s) == FoldLeft(LAMBDA acc, k : acc * (V + 1) + s[NS + 1 - k], 0, [k \in 1 .. NS |-> k])
Index == (SigIndex(sig) * Pow2(NS) + SetMask(place)) * 2 + (IF peakFirst THEN 1 ELSE 0)

Init == /\ sig \in [1 .. NS -> 0 .. V]
        /\ place \in { S \in SUBSET (0 .. (NS - 1)) : Cardinality(S) >= 2 }
        /\ peakFirst \in BOOLEAN
        /\ stage = "input" /\ zx = <<<<>>, <<>>>> /\ agree = TRUE

All == SortedSeq(place)
Odd  == [k \in 1 .. ((Len(All) + 1) \div 2) |-> All[2 * k - 1]]
Even == [k \in 1 .. (Len(All) \div 2)       |-> All[2 * k]]
pk == IF peakFirst THEN Odd ELSE Even
tr == IF peakFirst THEN Even ELSE Odd

FindZerox == /\ stage = "input"
             /\ zx' = Zerox(sig, pk, tr)
             /\ stage' = "zerox"
             /\ UNCHANGED <<sig, place, peakFirst, agree>>

\* flat table, 3 integers per input: ok, rises, decays; a list of midpoints is the base-(NS+1) number of its entries + 1
ListCode(l) == FoldLeft(LAMBDA acc, x : acc * (NS + 1) + x + 1, 0, l)
EI(j) == Impl[Index * 3 + j]
Judge == /\ stage = "zerox"
         /\ LET ok == ~UseImpl \/ (EI(1) = 1 /\ EI(2) = ListCode(zx[1]) /\ EI(3) = ListCode(zx[2])) IN
              /\ agree' = ok
              /\ IF ~ok THEN PrintT(<<"DISAGREE", Index, "find_zerox", sig, pk, tr, zx, <<EI(1), EI(2), EI(3)>>>>) ELSE TRUE
         /\ stage' = "done"
         /\ UNCHANGED <<sig, place, peakFirst, zx>>

Next == FindZerox \/ Judge
Spec == Init /\ [][Next]_vars

\* the flanks in temporal order: <<start, end, dir>>
Flanks == [k \in 1 .. (Len(All) - 1) |-> <<All[k], All[k + 1], IF (peakFirst /\ k % 2 = 1) \/ (~peakFirst /\ k % 2 = 0) THEN "decay" ELSE "rise">>]
Mid(k) == LET f == Flanks[k]
              j == (k + 1) \div 2
          IN  IF f[3] = "rise" THEN zx[1][IF peakFirst THEN k \div 2 ELSE j] ELSE zx[2][IF peakFirst THEN j ELSE k \div 2]
Done == stage \in {"zerox", "done"}
InvZxDefined   == ZeroxDefined(pk, tr) /\ Alternating(pk, tr)
InvOnePerFlank == Done => Len(zx[1]) + Len(zx[2]) = Len(All) - 1
InvInside      == Done => \A k \in 1 .. (Len(All) - 1) : Flanks[k][1] <= Mid(k) /\ Mid(k) <= Flanks[k][2]
\* a single crossing: the midpoint is the sample just before the signal crosses the half-height in the flank's direction
InvJustBefore  == Done => \A k \in 1 .. (Len(All) - 1) : LET f == Flanks[k] IN
                     FlankClass(sig, f[1], f[2], f[3]) = "single" =>
                        /\ Below(sig, f[1], f[2], f[3], Mid(k)) /\ ~Below(sig, f[1], f[2], f[3], Mid(k) + 1)
\* several crossings: floor of the temporal median, which lies between the first and the last crossing
InvMedian      == Done => \A k \in 1 .. (Len(All) - 1) : LET f == Flanks[k] IN
                     FlankClass(sig, f[1], f[2], f[3]) = "multi" =>
                        LET X == CrossingSet(sig, f[1], f[2], f[3]) IN
                        /\ f[1] + MinOf(X) <= Mid(k) /\ Mid(k) <= f[1] + MaxOf(X)
                        /\ 2 * Cardinality({ x \in X : f[1] + x <= Mid(k) }) >= Cardinality(X)
                        /\ 2 * Cardinality({ x \in X : f[1] + x > Mid(k) }) <= Cardinality(X)
InvCentre      == Done => \A k \in 1 .. (Len(All) - 1) : LET f == Flanks[k] IN
                     FlankClass(sig, f[1], f[2], f[3]) \in {"zero", "inverted"} => Mid(k) = Centre(f[1], f[2])
ImplAgrees     == agree
=============================================================================
