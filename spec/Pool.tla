--------------------------------- MODULE Pool ---------------------------------
(***************************************************************************)
(* The process pool behind the group analyses (C11, C12):                  *)
(* multiprocessing.Pool.imap with chunksize 1, as bycycle uses it.         *)
(*                                                                         *)
(*   Submit  - the task handler puts task k (1..T, in order) on the queue  *)
(*   Take(w) - an idle worker takes the HEAD of the queue                  *)
(*   Finish(w) - a running worker finishes: <<k, R(k)>> goes to the result *)
(*             queue.  Take and Finish are separate actions, so TLC        *)
(*             explores every completion order.                            *)
(*   Handle  - the result handler takes the head of the result queue: if   *)
(*             it is the next index it is released to the iterator together*)
(*             with every consecutive result parked before, else parked.   *)
(*   Consume - list(...) in the parent pops released results in order.     *)
(*                                                                         *)
(* HandleUnordered is the named deviation of imap_unordered (released in   *)
(* completion order); it is not part of Next and exists for the negative   *)
(* self-test (MC_PoolUnordered.cfg must violate Prefix).                   *)
(***************************************************************************)
EXTENDS Seqs

\* The actions are parameterised by the number of tasks T, the worker set and the result R of the finishing task, so that the
\* exhaustive configuration (MC_Pool: constants) and trace validation (Trace_Pool: per recorded case) share them verbatim.

VARIABLES submitted, queue, running, outq, parked, nextIdx, items, collected, finished
vars == <<submitted, queue, running, outq, parked, nextIdx, items, collected, finished>>

Idle == 0

PInit(W) == /\ submitted = 0 /\ queue = <<>> /\ running = [w \in 1 .. W |-> Idle] /\ outq = <<>>
            /\ parked = {} /\ nextIdx = 1 /\ items = <<>> /\ collected = <<>> /\ finished = <<>>

Submit(T) == /\ submitted < T
          /\ submitted' = submitted + 1
          /\ queue' = Append(queue, submitted + 1)
          /\ UNCHANGED <<running, outq, parked, nextIdx, items, collected, finished>>

Take(w) == /\ running[w] = Idle /\ queue # <<>>
           /\ running' = [running EXCEPT ![w] = Head(queue)]
           /\ queue' = Tail(queue)
           /\ UNCHANGED <<submitted, outq, parked, nextIdx, items, collected, finished>>

Finish(w, R(_)) == /\ running[w] # Idle
             /\ outq' = Append(outq, <<running[w], R(running[w])>>)
             /\ finished' = Append(finished, running[w])          \* history: completion order (hidden by the VIEW in MC configs)
             /\ running' = [running EXCEPT ![w] = Idle]
             /\ UNCHANGED <<submitted, queue, parked, nextIdx, items, collected>>

\* results parked under consecutive indices starting at i
RECURSIVE Flush(_, _)
Flush(P, i) == IF \E x \in P : x[1] = i THEN <<(CHOOSE x \in P : x[1] = i)[2]>> \o Flush(P, i + 1) ELSE <<>>

Handle == /\ outq # <<>>
          /\ LET x == Head(outq) IN
             IF x[1] = nextIdx
               THEN LET rel == <<x[2]>> \o Flush(parked, nextIdx + 1) IN
                    /\ items' = items \o rel
                    /\ nextIdx' = nextIdx + Len(rel)
                    /\ parked' = { y \in parked : y[1] >= nextIdx + Len(rel) }
               ELSE /\ parked' = parked \cup {x}
                    /\ UNCHANGED <<items, nextIdx>>
          /\ outq' = Tail(outq)
          /\ UNCHANGED <<submitted, queue, running, collected, finished>>

HandleUnordered == /\ outq # <<>>
                   /\ items' = Append(items, Head(outq)[2])
                   /\ nextIdx' = nextIdx + 1
                   /\ outq' = Tail(outq)
                   /\ UNCHANGED <<submitted, queue, running, parked, collected, finished>>

Consume == /\ items # <<>>
           /\ collected' = Append(collected, Head(items))
           /\ items' = Tail(items)
           /\ UNCHANGED <<submitted, queue, running, outq, parked, nextIdx, finished>>

\* results parked so far never hold the index the iterator is waiting for (otherwise it would have been flushed)
ParkedAhead == \A x \in parked : x[1] > nextIdx
StateView == <<submitted, queue, running, outq, parked, nextIdx, items, collected>>

(***************************************************************************)
(* Dispatch of the group analyses on top of the pool.  A signal is named   *)
(* by its position; Res(sig, opt) is the analysis of signal sig with       *)
(* option set opt.                                                         *)
(***************************************************************************)
\* 2-D: row i with the shared option set (opt 0) or with the i-th entry of the per-row list
Task2D(i, shared) == <<i, IF shared THEN 0 ELSE i>>
\* 3-D, axis (0, 1): flatten row-major, dispatch as 2-D, reshape with index (i-1)*n1 + j
FlatIndex(i, j, n1) == (i - 1) * n1 + j
Reshape(flat, n0, n1) == [i \in 1 .. n0 |-> [j \in 1 .. n1 |-> flat[FlatIndex(i, j, n1)]]]
\* 3-D, axis 1: tasks are the columns; the list of per-column results is transposed back
Transpose(cols, n0, n1) == [i \in 1 .. n0 |-> [j \in 1 .. n1 |-> cols[j][i]]]
=============================================================================
