----------------------------- MODULE EpochProof -----------------------------
(***************************************************************************)
(* Unbounded facts behind C13 (epoched analysis), proved with TLAPS for    *)
(* ALL epoch lengths and sample indices: the intervals ((e-1)L, eL] that   *)
(* assign a cycle to the epoch of its closing extremum are pairwise        *)
(* disjoint and cover every positive index - every cycle lands in exactly  *)
(* one epoch.  TLC checks Partition only for tables on <= 10 samples.      *)
(***************************************************************************)
EXTENDS Integers, TLAPS

InEpoch(x, L, e) == (e - 1) * L < x /\ x <= e * L

LEMMA MulMono == ASSUME NEW a \in Int, NEW b \in Int, NEW n \in Nat, a >= b PROVE a * n >= b * n
<1>1. (a - b) \in Nat
  OBVIOUS
<1>2. (a - b) * n \in Nat
  BY <1>1
<1>3. a * n = b * n + (a - b) * n
  OBVIOUS
<1> QED BY <1>2, <1>3

\* no index belongs to two epochs
THEOREM AtMostOneEpoch ==
  ASSUME NEW L \in Nat \ {0}, NEW x \in Int, NEW e \in Int, NEW f \in Int, InEpoch(x, L, e), InEpoch(x, L, f)
  PROVE  e = f
<1>1. CASE e < f
  <2>1. (f - 1) * L >= e * L
    BY <1>1, MulMono
  <2>2. x <= e * L /\ (f - 1) * L < x
    BY DEF InEpoch
  <2> QED BY <2>1, <2>2
<1>2. CASE f < e
  <2>1. (e - 1) * L >= f * L
    BY <1>2, MulMono
  <2>2. x <= f * L /\ (e - 1) * L < x
    BY DEF InEpoch
  <2> QED BY <2>1, <2>2
<1> QED BY <1>1, <1>2

\* every positive index belongs to an epoch, namely ((x-1) \div L) + 1; if x <= E*L that epoch is among the first E
THEOREM SomeEpoch ==
  ASSUME NEW L \in Nat \ {0}, NEW x \in Nat \ {0}
  PROVE  LET e == ((x - 1) \div L) + 1 IN e \in Nat \ {0} /\ InEpoch(x, L, e)
<1> DEFINE q == (x - 1) \div L
<1> DEFINE r == (x - 1) % L
<1>1. q \in Nat /\ r \in 0 .. (L - 1) /\ x - 1 = q * L + r
  OBVIOUS
<1>2. ((q + 1) - 1) * L = q * L /\ (q + 1) * L = q * L + L
  BY <1>1
<1>3. (q + 1) \in Nat \ {0}
  BY <1>1
<1>4. ((q + 1) - 1) * L < x /\ x <= (q + 1) * L
  BY <1>1, <1>2
<1> QED BY <1>3, <1>4 DEF InEpoch

THEOREM WithinTheSignal ==
  ASSUME NEW L \in Nat \ {0}, NEW E \in Nat, NEW x \in Nat \ {0}, x <= E * L, NEW e \in Int, InEpoch(x, L, e)
  PROVE  e <= E
<1>1. CASE e > E
  <2>1. (e - 1) * L >= E * L
    BY <1>1, MulMono
  <2>2. (e - 1) * L < x
    BY DEF InEpoch
  <2> QED BY <2>1, <2>2
<1> QED BY <1>1
=============================================================================
