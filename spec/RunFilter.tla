----------------------------- MODULE RunFilter -----------------------------
(***************************************************************************)
(* The minimum-run filter of burst detection (check_min_burst_cycles).     *)
(* Three definitions of the same function:                                 *)
(*   MinRun      - the property's own words (maximal runs of TRUE);        *)
(*   MinRunFold  - run lengths by one left and one right fold (fast; used  *)
(*                 on long recorded arrays);                               *)
(*   a scanning state machine (variables below) that walks the array once  *)
(*                 and clears a run when it ends too short.                *)
(* MC_RunFilter checks that all three agree and satisfy C08.               *)
(***************************************************************************)
EXTENDS Seqs

MaxRuns(b) == { w \in (1 .. Len(b)) \X (1 .. Len(b)) :
                  /\ w[1] <= w[2]
                  /\ \A i \in w[1] .. w[2] : b[i]
                  /\ (w[1] = 1 \/ ~b[w[1] - 1])
                  /\ (w[2] = Len(b) \/ ~b[w[2] + 1]) }

MinRun(b, m) == Strict([i \in 1 .. Len(b) |-> \E w \in MaxRuns(b) : w[1] <= i /\ i <= w[2] /\ w[2] - w[1] + 1 >= m])

\* run length ending at / starting at every position
RunLeft(b)  == FoldLeft(LAMBDA acc, x : Append(acc, IF x THEN (IF acc = <<>> THEN 0 ELSE acc[Len(acc)]) + 1 ELSE 0), <<>>, b)
RunRight(b) == Reverse(RunLeft(Reverse(b)))
MinRunFold(b, m) == LET l == RunLeft(b)  r == RunRight(b) IN
                    Strict([i \in 1 .. Len(b) |-> b[i] /\ l[i] + r[i] - 1 >= m])

\* ---- what C08 states about an output o for input b and minimum m ----
SameLength(b, o)   == Len(o) = Len(b)
LongKept(b, m, o)  == \A w \in MaxRuns(b) : w[2] - w[1] + 1 >= m => \A i \in w[1] .. w[2] : o[i]
ShortCleared(b, m, o) == \A w \in MaxRuns(b) : w[2] - w[1] + 1 < m => \A i \in w[1] .. w[2] : ~o[i]
NoFalseToTrue(b, o) == \A i \in 1 .. Len(b) : o[i] => b[i]
C08Holds(b, m, o)  == SameLength(b, o) /\ LongKept(b, m, o) /\ ShortCleared(b, m, o) /\ NoFalseToTrue(b, o)
=============================================================================
