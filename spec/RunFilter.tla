----------------------------- MODULE RunFilter -----------------------------
(***************************************************************************)
(* The minimum-run filter of burst detection (check_min_burst_cycles).     *)
(* Three definitions of the same function:                                 *)
(*   MinRun      - the property's own words (maximal runs of TRUE);        *)
(*   MinRunFold  - run lengths by one left and one right fold (fast; used  *)
(*                 on long recorded arrays);                               *)
(*   a scanning state machine (variables below) that walks the array once  *)
(*                 and clears a run when it ends too short.                *)
(* MC_RunFilter checks that all three agree and satisfy C08.               *)
(***************************************************************************)
EXTENDS Seqs

MaxRuns(b) == { w \in (1 .. Len(b)) \X (1 .. Len(b)) :
                  /\ w[1] <= w[2]
                  /\ \A i \in w[1] .. w[2] : b[i]
                  /\ (w[1] = 1 \/ ~b[w[1] - 1])
                  /\ (w[2] = Len(b) \/ ~b[w[2] + 1]) }

MinRun(b, m) == Strict([i \in 1 .. Len(b) |-> \E w \in MaxRuns(b) : w[1] <= i /\ i <= w[2] /\ w[2] - w[1] + 1 >= m])

\* run length ending at / starting at every position
RunLeft(b)  == FoldLeft(LAMBDA acc, x : Append(acc, IF x THEN (IF acc = <<>> THEN 0 ELSE acc[Len(acc)]) + 1 ELSE 0), <<>>, b)
RunRight(b) == Reverse(RunLeft(Reverse(b)))
MinRunFold(b, m) == LET l == RunLeft(b)  r == RunRight(b) IN
                    Strict([i \in 1 .. Len(b) |-> b[i] /\ l[i] + r[i] - 1 >= m])

\* ---- run-length coding, for arrays far too long to enumerate element by element (runs of 2^15, 2^16 and more elements) ----
\* r: sequence of <<value, length>> of the maximal constant runs of an array.  A TRUE run keeps all its elements when it is long
\* enough and none otherwise; a FALSE run never gains one.  MC_RunFilter checks that this is MinRun seen through the coding.
Encode(b) == FoldLeft(LAMBDA acc, x : IF acc # <<>> /\ acc[Len(acc)][1] = x THEN [acc EXCEPT ![Len(acc)][2] = @ + 1] ELSE Append(acc, <<x, 1>>), <<>>, b)
KeptPerRun(r, m) == Strict([k \in 1 .. Len(r) |-> IF r[k][1] /\ r[k][2] >= m THEN r[k][2] ELSE 0])
RunStart(r, k) == 1 + FoldLeft(LAMBDA acc, j : acc + r[j][2], 0, Strict([j \in 1 .. (k - 1) |-> j]))
TruePerRun(r, o) == Strict([k \in 1 .. Len(r) |-> Cardinality({ i \in RunStart(r, k) .. (RunStart(r, k) + r[k][2] - 1) : o[i] })])

\* ---- what C08 states about an output o for input b and minimum m ----
SameLength(b, o)   == Len(o) = Len(b)
LongKept(b, m, o)  == \A w \in MaxRuns(b) : w[2] - w[1] + 1 >= m => \A i \in w[1] .. w[2] : o[i]
ShortCleared(b, m, o) == \A w \in MaxRuns(b) : w[2] - w[1] + 1 < m => \A i \in w[1] .. w[2] : ~o[i]
NoFalseToTrue(b, o) == \A i \in 1 .. Len(b) : o[i] => b[i]
C08Holds(b, m, o)  == SameLength(b, o) /\ LongKept(b, m, o) /\ ShortCleared(b, m, o) /\ NoFalseToTrue(b, o)
=============================================================================
