"""C06 counterexample 2 (lower confidence): missing values stored as pd.NA (nullable 'Float64' columns).

usage: python cex_2.py <path to source tree>      exit 1 = violation shows, 0 = not

A cycle table whose burst-feature columns use pandas' nullable float dtype (what ``DataFrame.convert_dtypes()`` or
``read_csv(..., dtype_backend='numpy_nullable')`` produce), with ONE missing value in an interior cycle.
By the rule a cycle with a missing feature does not exceed the threshold, so it is simply not a burst cycle and the
remaining cycles are labelled by run length.  The same table with the missing value stored as float NaN is handled
that way.  With pd.NA, detect_bursts_cycles raises ``TypeError: boolean value of NA is ambiguous`` (the comparison
gives <NA>, ``&`` keeps it, ``.to_numpy()`` gives an object array and ``np.diff`` / ``np.flatnonzero`` in
check_min_burst_cycles choke on it) - no labels at all.

Expected labels are recomputed independently (exact Python comparisons, missing -> not exceeding).
"""
import sys
import warnings

sys.path.insert(0, sys.argv[1] if len(sys.argv) > 1 else '.')
warnings.simplefilter('ignore')

import numpy as np
import pandas as pd
from bycycle.burst import detect_bursts_cycles

COLS = ['amp_fraction', 'amp_consistency', 'period_consistency', 'monotonicity']
THR = [0., .5, .5, .8]
MIN_N = 3


def oracle(df):
    n = len(df)
    qual = []
    for i in range(n):
        ok = 0 < i < n - 1
        for col, t in zip(COLS, THR):
            v = df[col].iloc[i]
            v = float('nan') if pd.isna(v) else float(v)
            ok = ok and (v > t)
        qual.append(ok)
    out = [False] * n
    i = 0
    while i < n:
        if qual[i]:
            j = i
            while j < n and qual[j]:
                j += 1
            if j - i >= MIN_N:
                out[i:j] = [True] * (j - i)
            i = j
        else:
            i += 1
    return out


n = 10
df_nan = pd.DataFrame({c: np.ones(n) for c in COLS})
df_nan.loc[4, 'monotonicity'] = np.nan            # interior cycle with a missing feature
df_na = df_nan.astype('Float64')                  # same table, nullable dtype (NaN -> <NA>)
assert df_na['monotonicity'].isna().sum() == 1

expected = oracle(df_na)
print('expected            ', expected)

got_nan = detect_bursts_cycles(df_nan.copy())['is_burst'].tolist()
print('float64 / NaN table ', got_nan)

try:
    got_na = detect_bursts_cycles(df_na.copy())['is_burst'].tolist()
    print('Float64 / <NA> table', got_na)
except Exception as exc:  # noqa
    got_na = None
    print('Float64 / <NA> table raised', type(exc).__name__ + ':', exc)

if got_nan != expected or got_na != expected:
    print('VIOLATION: labels for the nullable table are not the ones the rule prescribes')
    sys.exit(1)
print('no violation')
sys.exit(0)
