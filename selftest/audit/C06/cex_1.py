"""C06 counterexample 1: float32 cycle table, thresholds compared in float32 when given as Python floats.

usage: python cex_1.py <path to source tree>      exit 1 = violation shows, 0 = not

A cycle table whose four burst-feature columns are stored as float32 (e.g. a table the caller down-cast with
``df.astype('float32')`` to save memory, or read back from a float32 file).  Interior cycles have
monotonicity == np.float32(0.8) == 0.800000011920929 (exact value), all other features are 1.0.

(a) threshold 0.8 (Python float, the documented default): 0.800000011920929 > 0.8 strictly, all other thresholds are
    exceeded, so cycles 1..5 form a run of 5 >= 3 and must be labelled.  The library labels none, because numpy 2
    ("weak" Python scalars) casts the threshold to float32 before comparing: float32(0.8) > float32(0.8) is False.
(b) the very same threshold value passed as np.float64(0.8) labels cycles 1..5 - labels depend on the Python type of
    the threshold, not on its value.
(c) "raising a threshold can only remove labels": raising the monotonicity threshold from 0.8 (Python float) to
    np.float64(0.80000001) ADDS five labels on the fixed table.

The expected labels are recomputed independently below with exact Python-float comparisons.
"""
import sys
import warnings

sys.path.insert(0, sys.argv[1] if len(sys.argv) > 1 else '.')
warnings.simplefilter('ignore')

import numpy as np
import pandas as pd
from bycycle.burst import detect_bursts_cycles

COLS = ['amp_fraction', 'amp_consistency', 'period_consistency', 'monotonicity']


def oracle(df, thr, min_n):
    """Threshold-and-run rule, evaluated on the exact (float -> Python float) values of the table."""
    n = len(df)
    qual = []
    for i in range(n):
        ok = 0 < i < n - 1
        for col, t in zip(COLS, thr):
            v = float(df[col].iloc[i])          # exact: every float32 is a float64
            ok = ok and (v > float(t))          # NaN > t is False
        qual.append(ok)
    out = [False] * n
    i = 0
    while i < n:
        if qual[i]:
            j = i
            while j < n and qual[j]:
                j += 1
            if j - i >= min_n:
                out[i:j] = [True] * (j - i)
            i = j
        else:
            i += 1
    return out


def table():
    n = 7
    data = {c: np.ones(n, dtype=np.float32) for c in COLS}
    data['monotonicity'] = np.full(n, np.float32(0.8), dtype=np.float32)
    return pd.DataFrame(data)


def labels(mono_thr):
    df = detect_bursts_cycles(table(), amp_fraction_threshold=0., amp_consistency_threshold=.5,
                              period_consistency_threshold=.5, monotonicity_threshold=mono_thr,
                              min_n_cycles=3)
    return df['is_burst'].tolist()


violations = []

# (a) Python-float threshold 0.8
exp_a = oracle(table(), [0., .5, .5, 0.8], 3)
got_a = labels(0.8)
print('value in table      :', repr(float(table()['monotonicity'].iloc[1])), '> 0.8 is',
      float(table()['monotonicity'].iloc[1]) > 0.8)
print('(a) thr=0.8 (float)      expected', exp_a, '\n                         got     ', got_a)
if got_a != exp_a:
    violations.append('(a) qualifying cycles missed with Python-float threshold')

# (b) same value, numpy float64 scalar
exp_b = oracle(table(), [0., .5, .5, np.float64(0.8)], 3)
got_b = labels(np.float64(0.8))
print('(b) thr=np.float64(0.8)  expected', exp_b, '\n                         got     ', got_b)
if got_b != exp_b:
    violations.append('(b) wrong labels with np.float64 threshold')
if got_a != got_b:
    violations.append('(b) labels depend on the type (float vs np.float64) of an equal threshold value')

# (c) raising the threshold adds labels
low, high = 0.8, np.float64(0.80000001)
assert float(high) > float(low) and 0 <= high <= 1
got_low, got_high = labels(low), labels(high)
added = [i for i, (a, b) in enumerate(zip(got_low, got_high)) if b and not a]
print('(c) thr 0.8 -> np.float64(0.80000001): labels added at rows', added)
if added:
    violations.append('(c) raising monotonicity_threshold added burst labels on a fixed table')

if violations:
    print('VIOLATION:')
    for v in violations:
        print('  -', v)
    sys.exit(1)
print('no violation')
sys.exit(0)
