"""C19 cex 1: compute_features_2d(axis=None) with a per-epoch option list silently accepts unknown
burst_method / center_extrema / first_extrema and reversed amp_threshes in every entry but the first.

Oracle (independent): an option dictionary is 'invalid' iff compute_features(sig, fs, f_range, **entry)
itself raises ValueError on one epoch.  The statement then demands ValueError from compute_features_2d
wherever that entry sits in the list; we also show that axis=0 does reject the very same list.
Exit 1 when any invalid entry is accepted (a list of tables is returned)."""
import sys
import warnings
import numpy as np
sys.path.insert(0, sys.argv[1] if len(sys.argv) > 1 else '/tmp/audit/C19/repo')
warnings.simplefilter('ignore')
import matplotlib
matplotlib.use('Agg')

def make_sig(n_seconds=4, fs=500, freq=10, seed=0):
    """Deterministic amplitude-modulated 10 Hz signal with a little noise."""
    rng = np.random.RandomState(seed)
    t = np.arange(int(n_seconds * fs)) / fs
    env = 1.0 + 0.6 * np.sin(2 * np.pi * 0.7 * t + seed)
    return env * np.sin(2 * np.pi * freq * t + 0.3 * seed) + 0.05 * rng.randn(len(t))

def outcome(func):
    """Return ('ValueError', exc) / ('returned', value) / ('other:<Type>', exc)."""
    try:
        val = func()
    except ValueError as exc:
        return 'ValueError', exc
    except Exception as exc:  # noqa
        return 'other:' + type(exc).__name__, exc
    return 'returned', val
import numpy as np
from bycycle.features import compute_features
from bycycle.group import compute_features_2d

def main():
    fs, f_range = 500, (8, 12)
    sigs = np.array([make_sig(seed=k) for k in range(3)])
    tk = {'amp_fraction_threshold': .2, 'amp_consistency_threshold': .4,
          'period_consistency_threshold': .4, 'monotonicity_threshold': .6, 'min_n_cycles': 2}
    good_cyc = {'threshold_kwargs': dict(tk)}
    good_amp = {'burst_method': 'amp', 'threshold_kwargs': {'burst_fraction_threshold': 1}}
    cases = [
        ('unknown burst_method', good_cyc, {'burst_method': 'bogus', 'threshold_kwargs': dict(tk)}),
        ('unknown center_extrema', good_cyc, {'center_extrema': 'bogus', 'threshold_kwargs': dict(tk)}),
        ('unknown first_extrema', good_cyc, {'find_extrema_kwargs': {'first_extrema': 'bogus'},
                                             'threshold_kwargs': dict(tk)}),
        ('reversed amp_threshes', good_amp, {'burst_method': 'amp', 'burst_kwargs': {'amp_threshes': (2, 1)},
                                             'threshold_kwargs': {'burst_fraction_threshold': 1}}),
    ]
    violated = False
    for label, good, bad in cases:
        # the entry is invalid on its own account
        alone, _ = outcome(lambda: compute_features(sigs[1], fs, f_range, **bad))
        assert alone == 'ValueError', (label, alone)
        # the good entry is valid on its own account
        assert outcome(lambda: compute_features(sigs[0], fs, f_range, **good))[0] == 'returned'
        for pos in (0, 1, 2):
            lst = [dict(good) for _ in range(3)]
            lst[pos] = dict(bad)
            got_none, val = outcome(lambda: compute_features_2d(sigs, fs, f_range, lst, axis=None))
            got_zero, _ = outcome(lambda: compute_features_2d(sigs, fs, f_range, lst, axis=0, n_jobs=1))
            flag = ''
            if got_none == 'returned':
                violated = True
                flag = '  <-- VIOLATION: %d tables returned' % len(val)
            print('%-24s entry %d: axis=None -> %-10s axis=0 -> %-10s%s' % (label, pos, got_none, got_zero, flag))
    return 1 if violated else 0

if __name__ == '__main__':
    sys.exit(main())
