"""C19 cex 4: a sampling rate of exactly 0 (non-positive) is accepted by limit_df (a table is returned) and by
plot_burst_detect_param (a figure is drawn).  Both call check_param_range(fs, 'fs', (0, np.inf)), whose test
is `param < 0 or param > inf`, i.e. the closed interval: 0 passes.  (In compute_features / find_extrema /
compute_cyclepoints the same hole is masked only because neurodsp's filter design raises ValueError later.)

Oracle (independent): fs <= 0 is non-positive; fs = -1 must and does raise ValueError at the same entry points.
Exit 1 when fs = 0 / 0.0 / -0.0 returns instead of raising ValueError."""
import sys
import warnings
import numpy as np
sys.path.insert(0, sys.argv[1] if len(sys.argv) > 1 else '/tmp/audit/C19/repo')
warnings.simplefilter('ignore')
import matplotlib
matplotlib.use('Agg')

def make_sig(n_seconds=4, fs=500, freq=10, seed=0):
    """Deterministic amplitude-modulated 10 Hz signal with a little noise."""
    rng = np.random.RandomState(seed)
    t = np.arange(int(n_seconds * fs)) / fs
    env = 1.0 + 0.6 * np.sin(2 * np.pi * 0.7 * t + seed)
    return env * np.sin(2 * np.pi * freq * t + 0.3 * seed) + 0.05 * rng.randn(len(t))

def outcome(func):
    """Return ('ValueError', exc) / ('returned', value) / ('other:<Type>', exc)."""
    try:
        val = func()
    except ValueError as exc:
        return 'ValueError', exc
    except Exception as exc:  # noqa
        return 'other:' + type(exc).__name__, exc
    return 'returned', val
import numpy as np
import matplotlib.pyplot as plt
from bycycle.features import compute_features
from bycycle.utils import limit_df
from bycycle.plts import plot_burst_detect_param

def main():
    fs, f_range = 500, (8, 12)
    sig = make_sig(seed=0)
    tk = {'amp_fraction_threshold': .2, 'amp_consistency_threshold': .4,
          'period_consistency_threshold': .4, 'monotonicity_threshold': .6, 'min_n_cycles': 2}
    df = compute_features(sig, fs, f_range, threshold_kwargs=tk)
    violated = False
    for bad in (-1, 0, 0.0, -0.0, np.float64(0), np.int64(0)):
        assert not bad > 0   # non-positive
        routes = [
            ('limit_df(df, fs)', lambda: limit_df(df.copy(), bad)),
            ('limit_df(df, fs, start=0, stop=1)', lambda: limit_df(df.copy(), bad, start=0, stop=1)),
            ('limit_df(df, fs, start=1, stop=2, reset_indices=False)', lambda: limit_df(df.copy(), bad, start=1, stop=2, reset_indices=False)),
            ('plot_burst_detect_param(df, sig, fs, "monotonicity", .6)', lambda: plot_burst_detect_param(df.copy(), sig, bad, 'monotonicity', .6)),
        ]
        for label, call in routes:
            got, val = outcome(call)
            plt.close('all')
            flag = ''
            if got != 'ValueError':
                violated = True
                flag = '  <-- VIOLATION' + (' (table with %d rows)' % len(val) if hasattr(val, 'shape') else '')
            print('fs=%-16r %-58s -> %s%s' % (bad, label, got, flag))
    return 1 if violated else 0

if __name__ == '__main__':
    sys.exit(main())
