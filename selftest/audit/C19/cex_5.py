"""C19 cex 5: unknown enumerated values that are silently accepted by table-returning public helpers.

(a) rename_extrema_df(center_extrema, df): documented {'trough', 'peak'}; any other value ('Trough', 'bogus',
    None, 0) falls through `if center_extrema == 'trough'` (utils/dataframes.py:144) and the table is returned
    unchanged, i.e. treated as 'peak'.
(b) recompute_edges(df, thresholds, burst_method=...): the parameter is never looked at (burst/utils.py:60-124);
    'bogus' (and 'amp') are analysed with the cycles detector and a table is returned.

Oracle (independent): value not in the documented option set; the library itself raises ValueError for the same
value in compute_shape_features (center_extrema) / compute_burst_features (burst_method).
Exit 1 when a table is returned for an unknown value."""
import sys
import warnings
import numpy as np
sys.path.insert(0, sys.argv[1] if len(sys.argv) > 1 else '/tmp/audit/C19/repo')
warnings.simplefilter('ignore')
import matplotlib
matplotlib.use('Agg')

def make_sig(n_seconds=4, fs=500, freq=10, seed=0):
    """Deterministic amplitude-modulated 10 Hz signal with a little noise."""
    rng = np.random.RandomState(seed)
    t = np.arange(int(n_seconds * fs)) / fs
    env = 1.0 + 0.6 * np.sin(2 * np.pi * 0.7 * t + seed)
    return env * np.sin(2 * np.pi * freq * t + 0.3 * seed) + 0.05 * rng.randn(len(t))

def outcome(func):
    """Return ('ValueError', exc) / ('returned', value) / ('other:<Type>', exc)."""
    try:
        val = func()
    except ValueError as exc:
        return 'ValueError', exc
    except Exception as exc:  # noqa
        return 'other:' + type(exc).__name__, exc
    return 'returned', val
import numpy as np
from bycycle.features import compute_features, compute_shape_features, compute_burst_features
from bycycle.utils import rename_extrema_df
from bycycle.burst.utils import recompute_edges

def main():
    fs, f_range = 500, (8, 12)
    sig = make_sig(seed=0)
    tk = {'amp_fraction_threshold': .2, 'amp_consistency_threshold': .4,
          'period_consistency_threshold': .4, 'monotonicity_threshold': .6, 'min_n_cycles': 2}
    df = compute_features(sig, fs, f_range, threshold_kwargs=tk)
    df_shape = compute_shape_features(sig, fs, f_range)
    violated = False
    for bad in ('bogus', 'Trough', 'troughs', '', None, 0):
        assert bad not in ('peak', 'trough')
        assert outcome(lambda: compute_shape_features(sig, fs, f_range, center_extrema=bad))[0] == 'ValueError'
        got, val = outcome(lambda: rename_extrema_df(bad, df.copy()))
        flag = ''
        if got != 'ValueError':
            violated = True
            flag = '  <-- VIOLATION (table %s returned, unchanged: %s)' % (val.shape, val.equals(df))
        print('rename_extrema_df(center_extrema=%r) -> %s%s' % (bad, got, flag))
    for bad in ('bogus', 'Cycles', '', None, 0):
        assert bad not in ('cycles', 'amp')
        assert outcome(lambda: compute_burst_features(df_shape, sig, burst_method=bad))[0] == 'ValueError'
        got, val = outcome(lambda: recompute_edges(df.copy(), dict(tk), burst_method=bad))
        flag = ''
        if got != 'ValueError':
            violated = True
            flag = '  <-- VIOLATION (table %s returned)' % (val.shape,)
        print('recompute_edges(burst_method=%r) -> %s%s' % (bad, got, flag))
    return 1 if violated else 0

if __name__ == '__main__':
    sys.exit(main())
