"""C19 cex 2: an unknown `progress` value is accepted when axis=None (2-D input), although the same value
raises ValueError for every other axis / dimensionality.

Oracle (independent): a progress value is 'unknown' iff it is neither None nor one of the documented
{'tqdm', 'tqdm.notebook'}; the library's own progress_bar() is also asked and must raise ValueError.
Exit 1 when compute_features_2d(..., axis=None, progress=<unknown>) or BycycleGroup.fit(..., axis=None,
progress=<unknown>) returns tables instead of raising ValueError."""
import sys
import warnings
import numpy as np
sys.path.insert(0, sys.argv[1] if len(sys.argv) > 1 else '/tmp/audit/C19/repo')
warnings.simplefilter('ignore')
import matplotlib
matplotlib.use('Agg')

def make_sig(n_seconds=4, fs=500, freq=10, seed=0):
    """Deterministic amplitude-modulated 10 Hz signal with a little noise."""
    rng = np.random.RandomState(seed)
    t = np.arange(int(n_seconds * fs)) / fs
    env = 1.0 + 0.6 * np.sin(2 * np.pi * 0.7 * t + seed)
    return env * np.sin(2 * np.pi * freq * t + 0.3 * seed) + 0.05 * rng.randn(len(t))

def outcome(func):
    """Return ('ValueError', exc) / ('returned', value) / ('other:<Type>', exc)."""
    try:
        val = func()
    except ValueError as exc:
        return 'ValueError', exc
    except Exception as exc:  # noqa
        return 'other:' + type(exc).__name__, exc
    return 'returned', val
import numpy as np
from bycycle.group import compute_features_2d, compute_features_3d
from bycycle.group.utils import progress_bar
from bycycle import BycycleGroup

def main():
    fs, f_range = 500, (8, 12)
    sigs = np.array([make_sig(seed=k) for k in range(2)])
    tk = {'amp_fraction_threshold': .2, 'amp_consistency_threshold': .4,
          'period_consistency_threshold': .4, 'monotonicity_threshold': .6, 'min_n_cycles': 2}
    kw = {'threshold_kwargs': tk}
    documented = (None, 'tqdm', 'tqdm.notebook')
    violated = False
    for prog in ['bogus', 'TQDM', '', 0, False, True]:
        assert not any(prog is d or (isinstance(prog, str) and prog == d) for d in documented)  # unknown by the documentation
        assert outcome(lambda: progress_bar([], prog, 0))[0] == 'ValueError'
        rows = [
            ('compute_features_2d axis=0', lambda: compute_features_2d(sigs, fs, f_range, kw, axis=0, n_jobs=1, progress=prog)),
            ('compute_features_3d axis=0', lambda: compute_features_3d(sigs[None], fs, f_range, kw, axis=0, n_jobs=1, progress=prog)),
            ('compute_features_3d axis=(0,1)', lambda: compute_features_3d(sigs[None], fs, f_range, kw, axis=(0, 1), n_jobs=1, progress=prog)),
            ('compute_features_2d axis=None', lambda: compute_features_2d(sigs, fs, f_range, kw, axis=None, n_jobs=1, progress=prog)),
            ('BycycleGroup.fit   axis=None', lambda: BycycleGroup(thresholds=dict(tk)).fit(sigs, fs, f_range, axis=None, n_jobs=1, progress=prog)),
        ]
        for label, call in rows:
            got, _ = outcome(call)
            flag = ''
            if got != 'ValueError':
                violated = True
                flag = '  <-- VIOLATION'
            print('progress=%-8r %-32s -> %s%s' % (prog, label, got, flag))
    return 1 if violated else 0

if __name__ == '__main__':
    sys.exit(main())
