"""C19 cex 3: a negative min_n_cycles is not rejected on three public routes.

(a) compute_burst_features(..., burst_method='amp', burst_kwargs={..., 'min_n_cycles': -1}) and
    compute_burst_fraction(..., min_n_cycles=-1) return a burst_fraction table / list (features/burst.py:366-380:
    range checks for fs and amp_threshes only; neurodsp does not check min_n_cycles).
(b) compute_features(burst_method='amp', threshold_kwargs={'min_n_cycles': -1}, burst_kwargs={'min_n_cycles': 3}):
    features/features.py:141-142 overwrites the caller's negative value with the one of burst_kwargs, so the
    invalid setting is silently dropped and a table is returned.
(c) an empty cycle table: check_min_burst_cycles returns before its range check (burst/utils.py:38-42), so
    detect_bursts_cycles / detect_bursts_amp accept min_n_cycles=-1; reachable through
    compute_features_2d(axis=None, per-epoch list) for every epoch in which no cycle ends.

Oracle (independent): the value is negative (v < 0), and the same value is rejected with ValueError by
detect_bursts_cycles on a non-empty table.  Exit 1 when any route returns instead of raising ValueError."""
import sys
import warnings
import numpy as np
sys.path.insert(0, sys.argv[1] if len(sys.argv) > 1 else '/tmp/audit/C19/repo')
warnings.simplefilter('ignore')
import matplotlib
matplotlib.use('Agg')

def make_sig(n_seconds=4, fs=500, freq=10, seed=0):
    """Deterministic amplitude-modulated 10 Hz signal with a little noise."""
    rng = np.random.RandomState(seed)
    t = np.arange(int(n_seconds * fs)) / fs
    env = 1.0 + 0.6 * np.sin(2 * np.pi * 0.7 * t + seed)
    return env * np.sin(2 * np.pi * freq * t + 0.3 * seed) + 0.05 * rng.randn(len(t))

def outcome(func):
    """Return ('ValueError', exc) / ('returned', value) / ('other:<Type>', exc)."""
    try:
        val = func()
    except ValueError as exc:
        return 'ValueError', exc
    except Exception as exc:  # noqa
        return 'other:' + type(exc).__name__, exc
    return 'returned', val
import numpy as np
from bycycle.features import compute_features, compute_shape_features, compute_burst_features
from bycycle.features.burst import compute_burst_fraction
from bycycle.burst import detect_bursts_cycles, detect_bursts_amp
from bycycle.burst.utils import check_min_burst_cycles
from bycycle.group import compute_features_2d

def main():
    fs, f_range = 500, (8, 12)
    sig = make_sig(seed=0)
    tk = {'amp_fraction_threshold': .2, 'amp_consistency_threshold': .4,
          'period_consistency_threshold': .4, 'monotonicity_threshold': .6}
    df = compute_features(sig, fs, f_range, threshold_kwargs=dict(tk, min_n_cycles=2))
    df_shape = compute_shape_features(sig, fs, f_range)
    df_amp = compute_features(sig, fs, f_range, burst_method='amp', threshold_kwargs={'burst_fraction_threshold': 1})
    violated = False
    for v in (-1, -0.5, -100):
        assert v < 0
        # reference: the library does reject this value where it checks it
        assert outcome(lambda: detect_bursts_cycles(df.copy(), min_n_cycles=v, **tk))[0] == 'ValueError'
        routes = [
            ('(a) compute_burst_features amp', lambda: compute_burst_features(
                df_shape, sig, burst_method='amp', burst_kwargs={'fs': fs, 'f_range': f_range, 'min_n_cycles': v})),
            ('(a) compute_burst_fraction', lambda: compute_burst_fraction(df_shape, sig, fs, f_range, min_n_cycles=v)),
            ('(b) compute_features amp, thresholds say %r, burst_kwargs say 3' % v, lambda: compute_features(
                sig, fs, f_range, burst_method='amp', burst_kwargs={'min_n_cycles': 3},
                threshold_kwargs={'burst_fraction_threshold': 1, 'min_n_cycles': v})),
            ('(c) detect_bursts_cycles on an empty table', lambda: detect_bursts_cycles(df.iloc[:0].copy(), min_n_cycles=v, **tk)),
            ('(c) detect_bursts_amp on an empty table', lambda: detect_bursts_amp(df_amp.iloc[:0].copy(), min_n_cycles=v)),
            ('(c) check_min_burst_cycles on an empty array', lambda: check_min_burst_cycles(np.array([], dtype=bool), v)),
        ]
        for label, call in routes:
            got, _ = outcome(call)
            flag = ''
            if got != 'ValueError':
                violated = True
                flag = '  <-- VIOLATION'
            print('min_n_cycles=%-5r %-62s -> %s%s' % (v, label, got, flag))

    # (c) through the group function: epochs of 40 samples (shorter than one 10 Hz cycle of 50 samples)
    epochs = make_sig(seed=1)[:960].reshape(-1, 40)
    base = {'threshold_kwargs': dict(tk, min_n_cycles=2)}
    ref = compute_features_2d(epochs, fs, f_range, base, axis=None)
    n_rows = [len(d) for d in ref]
    empty = [i for i, n in enumerate(n_rows) if n == 0 and i > 0]
    full = [i for i, n in enumerate(n_rows) if n > 0 and i > 0]
    print('cycles per epoch:', n_rows)
    for idx, kind in [(full[0], 'non-empty'), (empty[0], 'empty')]:
        lst = [dict(base) for _ in range(len(epochs))]
        lst[idx] = {'threshold_kwargs': dict(tk, min_n_cycles=-1)}
        got, _ = outcome(lambda: compute_features_2d(epochs, fs, f_range, lst, axis=None))
        flag = ''
        if got != 'ValueError':
            violated = True
            flag = '  <-- VIOLATION'
        print('compute_features_2d axis=None, min_n_cycles=-1 for %s epoch %d -> %s%s' % (kind, idx, got, flag))
    return 1 if violated else 0

if __name__ == '__main__':
    sys.exit(main())
