"""C19 cex 7 (lower confidence: 4-D lists are outside the explicitly enumerated None/dict/1-D/2-D/3-D grid, but
inside 'per-signal option lists whose shape does not match the array and axis'):
check_kwargs_shape only looks at kwargs.ndim == 2 and == 3 (group/utils.py:112-114).  A 4-D (or deeper) nested
list whose first extent equals the iterated extent of a 3-D array is accepted for axis=0 and axis=1, flattened
(group/features.py:255) and zipped with the 2-D slices - a (3, 2, 1, 1) list has 6 entries for 3 slices, so
slices 0, 1, 2 are analysed with entries [0][0], [0][1], [1][0] and the rest is dropped.

Oracle (independent): documented list shapes for a 3-D array are (n0,) for axis=0, (n1,) for axis=1 and
(n0, n1) for axis=(0, 1); any other numpy shape of the nested list does not match.
Exit 1 when a non-matching list is accepted (tables returned)."""
import sys
import warnings
import numpy as np
sys.path.insert(0, sys.argv[1] if len(sys.argv) > 1 else '/tmp/audit/C19/repo')
warnings.simplefilter('ignore')
import matplotlib
matplotlib.use('Agg')

def make_sig(n_seconds=4, fs=500, freq=10, seed=0):
    """Deterministic amplitude-modulated 10 Hz signal with a little noise."""
    rng = np.random.RandomState(seed)
    t = np.arange(int(n_seconds * fs)) / fs
    env = 1.0 + 0.6 * np.sin(2 * np.pi * 0.7 * t + seed)
    return env * np.sin(2 * np.pi * freq * t + 0.3 * seed) + 0.05 * rng.randn(len(t))

def outcome(func):
    """Return ('ValueError', exc) / ('returned', value) / ('other:<Type>', exc)."""
    try:
        val = func()
    except ValueError as exc:
        return 'ValueError', exc
    except Exception as exc:  # noqa
        return 'other:' + type(exc).__name__, exc
    return 'returned', val
import numpy as np
from bycycle.group import compute_features_3d

def documented(shape_sigs, axis, shape_list):
    n0, n1 = shape_sigs[:2]
    return shape_list == {0: (n0,), 1: (n1,), (0, 1): (n0, n1)}[axis]

def nested(shape, make):
    if not shape:
        return make()
    return [nested(shape[1:], make) for _ in range(shape[0])]

def main():
    fs, f_range = 500, (8, 12)
    sigs = np.array([[make_sig(n_seconds=2, seed=3 * i + j) for j in range(2)] for i in range(3)])  # (3, 2, T)
    counter = [0]
    def make():
        counter[0] += 1
        return {'threshold_kwargs': {'amp_fraction_threshold': round(.1 * counter[0], 1), 'amp_consistency_threshold': .4,
                                     'period_consistency_threshold': .4, 'monotonicity_threshold': .6, 'min_n_cycles': 2}}
    violated = False
    for axis, lshape in [(0, (3,)), (1, (2,)), ((0, 1), (3, 2)),            # controls: documented shapes
                         (0, (3, 2)), (0, (3, 2, 1)),                        # controls: rejected today
                         (0, (3, 1, 1, 1)), (0, (3, 2, 1, 1)), (1, (2, 3, 1, 1)), (0, (3, 1, 1, 1, 1)),
                         ((0, 1), (3, 2, 1, 1))]:
        counter[0] = 0
        lst = nested(lshape, make)
        assert np.array(lst).shape == lshape
        valid = documented(sigs.shape, axis, lshape)
        got, val = outcome(lambda: compute_features_3d(sigs, fs, f_range, lst, axis=axis, n_jobs=1))
        flag = ''
        if valid and got != 'returned':
            violated = True
            flag = '  <-- VIOLATION (documented shape rejected)'
        if not valid and got != 'ValueError':
            violated = True
            flag = '  <-- VIOLATION (non-matching list accepted)'
        print('sigs %s axis=%-6s list shape %-16s documented=%-5s -> %s%s' % (sigs.shape[:2], axis, lshape, valid, got, flag))
    return 1 if violated else 0

if __name__ == '__main__':
    sys.exit(main())
