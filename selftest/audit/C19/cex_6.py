"""C19 cex 6 (lower confidence, depends on reading NaN as 'outside [0, 1]' / 'not a valid count'):
NaN passes every range check, because check_param_range tests `param < lo or param > hi`, and both comparisons
are False for NaN.  A NaN threshold then makes every comparison `feature > nan` False, i.e. a table with
is_burst all False is silently produced; NaN amp_threshes likewise.

Oracle (independent): v is inside the closed interval iff lo <= v <= hi, which is False for NaN.
Exit 1 when a NaN setting returns a table instead of raising ValueError."""
import sys
import warnings
import numpy as np
sys.path.insert(0, sys.argv[1] if len(sys.argv) > 1 else '/tmp/audit/C19/repo')
warnings.simplefilter('ignore')
import matplotlib
matplotlib.use('Agg')

def make_sig(n_seconds=4, fs=500, freq=10, seed=0):
    """Deterministic amplitude-modulated 10 Hz signal with a little noise."""
    rng = np.random.RandomState(seed)
    t = np.arange(int(n_seconds * fs)) / fs
    env = 1.0 + 0.6 * np.sin(2 * np.pi * 0.7 * t + seed)
    return env * np.sin(2 * np.pi * freq * t + 0.3 * seed) + 0.05 * rng.randn(len(t))

def outcome(func):
    """Return ('ValueError', exc) / ('returned', value) / ('other:<Type>', exc)."""
    try:
        val = func()
    except ValueError as exc:
        return 'ValueError', exc
    except Exception as exc:  # noqa
        return 'other:' + type(exc).__name__, exc
    return 'returned', val
import numpy as np
from bycycle.features import compute_features
from bycycle.burst import detect_bursts_cycles, detect_bursts_amp

def inside(v, lo, hi):
    return bool(lo <= v <= hi)

def main():
    fs, f_range = 500, (8, 12)
    sig = make_sig(seed=0)
    nan = float('nan')
    assert not inside(nan, 0, 1) and not inside(nan, 0, np.inf)
    tk = {'amp_fraction_threshold': .2, 'amp_consistency_threshold': .4,
          'period_consistency_threshold': .4, 'monotonicity_threshold': .6, 'min_n_cycles': 2}
    violated = False
    routes = []
    for key in ('amp_fraction_threshold', 'amp_consistency_threshold', 'period_consistency_threshold',
                'monotonicity_threshold', 'min_n_cycles'):
        routes.append(('compute_features cycles, %s=nan' % key,
                       lambda key=key: compute_features(sig, fs, f_range, threshold_kwargs=dict(tk, **{key: nan}))))
    routes.append(('compute_features amp, burst_fraction_threshold=nan',
                   lambda: compute_features(sig, fs, f_range, burst_method='amp',
                                            threshold_kwargs={'burst_fraction_threshold': nan})))
    routes.append(('compute_features amp, amp_threshes=(nan, 2)',
                   lambda: compute_features(sig, fs, f_range, burst_method='amp', burst_kwargs={'amp_threshes': (nan, 2)},
                                            threshold_kwargs={'burst_fraction_threshold': 1})))
    routes.append(('compute_features amp, amp_threshes=(1, nan)',
                   lambda: compute_features(sig, fs, f_range, burst_method='amp', burst_kwargs={'amp_threshes': (1, nan)},
                                            threshold_kwargs={'burst_fraction_threshold': 1})))
    for label, call in routes:
        got, val = outcome(call)
        flag = ''
        if got != 'ValueError':
            violated = True
            flag = '  <-- VIOLATION'
            if hasattr(val, 'columns'):
                flag += ' (table, %d of %d cycles bursting)' % (int(val['is_burst'].sum()), len(val))
        print('%-58s -> %s%s' % (label, got, flag))
    return 1 if violated else 0

if __name__ == '__main__':
    sys.exit(main())
