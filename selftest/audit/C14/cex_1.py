"""C14 cex 1: a threshold edit that uses the documented shorthand names is not expanded.

Bycycle(thresholds={'monotonicity': .9, ...}) expands shorthand names only inside __init__.
After construction, re-binding (bm.thresholds = {...shorthand...}) or an in-place edit with the
name the user used at construction (bm.thresholds['monotonicity'] = .9) leaves an un-expanded key:
fit() raises TypeError, whereas a freshly constructed object with exactly the current settings fits and
gives the table of compute_features with the expanded names.
usage: python cex_1.py <source tree>; exit 1 = violation shows.
"""
import sys, copy, warnings
sys.path.insert(0, sys.argv[1] if len(sys.argv) > 1 else '.')
warnings.simplefilter('ignore')
import numpy as np
from neurodsp.sim import sim_bursty_oscillation, sim_powerlaw
from bycycle import Bycycle
from bycycle.features import compute_features

np.random.seed(0)
fs = 500
sig = sim_bursty_oscillation(8, fs, 10) + 0.3 * sim_powerlaw(8, fs, -2)
f_range = (8, 12)

def expand(th):
    return {(k if k.endswith('_threshold') or k == 'min_n_cycles' else k + '_threshold'): v
            for k, v in th.items()}

def outcome(f):
    try:
        return 'ok', f()
    except Exception as exc:  # noqa
        return 'err', '%s: %s' % (type(exc).__name__, exc)

violations = []

# --- history A: construct with shorthand, fit, re-bind thresholds with shorthand, fit again
first = {'amp_fraction': .1, 'amp_consistency': .4, 'period_consistency': .4, 'monotonicity': .6}
new = {'amp_fraction': .2, 'amp_consistency': .3, 'period_consistency': .3, 'monotonicity': .7,
       'min_n_cycles': 2}
bm = Bycycle(thresholds=dict(first))
bm.fit(sig, fs, f_range)
bm.thresholds = dict(new)                       # threshold edit (re-binding), documented shorthand
current = copy.deepcopy(bm.thresholds)
got = outcome(lambda: (bm.fit(sig, fs, f_range), bm.df_features)[1])
fresh = Bycycle(thresholds=copy.deepcopy(current))
exp_fresh = outcome(lambda: (fresh.fit(sig, fs, f_range), fresh.df_features)[1])
exp_func = compute_features(sig, fs, f_range, threshold_kwargs=expand(current),
                            find_extrema_kwargs={'filter_kwargs': {'n_cycles': 3}})
assert exp_fresh[0] == 'ok' and exp_fresh[1].equals(exp_func), 'fresh object itself is off'
if got[0] != 'ok' or not got[1].equals(exp_func):
    violations.append(('re-bind with shorthand', got[1] if got[0] == 'err' else 'different table'))

# --- history B: in-place edit with the shorthand name (only that threshold is named by shorthand)
bm = Bycycle(thresholds={'amp_fraction_threshold': .1, 'amp_consistency_threshold': .4,
                         'period_consistency_threshold': .4})
bm.fit(sig, fs, f_range)
bm.thresholds['monotonicity'] = .7              # in-place threshold edit, shorthand
current = copy.deepcopy(bm.thresholds)
got = outcome(lambda: (bm.fit(sig, fs, f_range), bm.df_features)[1])
fresh = Bycycle(thresholds=copy.deepcopy(current))
fresh.fit(sig, fs, f_range)
exp_func = compute_features(sig, fs, f_range, threshold_kwargs=expand(current),
                            find_extrema_kwargs={'filter_kwargs': {'n_cycles': 3}})
assert fresh.df_features.equals(exp_func)
if got[0] != 'ok' or not got[1].equals(exp_func):
    violations.append(('in-place edit with shorthand', got[1] if got[0] == 'err' else 'different table'))

for v in violations:
    print('VIOLATION:', v)
sys.exit(1 if violations else 0)
