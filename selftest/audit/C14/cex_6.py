"""C14 cex 6: attribute access goes stale after an attribute assignment / column names that are object attributes.

Bycycle.__getattr__ is only consulted when normal lookup fails. (a) `bm.is_burst = edited` (the natural way
to "write back" after bm.is_burst[i] = ... fails on the read-only array) creates an instance attribute that
neither reaches the table nor is ever cleared: after the next fit on another signal bm.is_burst still returns
the old array, not the table's column. (b) A loaded table with a column called like a setting (e.g. 'fs',
'sig', 'thresholds') is not reachable by attribute access.
usage: python cex_6.py <source tree>; exit 1 = violation shows.
"""
import sys, copy, warnings
sys.path.insert(0, sys.argv[1] if len(sys.argv) > 1 else '.')
warnings.simplefilter('ignore')
import numpy as np
from neurodsp.sim import sim_bursty_oscillation, sim_powerlaw
from bycycle import Bycycle

np.random.seed(0)
fs = 500
sig_a = sim_bursty_oscillation(6, fs, 10) + 0.3 * sim_powerlaw(6, fs, -2)
sig_b = sim_bursty_oscillation(9, fs, 10) + 0.3 * sim_powerlaw(9, fs, -2)
f_range = (8, 12)
th = {'amp_fraction_threshold': .2, 'amp_consistency_threshold': .4,
      'period_consistency_threshold': .4, 'monotonicity_threshold': .7}

violations = []
bm = Bycycle(thresholds=dict(th))
bm.fit(sig_a, fs, f_range)
edited = bm.is_burst.copy()
edited[:] = False
bm.is_burst = edited                         # attribute assignment
bm.fit(sig_b, fs, f_range)                   # new fit, new table
col = bm.df_features['is_burst'].values
got = bm.is_burst
if got.shape != col.shape or not np.array_equal(got, col):
    violations.append('(a) after a new fit bm.is_burst has %d entries (the array assigned earlier), the table column has %d'
                      % (len(got), len(col)))

bm2 = Bycycle(thresholds=dict(th))
df = bm.df_features.copy()
df['fs'] = float(fs)                         # extra column in an external table
bm2.load(df, sig_b, 1000, f_range)
if not np.array_equal(np.asarray(bm2.fs), df['fs'].values):
    violations.append("(b) loaded table has a column 'fs'; bm.fs returns %r, not the column" % (bm2.fs,))

for v in violations:
    print('VIOLATION:', v)
sys.exit(1 if violations else 0)
