"""C14 cex 3: thresholds re-bound to None (the documented constructor default) goes stale in recompute_edges.

The constructor turns thresholds=None into the default dictionary, fit()/compute_features accept None
(defaults of detect_bursts_cycles), but reduce_thresholds calls self.thresholds.items().
History: construct with a dictionary, fit, bm.thresholds = None, fit (equals a fresh Bycycle(thresholds=None)),
recompute_edges() -> AttributeError; the fresh object with the same current settings recomputes fine and equals
the functional edge recomputation. Same for BycycleGroup (models get thresholds=None re-bound).
usage: python cex_3.py <source tree>; exit 1 = violation shows.
"""
import sys, copy, warnings, inspect
sys.path.insert(0, sys.argv[1] if len(sys.argv) > 1 else '.')
warnings.simplefilter('ignore')
import numpy as np
from neurodsp.sim import sim_bursty_oscillation, sim_powerlaw
from bycycle import Bycycle, BycycleGroup
from bycycle.features import compute_features
from bycycle.burst import detect_bursts_cycles
from bycycle.burst.utils import recompute_edges as rc_edges

np.random.seed(0)
fs = 500
sig = sim_bursty_oscillation(10, fs, 10) + 0.3 * sim_powerlaw(10, fs, -2)
sigs = np.array([sig, sig[::-1].copy()])
f_range = (8, 12)
defaults = {k: p.default for k, p in inspect.signature(detect_bursts_cycles).parameters.items()
            if k.endswith('_threshold') or k == 'min_n_cycles'}

violations = []

bm = Bycycle(thresholds={'amp_fraction_threshold': .2, 'amp_consistency_threshold': .4,
                         'period_consistency_threshold': .4, 'monotonicity_threshold': .7})
bm.fit(sig, fs, f_range)
bm.thresholds = None                      # threshold edit: back to "the defaults"
bm.fit(sig, fs, f_range)
fresh = Bycycle(thresholds=None)          # fresh object with the current settings
fresh.fit(sig, fs, f_range)
func = compute_features(sig, fs, f_range, threshold_kwargs=None)
assert bm.df_features.equals(fresh.df_features) and bm.df_features.equals(func)

expected = rc_edges(func, dict(defaults))                 # every threshold lowered by 0
fresh.recompute_edges(None)
assert fresh.df_features.equals(expected)
try:
    bm.recompute_edges(None)
    if not bm.df_features.equals(expected):
        violations.append(('Bycycle', 'different table'))
except Exception as exc:
    violations.append(('Bycycle', '%s: %s' % (type(exc).__name__, exc)))

g = BycycleGroup(thresholds={'amp_fraction_threshold': .2, 'amp_consistency_threshold': .4,
                             'period_consistency_threshold': .4, 'monotonicity_threshold': .7})
g.fit(sigs, fs, f_range, n_jobs=1)
g.thresholds = None
g.fit(sigs, fs, f_range, n_jobs=1)
gf = BycycleGroup(thresholds=None)
gf.fit(sigs, fs, f_range, n_jobs=1)
assert all(a.equals(b) for a, b in zip(g.df_features, gf.df_features))
gf.recompute_edges(None)
try:
    g.recompute_edges(None)
    if not all(a.equals(b) for a, b in zip(g.df_features, gf.df_features)):
        violations.append(('BycycleGroup', 'different tables'))
except Exception as exc:
    violations.append(('BycycleGroup', '%s: %s' % (type(exc).__name__, exc)))

for v in violations:
    print('VIOLATION:', v)
sys.exit(1 if violations else 0)
