"""C14 cex 2: recompute_edges(r) lowers only the thresholds that are written out in the dictionary.

A thresholds dictionary may be partial or empty (the missing *_threshold values are the defaults of
detect_bursts_cycles: amp_fraction 0, amp_consistency .5, period_consistency .5, monotonicity .8).
reduce_thresholds iterates over self.thresholds.items() only, so the thresholds in force by default
are NOT lowered: recompute_edges(r) differs from the functional edge recomputation with every
*_threshold lowered by r.
usage: python cex_2.py <source tree>; exit 1 = violation shows.
"""
import sys, copy, warnings, inspect
sys.path.insert(0, sys.argv[1] if len(sys.argv) > 1 else '.')
warnings.simplefilter('ignore')
import numpy as np
from neurodsp.sim import sim_bursty_oscillation, sim_powerlaw
from bycycle import Bycycle, BycycleGroup
from bycycle.features import compute_features
from bycycle.burst import detect_bursts_cycles
from bycycle.burst.utils import recompute_edges as rc_edges

np.random.seed(0)
fs = 500
sig = sim_bursty_oscillation(10, fs, 10) + 0.3 * sim_powerlaw(10, fs, -2)
f_range = (8, 12)
r = 0.2

# the thresholds in force = the written ones + the documented defaults of detect_bursts_cycles
defaults = {k: p.default for k, p in inspect.signature(detect_bursts_cycles).parameters.items()
            if k.endswith('_threshold')}

violations = []
for written in ({'amp_fraction_threshold': .3}, {'amp_fraction_threshold': .3, 'min_n_cycles': 2},
                {'amp_fraction': .25, 'monotonicity': .9}):
    bm = Bycycle(thresholds=dict(written))
    bm.fit(sig, fs, f_range)
    in_force = dict(defaults); in_force.update(bm.thresholds)
    # fit is the same whether the defaults are written out or not
    full = compute_features(sig, fs, f_range, threshold_kwargs=dict(in_force),
                            find_extrema_kwargs={'filter_kwargs': {'n_cycles': 3}})
    assert bm.df_features.equals(full)
    before = bm.df_features.copy()
    bm.recompute_edges(r)
    lowered = {k: (v - r if k.endswith('_threshold') else v) for k, v in in_force.items()}
    expected = rc_edges(before, lowered)
    n_diff = int((expected['is_burst'].values != bm.df_features['is_burst'].values).sum())
    if not bm.df_features.equals(expected):
        violations.append((written, 'is_burst differs in %d cycles; bursting %d (object) vs %d (every threshold lowered)'
                           % (n_diff, bm.df_features['is_burst'].sum(), expected['is_burst'].sum())))

for v in violations:
    print('VIOLATION:', v)
sys.exit(1 if violations else 0)
