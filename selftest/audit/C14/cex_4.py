"""C14 cex 4: a BycycleGroup.fit that raises leaves the group half-updated (sigs/fs/f_range/axis new,
df_features/models/n_dims old): models no longer mirror sigs, and recompute_edges silently runs on the mix.

BycycleGroup.fit assigns self.sigs, self.fs, self.f_range, self.axis, self.n_jobs BEFORE the computation
(fit.py:380-384) and df_features / models / n_dims after it (396-434).
usage: python cex_4.py <source tree>; exit 1 = violation shows.
"""
import sys, copy, warnings
sys.path.insert(0, sys.argv[1] if len(sys.argv) > 1 else '.')
warnings.simplefilter('ignore')
import numpy as np
from neurodsp.sim import sim_bursty_oscillation, sim_powerlaw
from bycycle import BycycleGroup

np.random.seed(0)
fs = 500
def mk(): return sim_bursty_oscillation(4, fs, 10) + 0.3 * sim_powerlaw(4, fs, -2)
sigs_a = np.array([mk() for _ in range(3)])                       # 2-D, 3 epochs
sigs_b = np.array([[mk() for _ in range(2)] for _ in range(2)])   # 3-D
f_range = (8, 12)

th = {'amp_fraction_threshold': .1, 'amp_consistency_threshold': .4,
      'period_consistency_threshold': .4, 'monotonicity_threshold': .7}
g = BycycleGroup(thresholds=dict(th))
g.fit(sigs_a, fs, f_range, axis=None, n_jobs=1)
try:
    g.fit(sigs_b, fs, f_range, axis=None, n_jobs=1)   # axis=None is for 2-D arrays only -> ValueError
    raised = False
except ValueError:
    raised = True

def mirrors(g):
    """models[i] <-> df_features[i] <-> sigs[i], position by position"""
    try:
        if g.sigs.ndim == 2:
            if not (len(g.models) == len(g.df_features) == len(g.sigs)):
                return False
            return all(m.df_features is d and np.array_equal(m.sig, s)
                       for m, d, s in zip(g.models, g.df_features, g.sigs))
        if len(g.models) != g.sigs.shape[0]:
            return False
        return all(g.models[i][j].df_features is g.df_features[i][j]
                   and np.array_equal(g.models[i][j].sig, g.sigs[i][j])
                   for i in range(g.sigs.shape[0]) for j in range(g.sigs.shape[1]))
    except Exception:
        return False

violations = []
if raised and not mirrors(g):
    violations.append('after the failed fit: g.sigs has shape %s, but %d models / %d tables of the earlier fit, n_dims=%s'
                      % (g.sigs.shape, len(g.models), len(g.df_features), g.n_dims))
    ids_before = [id(d) for d in g.df_features]
    try:
        g.recompute_edges(.05)
        changed = [id(d) != i for d, i in zip(g.df_features, ids_before)]
        violations.append('recompute_edges ran without error on the mix and replaced tables %s (of 3)' % changed)
    except Exception as exc:
        violations.append('recompute_edges: %s: %s' % (type(exc).__name__, exc))

for v in violations:
    print('VIOLATION:', v)
sys.exit(1 if violations else 0)
