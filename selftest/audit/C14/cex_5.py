"""C14 cex 5: an operation on one model of a fitted group (g[i].recompute_edges / g[i].fit, both public:
the group supports indexing and iteration and hands out Bycycle objects) breaks the mirror
models[i].df_features <-> df_features[i] (and models[i].sig <-> sigs[i]); a later group-level call then
works from the model's table, not from the group's.
usage: python cex_5.py <source tree>; exit 1 = violation shows.
"""
import sys, copy, warnings
sys.path.insert(0, sys.argv[1] if len(sys.argv) > 1 else '.')
warnings.simplefilter('ignore')
import numpy as np
from neurodsp.sim import sim_bursty_oscillation, sim_powerlaw
from bycycle import BycycleGroup
from bycycle.burst.utils import recompute_edges as rc_edges

np.random.seed(0)
fs = 500
def mk(): return sim_bursty_oscillation(6, fs, 10) + 0.3 * sim_powerlaw(6, fs, -2)
sigs = np.array([mk() for _ in range(3)])
f_range = (8, 12)
th = {'amp_fraction_threshold': .2, 'amp_consistency_threshold': .4,
      'period_consistency_threshold': .4, 'monotonicity_threshold': .7}

violations = []
g = BycycleGroup(thresholds=dict(th))
g.fit(sigs, fs, f_range, n_jobs=1)
assert all(m.df_features is d for m, d in zip(g.models, g.df_features))
table_0 = g.df_features[0].copy()

g[0].recompute_edges(.2)                      # edge recomputation on one model
if not g.models[0].df_features.equals(g.df_features[0]):
    n = int((g.models[0].df_features['is_burst'].values != g.df_features[0]['is_burst'].values).sum())
    violations.append('after g[0].recompute_edges(.2): models[0].df_features differs from df_features[0] (is_burst in %d cycles)' % n)

# group-level recompute_edges(0) now starts from the model's table, not from the table the group shows
g_tables_before = [d.copy() for d in g.df_features]
g.recompute_edges(0)
expected_0 = rc_edges(g_tables_before[0], dict(th))
if not g.df_features[0].equals(expected_0):
    violations.append('group.recompute_edges(0) of df_features[0] is not the functional recomputation of df_features[0]')

g[1].fit(sigs[2], fs, f_range)                # a fit on one model
if not (g.models[1].df_features.equals(g.df_features[1]) and np.array_equal(g.models[1].sig, g.sigs[1])):
    violations.append('after g[1].fit(other signal): models[1] mirrors neither df_features[1] nor sigs[1]')

for v in violations:
    print('VIOLATION:', v)
sys.exit(1 if violations else 0)
