"""C07 counterexample 2.

compute_features_2d(axis=None) with a per-epoch option list in which the epochs carry
different min_n_cycles (in threshold_kwargs, the documented place for per-epoch thresholds):
the sample-wise detector runs once with the count of list entry 0, the run filter of epoch i
uses the count of entry i.  For epoch i != 0 detector and run filter therefore use two
different minimum-cycle counts, and burst_fraction of that epoch is not what the detector
marks for the count configured for that epoch.

usage: python cex_2.py <source tree>;  exit 1 = violation shown, 0 = not shown
"""
import sys, warnings
sys.path.insert(0, sys.argv[1] if len(sys.argv) > 1 else '.')
warnings.filterwarnings('ignore')
import numpy as np
from neurodsp.burst import detect_bursts_dual_threshold
from bycycle.group import compute_features_2d


def make_signal(fs=500, n_epochs=3, epoch_sec=4, freq=10):
    """Deterministic: 10 Hz carrier, bursts of 1.5 .. 8 cycles, weak noise."""
    n = n_epochs * epoch_sec * fs
    t = np.arange(n) / fs
    env = np.full(n, 0.15)
    # (start time s, length in cycles)
    for start, ncyc in [(0.5, 2), (1.3, 6), (2.6, 1.5), (3.1, 2), (4.4, 8), (5.9, 2),
                        (6.6, 1.5), (7.2, 3), (8.5, 2), (9.2, 2), (10.0, 7), (11.3, 2)]:
        a, b = int(start * fs), int((start + ncyc / freq) * fs)
        env[a:b] = 1.0
    rng = np.random.RandomState(7)
    return env * np.sin(2 * np.pi * freq * t) + 0.02 * rng.randn(n)


def run_filter(flags, n):
    flags = [bool(f) for f in flags]
    out = [False] * len(flags)
    i = 0
    while i < len(flags):
        if not flags[i]:
            i += 1
            continue
        j = i
        while j < len(flags) and flags[j]:
            j += 1
        if j - i >= n:
            out[i:j] = [True] * (j - i)
        i = j
    return np.array(out, dtype=bool)



def main():
    fs, f_range = 500, (8, 12)
    sig = make_signal(fs)
    sigs = sig.reshape(3, -1)
    thr, amp = 0.9, (1, 2)
    counts = [3, 1, 3]
    kwargs = [{'burst_method': 'amp', 'burst_kwargs': {'amp_threshes': amp},
               'threshold_kwargs': {'burst_fraction_threshold': thr, 'min_n_cycles': n}}
              for n in counts]

    dfs = compute_features_2d(sigs, fs, f_range, compute_features_kwargs=kwargs, axis=None,
                              n_jobs=1)
    violated = False
    for idx, (df, n) in enumerate(zip(dfs, counts)):
        # detector with the count configured for THIS epoch (thresholds' value, no burst-option value)
        mask = detect_bursts_dual_threshold(sig.copy(), fs, amp, f_range, min_n_cycles=n)
        off = idx * sigs.shape[1]
        last = df['sample_last_trough'].values.astype(int) + off
        nxt = df['sample_next_trough'].values.astype(int) + off
        frac = np.array([np.count_nonzero(mask[a:b + 1]) / (b + 1 - a) for a, b in zip(last, nxt)])
        got_frac = df['burst_fraction'].values.astype(float)
        got = df['is_burst'].values.astype(bool)
        want = run_filter(frac >= thr, n)
        if not np.array_equal(got_frac, frac) or not np.array_equal(got, want):
            violated = True
            print('epoch', idx, 'configured min_n_cycles =', n)
            print('  burst_fraction, detector with that count :', np.round(frac, 2))
            print('  burst_fraction, library                  :', np.round(got_frac, 2))
            print('  is_burst expected :', want.astype(int))
            print('  is_burst library  :', got.astype(int))
            # what the library did: detector with entry 0's count, run filter with entry idx's count
            mask0 = detect_bursts_dual_threshold(sig.copy(), fs, amp, f_range, min_n_cycles=counts[0])
            frac0 = np.array([np.count_nonzero(mask0[a:b + 1]) / (b + 1 - a) for a, b in zip(last, nxt)])
            print('  library == detector(count of entry 0) + run filter(count of entry %d): %s'
                  % (idx, np.array_equal(got_frac, frac0)
                     and np.array_equal(got, run_filter(frac0 >= thr, n))))
    return 1 if violated else 0


if __name__ == '__main__':
    sys.exit(main())
