"""C07 counterexample 1.

compute_features_2d(axis=None) with a per-epoch option LIST: min_n_cycles given in the burst
options is used by the sample-wise detector, but the per-epoch re-labelling
(detect_bursts_amp(dfs_features[idx], **thresholds)) falls back to the default 3.
Every list entry is the SAME configuration, so there is no ambiguity about which
options apply: burst options say min_n_cycles=1, thresholds do not mention it.

usage: python cex_1.py <source tree>;  exit 1 = violation shown, 0 = not shown
"""
import sys, warnings
sys.path.insert(0, sys.argv[1] if len(sys.argv) > 1 else '.')
warnings.filterwarnings('ignore')
import numpy as np
from neurodsp.burst import detect_bursts_dual_threshold
from bycycle.group import compute_features_2d


def make_signal(fs=500, n_epochs=3, epoch_sec=4, freq=10):
    """Deterministic: 10 Hz carrier, bursts of 1.5 .. 8 cycles, weak noise."""
    n = n_epochs * epoch_sec * fs
    t = np.arange(n) / fs
    env = np.full(n, 0.15)
    # (start time s, length in cycles)
    for start, ncyc in [(0.5, 2), (1.3, 6), (2.6, 1.5), (3.1, 2), (4.4, 8), (5.9, 2),
                        (6.6, 1.5), (7.2, 3), (8.5, 2), (9.2, 2), (10.0, 7), (11.3, 2)]:
        a, b = int(start * fs), int((start + ncyc / freq) * fs)
        env[a:b] = 1.0
    rng = np.random.RandomState(7)
    return env * np.sin(2 * np.pi * freq * t) + 0.02 * rng.randn(n)


def run_filter(flags, n):
    flags = [bool(f) for f in flags]
    out = [False] * len(flags)
    i = 0
    while i < len(flags):
        if not flags[i]:
            i += 1
            continue
        j = i
        while j < len(flags) and flags[j]:
            j += 1
        if j - i >= n:
            out[i:j] = [True] * (j - i)
        i = j
    return np.array(out, dtype=bool)


def main():
    fs, f_range = 500, (8, 12)
    sig = make_signal(fs)
    sigs = sig.reshape(3, -1)
    n_min, thr, amp = 1, 0.9, (1, 2)
    entry = {'burst_method': 'amp',
             'burst_kwargs': {'min_n_cycles': n_min, 'amp_threshes': amp},
             'threshold_kwargs': {'burst_fraction_threshold': thr}}
    kwargs = [dict(entry) for _ in range(len(sigs))]

    violated = False
    for center in ('peak', 'trough'):
        kw = [dict(k, center_extrema=center) for k in kwargs]
        dfs = compute_features_2d(sigs, fs, f_range, compute_features_kwargs=kw, axis=None,
                                  n_jobs=1)
        # the detector, with the one and only min-cycle count that was configured
        mask = detect_bursts_dual_threshold(sig.copy(), fs, amp, f_range, min_n_cycles=n_min)
        side = 'trough' if center == 'peak' else 'peak'
        for idx, df in enumerate(dfs):
            off = idx * sigs.shape[1]
            last = df['sample_last_' + side].values.astype(int) + off
            nxt = df['sample_next_' + side].values.astype(int) + off
            frac = np.array([np.count_nonzero(mask[a:b + 1]) / (b + 1 - a)
                             for a, b in zip(last, nxt)])
            got_frac = df['burst_fraction'].values.astype(float)
            got = df['is_burst'].values.astype(bool)
            want = run_filter(frac >= thr, n_min)
            if not np.array_equal(got_frac, frac):
                print(center, 'epoch', idx, 'burst_fraction differs from the detector (min_n_cycles=%s)' % n_min)
                violated = True
            if not np.array_equal(got, want):
                violated = True
                alt = run_filter(frac >= thr, 3)
                print(center, 'epoch', idx, 'is_burst differs from the run filter with min_n_cycles=%s' % n_min)
                print('  burst_fraction >= thr :', (frac >= thr).astype(int))
                print('  expected (n=%s)        :' % n_min, want.astype(int))
                print('  library               :', got.astype(int))
                print('  equals run filter n=3 :', np.array_equal(got, alt))
    return 1 if violated else 0


if __name__ == '__main__':
    sys.exit(main())
