"""C07 counterexample 3 (borderline: `None` written out for min_n_cycles in the burst options).

neurodsp documents min_burst_duration as "only used if min_n_cycles is set to None"; a caller who
wants a duration criterion therefore writes burst_kwargs={'min_n_cycles': None,
'min_burst_duration': 0.3} and gives the cycle count for the run filter in threshold_kwargs.
A value that is None is "not given", so the count is the thresholds' value (2).
compute_features copies the None over the thresholds' value
(threshold_kwargs['min_n_cycles'] = burst_kwargs['min_n_cycles']) and the run filter then
compares durations with None.

usage: python cex_3.py <source tree>;  exit 1 = violation shown, 0 = not shown
"""
import sys, warnings
sys.path.insert(0, sys.argv[1] if len(sys.argv) > 1 else '.')
warnings.filterwarnings('ignore')
import numpy as np
from neurodsp.burst import detect_bursts_dual_threshold
from bycycle.features import compute_features


def make_signal(fs=500, n_epochs=3, epoch_sec=4, freq=10):
    """Deterministic: 10 Hz carrier, bursts of 1.5 .. 8 cycles, weak noise."""
    n = n_epochs * epoch_sec * fs
    t = np.arange(n) / fs
    env = np.full(n, 0.15)
    # (start time s, length in cycles)
    for start, ncyc in [(0.5, 2), (1.3, 6), (2.6, 1.5), (3.1, 2), (4.4, 8), (5.9, 2),
                        (6.6, 1.5), (7.2, 3), (8.5, 2), (9.2, 2), (10.0, 7), (11.3, 2)]:
        a, b = int(start * fs), int((start + ncyc / freq) * fs)
        env[a:b] = 1.0
    rng = np.random.RandomState(7)
    return env * np.sin(2 * np.pi * freq * t) + 0.02 * rng.randn(n)


def run_filter(flags, n):
    flags = [bool(f) for f in flags]
    out = [False] * len(flags)
    i = 0
    while i < len(flags):
        if not flags[i]:
            i += 1
            continue
        j = i
        while j < len(flags) and flags[j]:
            j += 1
        if j - i >= n:
            out[i:j] = [True] * (j - i)
        i = j
    return np.array(out, dtype=bool)



def main():
    fs, f_range = 500, (8, 12)
    sig = make_signal(fs)
    thr, amp, dur, n_thr = 0.9, (1, 2), 0.15, 2
    violated = False
    for center in ('peak', 'trough'):
        bk = {'min_n_cycles': None, 'min_burst_duration': dur, 'amp_threshes': amp}
        tk = {'burst_fraction_threshold': thr, 'min_n_cycles': n_thr}
        try:
            df = compute_features(sig.copy(), fs, f_range, center_extrema=center,
                                  burst_method='amp', burst_kwargs=bk, threshold_kwargs=tk)
        except Exception as exc:  # pylint: disable=broad-except
            print(center, ': compute_features raised', repr(exc))
            violated = True
            continue
        mask = detect_bursts_dual_threshold(sig.copy(), fs, amp, f_range, min_n_cycles=None,
                                            min_burst_duration=dur)
        side = 'trough' if center == 'peak' else 'peak'
        last = df['sample_last_' + side].values.astype(int)
        nxt = df['sample_next_' + side].values.astype(int)
        frac = np.array([np.count_nonzero(mask[a:b + 1]) / (b + 1 - a) for a, b in zip(last, nxt)])
        want = run_filter(frac >= thr, n_thr)
        if not np.array_equal(df['burst_fraction'].values.astype(float), frac) or \
                not np.array_equal(df['is_burst'].values.astype(bool), want):
            print(center, ': labels differ from detector(min duration) + run filter(n=%d)' % n_thr)
            violated = True
    return 1 if violated else 0


if __name__ == '__main__':
    sys.exit(main())
