"""C05 counterexample 2 (history: fit -> recompute_edges on an object that returns no samples).

Bycycle(center_extrema='peak', return_samples=False).fit(...) followed by .recompute_edges(...)
rewrites amp_consistency of the cycles next to a burst with compute_amp_consistency(direction=
'next' / 'last') on a table that has no sample_* columns. The centring is then taken to be
'trough', so the neighbour pair is (rise[i], decay[i+1]) / (rise[i-1], decay[i]) instead of
(decay[i], rise[i+1]) / (decay[i-1], rise[i]).  The written values are none of the documented
amplitude consistencies (both / next / last) of the cycle, and is_burst can change with them.

Oracle: flanks are recomputed from the signal with the cyclepoints of a twin table that kept its
sample columns; which cycles are re-evaluated, and in which direction, follows from is_burst
before the call (cycle before a burst: 'next', cycle after a burst: 'last').

usage: python cex_2.py <path to source tree>      exit 1 = violation shows, 0 = not
"""
import sys
import warnings

sys.path.insert(0, sys.argv[1] if len(sys.argv) > 1 else '.')
warnings.simplefilter('ignore')

import numpy as np

from bycycle import Bycycle
from bycycle.features import compute_features


def make_signal():
    """Three 10 Hz bursts with amplitude jitter on a slow background, fs = 500."""
    rng = np.random.default_rng(7)
    fs = 500
    n_cyc = 60
    amps = 1 + 0.8 * rng.random(n_cyc + 1)
    on = np.zeros(n_cyc + 1)
    for start, stop in [(6, 16), (24, 36), (44, 54)]:
        on[start:stop] = 1
    amps = amps * (0.15 + 0.85 * on)
    t = np.arange(n_cyc * 50) / fs
    env = np.interp(np.arange(len(t)) / 50., np.arange(n_cyc + 1), amps)
    sig = env * np.sin(2 * np.pi * 10 * t) + 0.25 * np.sin(2 * np.pi * 2.3 * t + 1) \
        + 0.05 * rng.standard_normal(len(t))
    return sig, fs


def ratio(a, b):
    lo, hi = min(a, b), max(a, b)
    with np.errstate(all='ignore'):
        return np.float64(lo) / np.float64(hi)


def directional(first, second, i, direction):
    cur = ratio(first[i], second[i])
    lst = ratio(second[i - 1], first[i])
    nx = ratio(second[i], first[i + 1])
    sel = {'both': [cur, lst, nx], 'next': [cur, nx], 'last': [cur, lst]}[direction]
    return max(0., min(sel))


def close(a, b):
    return (np.isnan(a) and np.isnan(b)) or abs(a - b) <= 1e-12


def run(center, sig, fs, thresholds, reduction):
    # twin with samples: only its cyclepoints are used, to get the flanks in time order
    twin = compute_features(sig, fs, (8, 12), center_extrema=center,
                            threshold_kwargs=dict(thresholds))
    if center == 'peak':
        cols, sign = ('sample_last_trough', 'sample_peak', 'sample_next_trough'), 1
    else:
        cols, sign = ('sample_last_peak', 'sample_trough', 'sample_next_peak'), -1
    last, centre, nxt = (twin[c].to_numpy() for c in cols)
    first = sign * (sig[centre] - sig[last])
    second = sign * (sig[centre] - sig[nxt])
    n = len(twin)

    bm = Bycycle(center_extrema=center, thresholds=dict(thresholds), return_samples=False)
    bm.fit(sig, fs, (8, 12))
    assert len(bm.df_features) == n
    assert not any(c.startswith('sample_') for c in bm.df_features.columns)
    before = bm.df_features['is_burst'].to_numpy().copy()
    bm.recompute_edges(reduction)
    got = bm.df_features['amp_consistency'].to_numpy()

    # expected: documented 'both' value everywhere, except next to bursts
    want = np.full(n, np.nan)
    for i in range(1, n - 1):
        want[i] = directional(first, second, i, 'both')
    for i in range(n - 1):
        if not before[i] and before[i + 1] and 1 <= i <= n - 2:      # cycle before a burst
            want[i] = directional(first, second, i, 'next')
        if before[i] and not before[i + 1] and 1 <= i + 1 <= n - 2:  # cycle after a burst
            want[i + 1] = directional(first, second, i + 1, 'last')

    bad = [i for i in range(n) if not close(got[i], want[i])]
    neither = [i for i in bad if 1 <= i <= n - 2 and not any(
        close(got[i], directional(first, second, i, d)) for d in ['both', 'next', 'last'])]

    # the object that keeps its samples, same history
    bm_s = Bycycle(center_extrema=center, thresholds=dict(thresholds), return_samples=True)
    bm_s.fit(sig, fs, (8, 12))
    bm_s.recompute_edges(reduction)
    got_s = bm_s.df_features['amp_consistency'].to_numpy()
    bad_s = [i for i in range(n) if not close(got_s[i], want[i])]
    burst_diff = int(np.sum(bm_s.df_features['is_burst'].to_numpy()
                            != bm.df_features['is_burst'].to_numpy()))

    print('%-6s return_samples=False: %d edge cycles with a wrong amp_consistency %s '
          '(%d equal to no documented direction); return_samples=True: %d wrong; '
          'is_burst differs between the two objects in %d cycles'
          % (center, len(bad), bad, len(neither), len(bad_s), burst_diff))
    for i in bad[:4]:
        print('        cycle %d: got %.6f, definition %.6f' % (i, got[i], want[i]))
    return bool(bad) or bool(bad_s)


def main():
    sig, fs = make_signal()
    thresholds = dict(amp_fraction_threshold=.2, amp_consistency_threshold=.6,
                      period_consistency_threshold=.6, monotonicity_threshold=.6,
                      min_n_cycles=3)
    violated = False
    for center in ['peak', 'trough']:
        violated |= run(center, sig, fs, thresholds, .1)
    sys.exit(1 if violated else 0)


if __name__ == '__main__':
    main()
