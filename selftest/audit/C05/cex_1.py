"""C05 counterexample 1.

compute_amp_consistency() on a PEAK-centred cycle table that carries no sample_* columns
(compute_features(..., return_samples=False), drop_samples_df(), split_samples_df()) pairs the
flanks as if the table were TROUGH-centred: it uses (rise[i-1], decay[i]) and (rise[i], decay[i+1])
instead of (decay[i-1], rise[i]) and (decay[i], rise[i+1]).

The oracle below recomputes the documented definition from the signal itself (time order of the
flanks taken from the cyclepoints of the table that still has its sample columns).

usage: python cex_1.py <path to source tree>      exit 1 = violation shows, 0 = not
"""
import sys
import warnings

sys.path.insert(0, sys.argv[1] if len(sys.argv) > 1 else '.')
warnings.simplefilter('ignore')

import numpy as np

from bycycle.features import compute_features
from bycycle.features.burst import compute_amp_consistency
from bycycle.utils.dataframes import drop_samples_df


def make_signal():
    """Deterministic 10 Hz oscillation with cycle-to-cycle amplitude jitter, fs = 500."""
    rng = np.random.default_rng(12)
    fs = 500
    n_cyc = 30
    amps = 1 + 0.6 * rng.random(n_cyc + 1)
    t = np.arange(n_cyc * 50) / fs
    env = np.interp(np.arange(len(t)) / 50., np.arange(n_cyc + 1), amps)
    sig = env * np.sin(2 * np.pi * 10 * t) + 0.3 * np.sin(2 * np.pi * 3 * t + 1)
    return sig, fs


def ratio(a, b):
    lo, hi = min(a, b), max(a, b)
    with np.errstate(all='ignore'):
        return np.float64(lo) / np.float64(hi)


def oracle(sig, last, centre, nxt, sign, direction):
    """Definition: flanks in time order around each centre extremum.

    first[i]  : flank from the last side extremum to the centre extremum of cycle i
    second[i] : flank from the centre extremum to the next side extremum of cycle i
    The three adjacent pairs containing a flank of cycle i are
    (second[i-1], first[i]), (first[i], second[i]), (second[i], first[i+1]).
    """
    first = sign * (sig[centre] - sig[last])
    second = sign * (sig[centre] - sig[nxt])
    n = len(first)
    out = np.full(n, np.nan)
    for i in range(1, n - 1):
        cur = ratio(first[i], second[i])
        lst = ratio(second[i - 1], first[i])
        nx = ratio(second[i], first[i + 1])
        sel = {'both': [cur, lst, nx], 'next': [cur, nx], 'last': [cur, lst]}[direction]
        out[i] = max(0., min(sel))
    return out


def equal(a, b):
    a = np.asarray(a, float)
    b = np.asarray(b, float)
    return a.shape == b.shape and bool(np.all((np.isnan(a) & np.isnan(b)) |
                                              (np.abs(a - b) <= 1e-12)))


def main():
    sig, fs = make_signal()
    violated = False

    for center in ['peak', 'trough']:
        df = compute_features(sig, fs, (8, 12), center_extrema=center,
                              threshold_kwargs={'min_n_cycles': 3})
        if center == 'peak':
            cols, sign = ('sample_last_trough', 'sample_peak', 'sample_next_trough'), 1
        else:
            cols, sign = ('sample_last_peak', 'sample_trough', 'sample_next_peak'), -1
        last, centre, nxt = (df[c].to_numpy() for c in cols)

        # the same table, as compute_features(..., return_samples=False) hands it out
        df_nosamples = drop_samples_df(df)
        df_rs_false = compute_features(sig, fs, (8, 12), center_extrema=center,
                                       threshold_kwargs={'min_n_cycles': 3},
                                       return_samples=False)
        assert list(df_nosamples.columns) == list(df_rs_false.columns)

        for direction in ['both', 'next', 'last']:
            want = oracle(sig, last, centre, nxt, sign, direction)
            got_full = compute_amp_consistency(df, direction=direction)
            got_nos = compute_amp_consistency(df_rs_false, direction=direction)
            ok_full = equal(got_full, want)
            ok_nos = equal(got_nos, want)
            n_bad = int(np.sum(~((np.isnan(got_nos) & np.isnan(want)) |
                                 (np.abs(got_nos - want) <= 1e-12))))
            print('%-6s %-4s table with samples: %s   table without samples: %s (%d of %d cycles off)'
                  % (center, direction, 'ok' if ok_full else 'WRONG',
                     'ok' if ok_nos else 'WRONG', n_bad, len(want)))
            if not ok_nos or not ok_full:
                violated = True

    sys.exit(1 if violated else 0)


if __name__ == '__main__':
    main()
