"""C05 counterexample 4 (BORDERLINE - probably by design, see findings.md).

compute_features_2d(sigs, ..., axis=None) (also BycycleGroup.fit(axis=None) and
compute_features_3d(axis=1)) returns one cycle table per epoch, but the burst features in these
tables were computed on the flattened signal and the table was cut afterwards (epoch_df). Read
literally ('for every cycle table'), the returned tables violate two clauses:

* amp_fraction is not rank(volt_amp) / number of cycles of the table (ranks and the divisor are
  those of the concatenation of all epochs; values of one table need not even reach 1);
* amp_consistency / period_consistency of the first and the last cycle of an epoch table are not
  NaN (they are computed with cycles that belong to the neighbouring epoch's table).

usage: python cex_4.py <path to source tree>      exit 1 = violation shows, 0 = not
"""
import sys
import warnings

sys.path.insert(0, sys.argv[1] if len(sys.argv) > 1 else '.')
warnings.simplefilter('ignore')

import numpy as np

from bycycle.group import compute_features_2d


def average_rank(values):
    values = np.asarray(values, float)
    return np.array([np.sum(values < v) + (np.sum(values == v) + 1) / 2. for v in values])


def main():
    rng = np.random.default_rng(3)
    fs = 500
    n_epochs, n_samples = 4, 1000
    t = np.arange(n_epochs * n_samples) / fs
    amps = np.interp(t, np.arange(0, t[-1] + 1, .1), 1 + rng.random(int(t[-1] / .1) + 11))[:len(t)]
    sigs = (amps * np.sin(2 * np.pi * 10 * t)).reshape(n_epochs, n_samples)

    violated = False
    for center in ['peak', 'trough']:
        kwargs = {'center_extrema': center, 'threshold_kwargs': {'min_n_cycles': 3}}
        dfs = compute_features_2d(sigs, fs, (8, 12), compute_features_kwargs=kwargs, axis=None)
        for idx, df in enumerate(dfs):
            n = len(df)
            want_frac = average_rank(df['volt_amp']) / n
            frac_ok = np.allclose(df['amp_fraction'].to_numpy(), want_frac, atol=1e-12)
            ends = df[['amp_consistency', 'period_consistency']].to_numpy()[[0, -1]]
            ends_ok = bool(np.all(np.isnan(ends)))
            print('%-6s epoch %d (%d cycles): amp_fraction = rank / n: %s (max %.3f); '
                  'consistencies NaN at both ends: %s'
                  % (center, idx, n, frac_ok, df['amp_fraction'].max(), ends_ok))
            if not frac_ok or not ends_ok:
                violated = True

    sys.exit(1 if violated else 0)


if __name__ == '__main__':
    main()
