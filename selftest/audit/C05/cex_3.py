"""C05 counterexample 3 (a cycle table without cycles).

limit_df() with a window that holds no complete cycle returns a valid cycle table with zero rows
(all columns present). For such a table every clause of the property is vacuously satisfiable by
four empty columns, but compute_amp_consistency(), compute_period_consistency() and therefore
compute_burst_features() raise IndexError ('amp_consistency[0] = np.nan' on a zero-length array),
for both centrings and every direction. compute_amp_fraction() and compute_monotonicity() of the
same table return empty results, and detect_bursts_cycles() accepts an empty table.

One- and two-row tables are checked as well (they work: all consistencies NaN).

usage: python cex_3.py <path to source tree>      exit 1 = violation shows, 0 = not
"""
import sys
import warnings

sys.path.insert(0, sys.argv[1] if len(sys.argv) > 1 else '.')
warnings.simplefilter('ignore')

import numpy as np

from bycycle.features import compute_shape_features, compute_burst_features
from bycycle.features.burst import (compute_amp_fraction, compute_amp_consistency,
                                    compute_period_consistency, compute_monotonicity)
from bycycle.utils import limit_df


def main():
    fs = 500
    t = np.arange(0, 4, 1 / fs)
    sig = np.sin(2 * np.pi * 10 * t) * (1 + .3 * np.sin(2 * np.pi * 1.3 * t))
    violated = False

    for center in ['peak', 'trough']:
        df_shape = compute_shape_features(sig, fs, (8, 12), center_extrema=center)

        # windows: shorter than one cycle (0 rows), about one, about two cycles
        for start, stop in [(1.0, 1.05), (1.0, 1.23), (1.0, 1.33)]:
            df = limit_df(df_shape, fs, start=start, stop=stop, reset_indices=False)
            n = len(df)
            calls = {
                'compute_amp_fraction': lambda: compute_amp_fraction(df),
                'compute_monotonicity': lambda: compute_monotonicity(df, sig),
                'compute_burst_features': lambda: compute_burst_features(df, sig),
            }
            for direction in ['both', 'next', 'last']:
                calls['compute_amp_consistency(%s)' % direction] = \
                    lambda d=direction: compute_amp_consistency(df, direction=d)
                calls['compute_period_consistency(%s)' % direction] = \
                    lambda d=direction: compute_period_consistency(df, direction=d)

            for name, call in calls.items():
                try:
                    res = call()
                except Exception as exc:  # noqa
                    print('%-6s %d-row table  %-34s raises %s: %s'
                          % (center, n, name, type(exc).__name__, exc))
                    violated = True
                    continue
                # definition: one value per cycle; consistencies NaN on first and last cycle
                ok = len(res) == n
                if ok and 'consistency' in name and n > 0:
                    res = np.asarray(res, float)
                    ok = np.isnan(res[0]) and np.isnan(res[-1])
                if not ok:
                    print('%-6s %d-row table  %-34s wrong result %r' % (center, n, name, res))
                    violated = True

    sys.exit(1 if violated else 0)


if __name__ == '__main__':
    main()
