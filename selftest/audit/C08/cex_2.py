"""C08 counterexample 2 (same root cause as cex_1, reached through a public history):
the burst labels of a table returned by compute_features are handed back to
check_min_burst_cycles with a larger minimum ("keep only the long bursts").
Under pandas copy-on-write the column's values are a read-only boolean array and the in-place
clearing at bycycle/burst/utils.py:55 raises instead of returning the filtered labels.

usage: python cex_2.py <path to source tree>
exit 1 = violation shows, exit 0 = no violation.
"""
import sys

src = sys.argv[1] if len(sys.argv) > 1 else '.'
sys.path.insert(0, src)

import numpy as np
from bycycle.features import compute_features
from bycycle.burst.utils import check_min_burst_cycles


def reference(values, min_n):
    values = [bool(v) for v in values]
    out = [False] * len(values)
    i = 0
    while i < len(values):
        if not values[i]:
            i += 1
            continue
        j = i
        while j < len(values) and values[j]:
            j += 1
        if (j - i) >= min_n:
            out[i:j] = [True] * (j - i)
        i = j
    return out


def run_lengths(values):
    runs, n = [], 0
    for v in list(values) + [False]:
        if v:
            n += 1
        elif n:
            runs.append(n)
            n = 0
    return runs


# deterministic signal: 10 Hz, a burst of 6 cycles and a burst of 12 cycles on a weak 3 Hz background
fs = 500
t = np.arange(0, 6, 1 / fs)
env = np.where(((t > 0.5) & (t < 1.2)) | ((t > 2.5) & (t < 3.8)), 1.0, 0.05)
sig = env * np.sin(2 * np.pi * 10 * t) + 0.02 * np.sin(2 * np.pi * 3 * t + 0.3)

df = compute_features(sig, fs, f_range=(8, 12),
                      threshold_kwargs={'amp_fraction_threshold': 0.3, 'amp_consistency_threshold': .4,
                                        'period_consistency_threshold': .4, 'monotonicity_threshold': .6,
                                        'min_n_cycles': 2})
labels = df['is_burst'].values
runs = run_lengths(labels)
print('labels dtype=%s writeable=%s runs=%s' % (labels.dtype, labels.flags.writeable, runs))
if labels.dtype != bool or len(runs) < 2 or min(runs) == max(runs):
    print('precondition of this script not met (needs two bursts of different length)')
    sys.exit(0)

min_n = max(runs)          # keep only the longest burst
before = labels.tolist()
expected = reference(before, min_n)

try:
    got = check_min_burst_cycles(labels, min_n_cycles=min_n)
except Exception as exc:
    print('VIOLATION: check_min_burst_cycles(df["is_burst"].values, min_n_cycles=%d) raised %s: %s'
          % (min_n, type(exc).__name__, exc))
    print('expected', expected)
    sys.exit(1)

if len(got) != len(before) or [bool(v) for v in got] != expected:
    print('VIOLATION: got', list(got), 'expected', expected)
    sys.exit(1)
print('ok')
sys.exit(0)
