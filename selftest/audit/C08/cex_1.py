"""C08 counterexample 1: check_min_burst_cycles raises on a read-only boolean array
as soon as one run is shorter than min_n_cycles (it clears runs IN PLACE in the caller's array).

usage: python cex_1.py <path to source tree>
exit 1 = violation shows, exit 0 = no violation.
"""
import sys

src = sys.argv[1] if len(sys.argv) > 1 else '.'
sys.path.insert(0, src)

import numpy as np
import pandas as pd
from bycycle.burst.utils import check_min_burst_cycles


def reference(values, min_n):
    """Independent run filter: keep maximal True runs of length >= min_n, clear shorter ones."""
    values = [bool(v) for v in values]
    out = [False] * len(values)
    i = 0
    while i < len(values):
        if not values[i]:
            i += 1
            continue
        j = i
        while j < len(values) and values[j]:
            j += 1
        if (j - i) >= min_n:
            out[i:j] = [True] * (j - i)
        i = j
    return out


PATTERN = [True, False, True, True, False, True, True, True]   # runs of 1, 2, 3 (ends touched)


def locked():
    arr = np.array(PATTERN, dtype=bool)
    arr.flags.writeable = False
    return arr


def table_column_values():
    # the labels of a feature table, as pandas (copy-on-write) hands them out
    return pd.DataFrame({'is_burst': PATTERN})['is_burst'].values


def series_to_numpy():
    return pd.Series(PATTERN).to_numpy()


def from_buffer():
    return np.frombuffer(bytes(PATTERN), dtype=bool)


def broadcast():
    return np.broadcast_to(np.array(True), (4,))    # one run of 4


cases = [
    ('locked array (flags.writeable=False)', locked, 3),
    ('DataFrame column .values', table_column_values, 3),
    ('Series.to_numpy()', series_to_numpy, 2),
    ('np.frombuffer', from_buffer, 3),
    ('np.broadcast_to, min_n_cycles > n', broadcast, 5),
    # controls: same arrays, but no run is shorter than the minimum -> nothing to clear
    ('control: locked array, min_n_cycles=1', locked, 1),
    ('control: locked array, min_n_cycles=0', locked, 0),
]

violations = 0
for label, make, min_n in cases:
    arr = make()
    assert isinstance(arr, np.ndarray) and arr.dtype == bool and arr.ndim == 1
    before = arr.tolist()
    expected = reference(before, min_n)
    try:
        got = check_min_burst_cycles(arr, min_n_cycles=min_n)
    except Exception as exc:    # the statement promises a returned array for every boolean array
        violations += 1
        print('VIOLATION [%s] min_n_cycles=%r writeable=%s: raised %s: %s (expected %s)'
              % (label, min_n, arr.flags.writeable, type(exc).__name__, exc, expected))
        continue
    ok = len(got) == len(before) and [bool(v) for v in got] == expected
    if not ok:
        violations += 1
        print('VIOLATION [%s] min_n_cycles=%r: got %s expected %s' % (label, min_n, list(got), expected))
    else:
        print('ok        [%s] min_n_cycles=%r' % (label, min_n))

sys.exit(1 if violations else 0)
