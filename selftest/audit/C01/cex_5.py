"""C01 counterexample 5: burst_method='amp' with a lower amplitude threshold of 0.  amp_threshes=(0, x) passes the
library's own range check (bycycle/features/burst.py:368, lower bound in [0, upper]) and means "once a burst is
seeded, extend it as far as the amplitude is >= 0", i.e. over the whole signal.  The dual-threshold detector that
bycycle delegates to (bycycle/burst/dualthresh.py -> neurodsp _rmv_short_periods) then subtracts two Python lists
and compute_features / Bycycle.fit raise TypeError instead of returning the cycle table.  (0, 0) raises IndexError.

usage: python cex_5.py <path to source tree>      exit 1 = violation shows, 0 = not
"""
import sys, warnings
sys.path.insert(0, sys.argv[1] if len(sys.argv) > 1 else '.')
warnings.filterwarnings('ignore')
import numpy as np
from scipy.signal import firwin


def main():
    from bycycle.features import compute_features
    from bycycle import Bycycle

    fs, f_range, n = 1000, (8, 12), 3000
    rng = np.random.default_rng(0)
    t = np.arange(n) / fs
    sig = np.sin(2 * np.pi * 10 * t) + 0.1 * rng.standard_normal(n)

    flen = int(np.ceil(fs * 3 / f_range[0])) | 1
    bp = np.convolve(firwin(flen, f_range, pass_zero=False, fs=fs), sig, 'same')
    n_osc = len(np.flatnonzero((bp[:-1] <= 0) & (bp[1:] > 0))) - 1
    print('%d samples > %d taps, %d full oscillations in the band-passed version' % (n, flen, n_osc))

    violated = False
    for amp_threshes in ((1e-9, 0.5), (0, 0.5), (0.0, 1.0), (0, 0)):
        for how in ('compute_features', 'Bycycle.fit'):
            bk = {'amp_threshes': amp_threshes}
            try:
                if how == 'compute_features':
                    df = compute_features(sig, fs, f_range, burst_method='amp', burst_kwargs=bk, threshold_kwargs={})
                else:
                    bm = Bycycle(burst_method='amp', burst_kwargs=bk, thresholds={})
                    bm.fit(sig, fs, f_range)
                    df = bm.df_features
            except Exception as exc:                                    # noqa
                violated = True
                print('VIOLATION %s amp_threshes=%r raised %s: %s' % (how, amp_threshes, type(exc).__name__, str(exc)[:90]))
                continue
            L, C, N = (df[c].to_numpy() for c in ('sample_last_trough', 'sample_peak', 'sample_next_trough'))
            ok = ((L < C) & (C < N)).all() and (L[1:] == N[:-1]).all()
            print('ok %s amp_threshes=%r: %d rows, ordered and tiled: %s' % (how, amp_threshes, len(df), ok))
    return 1 if violated else 0


if __name__ == '__main__':
    sys.exit(main())
