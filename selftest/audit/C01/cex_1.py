"""C01 counterexample 1: a signal longer than the REQUESTED narrowband filter (n_cycles=1 / n_seconds=0.1)
with >= 3 full oscillations in its band-passed version makes compute_features / Bycycle.fit raise, because
compute_band_amp always filters with a hard-coded 3-cycle filter (bycycle/features/shape.py:119, 326).

usage: python cex_1.py <path to source tree>      exit 1 = violation shows, 0 = not
"""
import sys, warnings
sys.path.insert(0, sys.argv[1] if len(sys.argv) > 1 else '.')
warnings.filterwarnings('ignore')
import numpy as np
from scipy.signal import firwin


def own_filter_length(fs, f_lo, n_cycles=None, n_seconds=None):
    """length rule documented for the narrowband filter: n_cycles of f_lo (or n_seconds), made odd."""
    n = int(np.ceil(fs * n_seconds)) if n_seconds is not None else int(np.ceil(fs * n_cycles / f_lo))
    return n + 1 if n % 2 == 0 else n


def own_bandpass(sig, fs, f_range, filt_len):
    taps = firwin(filt_len, f_range, pass_zero=False, fs=fs)
    return np.convolve(taps, sig, 'same')


def full_oscillations(x):
    rises = np.flatnonzero((x[:-1] <= 0) & (x[1:] > 0))
    return max(len(rises) - 1, 0)


def structure_ok(df, n, boundary=0):
    L, C, N = (df[c].to_numpy() for c in ('sample_last_trough', 'sample_peak', 'sample_next_trough'))
    R, D = df['sample_zerox_rise'].to_numpy(), df['sample_zerox_decay'].to_numpy()
    ok = (L < C).all() and (C < N).all() and ((L <= R) & (R <= C)).all() and ((C <= D) & (D <= N)).all()
    ok = ok and (L[1:] == N[:-1]).all()
    for a in (L, C, N, R, D):
        ok = ok and (a > boundary).all() and (a < n - boundary).all()
    return bool(ok)


def main():
    from bycycle.features import compute_features
    from bycycle import Bycycle

    fs, f_range = 1000, (8, 20)
    n = 370
    sig = np.sin(2 * np.pi * 15 * np.arange(n) / fs)          # 5.5 cycles of 15 Hz
    violated = False

    for filter_kwargs in ({'n_cycles': 1}, {'n_seconds': 0.1}, {'n_cycles': 2}):
        flen = own_filter_length(fs, f_range[0], filter_kwargs.get('n_cycles'), filter_kwargs.get('n_seconds'))
        n_osc = full_oscillations(own_bandpass(sig, fs, f_range, flen))
        pre = np.isfinite(sig).all() and sig.ndim == 1 and n > flen and n_osc >= 3
        print('filter_kwargs=%r: filter length %d < signal length %d, band-passed version has %d full oscillations'
              ' -> precondition %s' % (filter_kwargs, flen, n, n_osc, pre))
        if not pre:
            continue
        for center in ('peak', 'trough'):
            for method in ('cycles', 'amp'):
                for how in ('compute_features', 'Bycycle.fit'):
                    fek = {'filter_kwargs': dict(filter_kwargs)}
                    try:
                        if how == 'compute_features':
                            df = compute_features(sig, fs, f_range, center_extrema=center, burst_method=method,
                                                  threshold_kwargs={}, find_extrema_kwargs=fek)
                        else:
                            bm = Bycycle(center_extrema=center, burst_method=method, thresholds={},
                                         find_extrema_kwargs=fek)
                            bm.fit(sig, fs, f_range)
                            df = bm.df_features
                    except Exception as exc:                         # noqa
                        violated = True
                        print('  VIOLATION %-16s centre=%-6s burst=%-6s raised %s: %s'
                              % (how, center, method, type(exc).__name__, str(exc)[:90]))
                        continue
                    print('  ok        %-16s centre=%-6s burst=%-6s %d rows' % (how, center, method, len(df)))

    # contrast: the same options on a slightly longer signal (longer than the hidden 3-cycle filter too) work
    n2 = 400
    sig2 = np.sin(2 * np.pi * 15 * np.arange(n2) / fs)
    df = compute_features(sig2, fs, f_range, threshold_kwargs={}, find_extrema_kwargs={'filter_kwargs': {'n_cycles': 1}})
    print('contrast: n=%d with n_cycles=1 -> %d rows, structure ok: %s' % (n2, len(df), structure_ok(df, n2)))
    return 1 if violated else 0


if __name__ == '__main__':
    sys.exit(main())
