"""C01 counterexample 4: a boolean (two-level) 1-D signal.  A thresholded oscillation stored as dtype bool is a
finite 1-D signal whose band-passed version oscillates; compute_features / Bycycle.fit raise TypeError
(numpy refuses `-` on booleans) at bycycle/features/shape.py:101 (`sig = -sig`, trough-centred) and
shape.py:267-268 (`sig[...] - sig[...]`, peak-centred).  The guard added for integer signals
(`np.issubdtype(dtype, np.integer)`, shape.py:94, zerox.py:55, burst.py:295) does not cover np.bool_; in addition
zerox.py:127 computes the half height of a boolean flank as (True + True) / 2 = 0.5.
The same samples as float64 (or uint8) are analysed without error.

usage: python cex_4.py <path to source tree>      exit 1 = violation shows, 0 = not
"""
import sys, warnings
sys.path.insert(0, sys.argv[1] if len(sys.argv) > 1 else '.')
warnings.filterwarnings('ignore')
import numpy as np
from scipy.signal import firwin


def full_oscillations(x):
    rises = np.flatnonzero((x[:-1] <= 0) & (x[1:] > 0))
    return max(len(rises) - 1, 0)


def structure_violations(df, n, center):
    c, s = ('peak', 'trough') if center == 'peak' else ('trough', 'peak')
    m1, m2 = ('rise', 'decay') if center == 'peak' else ('decay', 'rise')
    L, C, N = df['sample_last_' + s].to_numpy(), df['sample_' + c].to_numpy(), df['sample_next_' + s].to_numpy()
    A, B = df['sample_zerox_' + m1].to_numpy(), df['sample_zerox_' + m2].to_numpy()
    bad = []
    if not ((L < C) & (C < N)).all(): bad.append('order')
    if not ((L <= A) & (A <= C) & (C <= B) & (B <= N)).all(): bad.append('midpoints')
    if not (L[1:] == N[:-1]).all(): bad.append('tiling')
    if not all(((a > 0) & (a < n)).all() for a in (L, C, N, A, B)): bad.append('range')
    return bad


def main():
    from bycycle.features import compute_features
    from bycycle import Bycycle

    fs, f_range, n = 1000, (8, 12), 3000
    rng = np.random.default_rng(0)
    t = np.arange(n) / fs
    sig_bool = (np.sin(2 * np.pi * 10 * t) + 0.2 * rng.standard_normal(n)) > 0
    assert sig_bool.dtype == np.bool_ and sig_bool.ndim == 1

    flen = int(np.ceil(fs * 3 / f_range[0])) | 1
    bp = np.convolve(firwin(flen, f_range, pass_zero=False, fs=fs), sig_bool.astype(float), 'same')
    n_osc = full_oscillations(bp)
    print('boolean signal: %d samples > %d filter taps, band-passed version has %d full oscillations' % (n, flen, n_osc))
    if not (n > flen and n_osc >= 3):
        return 0

    violated = False
    for center in ('peak', 'trough'):
        # reference: the very same samples as floats
        ref = compute_features(sig_bool.astype(float), fs, f_range, center_extrema=center, threshold_kwargs={})
        print('centre=%s float64 copy: %d rows, structure violations: %r' % (center, len(ref), structure_violations(ref, n, center)))
        for how in ('compute_features', 'Bycycle.fit'):
            try:
                if how == 'compute_features':
                    df = compute_features(sig_bool, fs, f_range, center_extrema=center, threshold_kwargs={})
                else:
                    bm = Bycycle(center_extrema=center, thresholds={})
                    bm.fit(sig_bool, fs, f_range)
                    df = bm.df_features
            except Exception as exc:                                   # noqa
                violated = True
                print('  VIOLATION %s(bool) centre=%s raised %s: %s' % (how, center, type(exc).__name__, str(exc)[:100]))
                continue
            bad = structure_violations(df, n, center)
            print('  %s(bool) centre=%s: %d rows, structure violations %r' % (how, center, len(df), bad))
            violated = violated or bool(bad)
    return 1 if violated else 0


if __name__ == '__main__':
    sys.exit(main())
