"""C01 counterexample 3: slow bands.  For narrow bands below ~0.5 Hz (e.g. respiration, 0.2-0.4 Hz) - at ANY sampling
rate - compute_features / Bycycle.fit raise ValueError('Invalid transition band. Redefine f_range.') although the
signal is finite, much longer than the filter and its band-passed version has dozens of oscillations.  bycycle hands
the signal to neurodsp.filt.filter_signal (bycycle/cyclepoints/extrema.py:85), whose built-in sanity check samples
the filter's frequency response on a fixed 0.25 Hz grid (int(2*fs) points up to Nyquist) and raises when no grid point
falls inside the -20..-3 dB transition; the FIR filter itself is perfectly fine.

usage: python cex_3.py <path to source tree>      exit 1 = violation shows, 0 = not
"""
import sys, warnings
sys.path.insert(0, sys.argv[1] if len(sys.argv) > 1 else '.')
warnings.filterwarnings('ignore')
import numpy as np
from scipy.signal import firwin


def own_filter_length(fs, f_lo, n_cycles=3):
    n = int(np.ceil(fs * n_cycles / f_lo))
    return n + 1 if n % 2 == 0 else n


def own_bandpass(sig, fs, f_range, filt_len):
    return np.convolve(firwin(filt_len, f_range, pass_zero=False, fs=fs), sig, 'same')


def full_oscillations(x):
    rises = np.flatnonzero((x[:-1] <= 0) & (x[1:] > 0))
    return max(len(rises) - 1, 0)


def main():
    from bycycle.features import compute_features
    from bycycle import Bycycle

    violated = False
    rng = np.random.default_rng(0)
    cases = [
        # fs, f_range, oscillation frequency, duration (s), filter kwargs
        (100, (0.2, 0.4), 0.3, 300, None),
        (100, (0.2, 0.4), 0.3, 300, {'n_cycles': 5}),
        (25, (0.2, 0.4), 0.3, 300, {'n_seconds': 20}),
        (10, (0.4, 0.8), 0.6, 200, None),
        (2, (0.04, 0.08), 0.06, 1500, None),
        (100, (0.5, 1.0), 0.75, 120, None),            # control: this band works
    ]
    for fs, f_range, f, secs, fk in cases:
        n = int(secs * fs)
        t = np.arange(n) / fs
        sig = np.sin(2 * np.pi * f * t) + 0.05 * rng.standard_normal(n)
        if fk is None or 'n_cycles' in fk:
            flen = own_filter_length(fs, f_range[0], (fk or {}).get('n_cycles', 3))
        else:
            flen = int(np.ceil(fs * fk['n_seconds'])) | 1
        n_osc = full_oscillations(own_bandpass(sig, fs, f_range, flen))
        pre = np.isfinite(sig).all() and n > flen and n_osc >= 3
        print('fs=%g f_range=%r filter=%r: %d samples, filter %d taps, band-passed version (own FIR) has %d full '
              'oscillations -> precondition %s' % (fs, f_range, fk, n, flen, n_osc, pre))
        if not pre:
            continue
        fek = None if fk is None else {'filter_kwargs': fk}
        for how in ('compute_features', 'Bycycle.fit'):
            try:
                if how == 'compute_features':
                    df = compute_features(sig, fs, f_range, threshold_kwargs={}, find_extrema_kwargs=fek)
                else:
                    bm = Bycycle(thresholds={}, find_extrema_kwargs=fek)
                    bm.fit(sig, fs, f_range)
                    df = bm.df_features
            except Exception as exc:                                   # noqa
                violated = True
                print('  VIOLATION %s raised %s: %s' % (how, type(exc).__name__, exc))
                continue
            print('  ok %s: %d rows' % (how, len(df)))
    return 1 if violated else 0


if __name__ == '__main__':
    sys.exit(main())
