"""C01 counterexample 6 (weaker): a boundary that leaves fewer than two peaks and two troughs.  The signal is a clean
10 Hz sine (1 s, fs=1000: 10 oscillations in the band-passed version, longer than the 375-tap filter).  With
boundary=430 only samples 431..569 may hold cyclepoints (one trough at 475, one peak at 525).  No complete cycle lies
beyond the requested boundary, so the table that satisfies the statement is the empty one; instead find_extrema
indexes an empty array (bycycle/cyclepoints/extrema.py:145-146) - or, for boundary=400 + one cycle less,
compute_band_amp does (bycycle/features/shape.py:328) - and compute_features raises IndexError.

usage: python cex_6.py <path to source tree>      exit 1 = violation shows, 0 = not
"""
import sys, warnings
sys.path.insert(0, sys.argv[1] if len(sys.argv) > 1 else '.')
warnings.filterwarnings('ignore')
import numpy as np
from scipy.signal import firwin


def main():
    from bycycle.features import compute_features

    fs, f_range, n = 1000, (8, 12), 1000
    t = np.arange(n) / fs
    sig = np.sin(2 * np.pi * 10 * t)
    flen = int(np.ceil(fs * 3 / f_range[0])) | 1
    bp = np.convolve(firwin(flen, f_range, pass_zero=False, fs=fs), sig, 'same')
    n_osc = len(np.flatnonzero((bp[:-1] <= 0) & (bp[1:] > 0))) - 1
    print('%d samples > %d taps, %d full oscillations in the band-passed version' % (n, flen, n_osc))

    violated = False
    for boundary in (300, 400, 420, 430, 460, 480, 499):
        # independent expectation: raw-signal extrema strictly beyond the boundary
        inner = np.arange(boundary + 1, n - boundary)
        pk = [i for i in inner if sig[i] > sig[i - 1] and sig[i] >= sig[i + 1]]
        tr = [i for i in inner if sig[i] < sig[i - 1] and sig[i] <= sig[i + 1]]
        for center in ('peak', 'trough'):
            side = tr if center == 'peak' else pk
            expected_rows = max(len(side) - 1, 0)
            try:
                df = compute_features(sig, fs, f_range, center_extrema=center, threshold_kwargs={},
                                      find_extrema_kwargs={'boundary': boundary})
            except Exception as exc:                                  # noqa
                violated = True
                print('VIOLATION boundary=%d centre=%s: %d peaks / %d troughs beyond the boundary, expected a table '
                      'with %d rows, got %s: %s' % (boundary, center, len(pk), len(tr), expected_rows,
                                                    type(exc).__name__, exc))
                continue
            print('ok boundary=%d centre=%s: %d rows (expected %d)' % (boundary, center, len(df), expected_rows))
    return 1 if violated else 0


if __name__ == '__main__':
    sys.exit(main())
