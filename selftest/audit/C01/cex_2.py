"""C01 counterexample 2: DC offsets.  A clean 10 Hz sine riding on a constant offset (5 s, fs=1000, band 8-12 Hz)
makes compute_features raise IndexError (or return a table whose rows are not cycles): the FIR band-pass leaks DC
(gain 0.53 for n_cycles=1, -0.004 for n_cycles=2, -0.0027 for n_cycles=3), the leaked offset lifts the narrowband
signal off zero, find_extrema (bycycle/cyclepoints/extrema.py:88-97) finds zero-crossings only in the edge
transients, and the count / trimming code (extrema.py:139-146, features/shape.py:328) indexes empty arrays.

usage: python cex_2.py <path to source tree>      exit 1 = violation shows, 0 = not
"""
import sys, warnings
sys.path.insert(0, sys.argv[1] if len(sys.argv) > 1 else '.')
warnings.filterwarnings('ignore')
import numpy as np
from scipy.signal import firwin


def own_filter_length(fs, f_lo, n_cycles=3):
    n = int(np.ceil(fs * n_cycles / f_lo))
    return n + 1 if n % 2 == 0 else n


def own_bandpass(sig, fs, f_range, filt_len):
    return np.convolve(firwin(filt_len, f_range, pass_zero=False, fs=fs), sig, 'same')


def local_maxima(x):
    return np.flatnonzero((x[1:-1] > x[:-2]) & (x[1:-1] >= x[2:])) + 1


def local_minima(x):
    return np.flatnonzero((x[1:-1] < x[:-2]) & (x[1:-1] <= x[2:])) + 1


def main():
    from bycycle.features import compute_features

    fs, f_range, n = 1000, (8, 12), 5000
    t = np.arange(n) / fs
    violated = False

    cases = [
        # (offset, find_extrema_kwargs, label)
        (2.0, {'filter_kwargs': {'n_cycles': 1}}, 'offset 2, n_cycles=1'),
        (-3.0, {'filter_kwargs': {'n_cycles': 1}}, 'offset -3, n_cycles=1'),
        (1000.0, {'filter_kwargs': {'n_cycles': 2}}, 'offset 1000, n_cycles=2'),
        (1000.0, {'boundary': 200}, 'offset 1000, default filter, boundary=200'),
        (1000.0, None, 'offset 1000, all defaults'),
        (0.0, {'filter_kwargs': {'n_cycles': 1}}, 'control: offset 0, n_cycles=1'),
    ]
    for offset, fek, label in cases:
        sig = np.sin(2 * np.pi * 10 * t) + offset
        n_cycles = ((fek or {}).get('filter_kwargs') or {}).get('n_cycles', 3)
        boundary = (fek or {}).get('boundary', 0)
        flen = own_filter_length(fs, f_range[0], n_cycles)
        bp = own_bandpass(sig, fs, f_range, flen)
        inner = bp[max(boundary, flen):n - max(boundary, flen)]        # away from edge transients
        n_osc_bp = min(len(local_maxima(inner)), len(local_minima(inner))) - 1
        n_cyc_raw = len(local_maxima(sig[boundary:n - boundary]))
        pre = np.isfinite(sig).all() and n > flen and n_osc_bp >= 3
        print('%s: raw signal has %d cycles beyond the boundary; band-passed version (own FIR, %d taps) has %d full'
              ' oscillations in its interior (mean level %.2f, swing %.2f) -> precondition %s'
              % (label, n_cyc_raw, flen, n_osc_bp, inner.mean(), np.ptp(inner) / 2, pre))
        if not pre:
            continue
        for center in ('peak', 'trough'):
            try:
                df = compute_features(sig, fs, f_range, center_extrema=center, threshold_kwargs={},
                                      find_extrema_kwargs=fek)
            except Exception as exc:                                     # noqa
                violated = True
                print('  VIOLATION (table instead of raising) centre=%s: %s: %s' % (center, type(exc).__name__, exc))
                continue
            side = 'trough' if center == 'peak' else 'peak'
            first, last = df['sample_last_' + side].iloc[0], df['sample_next_' + side].iloc[-1]
            # independent count of cycles of the raw signal inside the stretch the table claims to tile
            ext = local_minima(sig) if center == 'peak' else local_maxima(sig)
            n_inside = int(((ext > first) & (ext < last)).sum()) + 1
            longest = int((df['sample_next_' + side] - df['sample_last_' + side]).max())
            msg = 'centre=%s: %d rows tile samples %d..%d, which hold %d cycles of the raw sine; longest row %d samples' \
                  % (center, len(df), first, last, n_inside, longest)
            if len(df) != n_inside:
                violated = True
                print('  VIOLATION (one row per cycle) ' + msg)
            else:
                print('  ok ' + msg)
    return 1 if violated else 0


if __name__ == '__main__':
    sys.exit(main())
