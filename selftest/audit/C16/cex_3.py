"""C16 counterexample 3: with UNCHANGED thresholds, previously bursting cycles stop bursting.

Epoch tables returned by compute_features_2d(axis=None) / BycycleGroup.fit (2-D axis=None, 3-D default axis=0) are
labelled on the flattened signal, so a burst may touch the first / last row of an epoch table.  recompute_edges
re-labels with detect_bursts_cycles, which forces the first and the last row to False and then applies min_n_cycles
to what is left, so cycles of a burst that crosses the epoch boundary are dropped (a whole burst remainder when fewer
than min_n_cycles rows are left).  The statement: "with unchanged thresholds every previously bursting cycle stays
bursting and bursts can only grow at their edges".

usage: python cex_3.py <path to source tree>     exit 1 = violation shows, 0 = not
"""
import sys, warnings
sys.path.insert(0, sys.argv[1] if len(sys.argv) > 1 else '.')
warnings.filterwarnings('ignore')
import numpy as np


def make_signals():
    fs = 500
    t = np.arange(0, 6, 1 / fs)
    rs = np.random.RandomState(3)
    noise = np.convolve(rs.randn(len(t)), np.ones(15) / 15, mode='same')
    env = ((t >= 1.0) & (t < 3.0)) | ((t >= 3.7) & (t < 5.2))
    sig = env * np.sin(2 * np.pi * 10 * t) + 0.25 * noise
    return sig, fs


def main():
    from bycycle import BycycleGroup

    sig, fs = make_signals()
    thr = dict(amp_fraction_threshold=0.2, amp_consistency_threshold=.5, period_consistency_threshold=.5,
               monotonicity_threshold=.7, min_n_cycles=3)
    status = 0

    # (a) 2-D, axis=None: three epochs of one recording
    # (b) 3-D, default axis: (n_channels=2, n_epochs=3, n_samples), second channel = inverted first
    sigs2 = sig.reshape(3, -1)
    sigs3 = np.stack([sigs2, -sigs2])
    for label, sigs, fit_kwargs in (('2-D axis=None', sigs2, dict(axis=None)), ('3-D default axis', sigs3, dict())):
        bg = BycycleGroup(thresholds=dict(thr))
        bg.fit(sigs, fs, (8, 12), n_jobs=1, **fit_kwargs)
        flat = (lambda x: [d for ch in x for d in ch]) if sigs.ndim == 3 else (lambda x: list(x))
        before = [d['is_burst'].to_numpy().astype(bool).copy() for d in flat(bg.df_features)]
        thr_before = dict(bg.thresholds)
        bg.recompute_edges()                    # no reduction: thresholds unchanged
        assert bg.thresholds == thr_before == thr
        after = [d['is_burst'].to_numpy().astype(bool) for d in flat(bg.df_features)]
        for k, (b, a) in enumerate(zip(before, after)):
            lost = np.flatnonzero(b & ~a).tolist()
            if lost:
                status = 1
                print('%s, table %d: before %s' % (label, k, b.astype(int)))
                print('%s            after  %s   bursting cycles lost: %s' % (' ' * len(label), a.astype(int), lost))
    print('VIOLATION' if status else 'no violation')
    return status


if __name__ == '__main__':
    sys.exit(main())
