"""C16 counterexample 4 (lower confidence - depends on whether an exception counts as "does not return the table"):
Bycycle.recompute_edges(reduction) with a threshold that the reduction takes below 0 (or above 1 for a negative
reduction) raises ValueError instead of returning the re-labelled table.

This is the DEFAULT configuration: Bycycle() holds amp_fraction_threshold = 0.0 (and the documented example of
recompute_edges uses 0. too), reduce_thresholds subtracts the reduction from EVERY key ending in 'threshold', and
detect_bursts_cycles range-checks the result.  The same effective setting with the key left out (default 0) works.

usage: python cex_4.py <path to source tree>     exit 1 = violation shows, 0 = not
"""
import sys, warnings
sys.path.insert(0, sys.argv[1] if len(sys.argv) > 1 else '.')
warnings.filterwarnings('ignore')
import numpy as np


def make_signal():
    fs = 500
    t = np.arange(0, 6, 1 / fs)
    rs = np.random.RandomState(11)
    noise = np.convolve(rs.randn(len(t)), np.ones(15) / 15, mode='same')
    env = ((t >= 1.0) & (t < 3.0)) | ((t >= 3.7) & (t < 5.2))
    return env * np.sin(2 * np.pi * 10 * t) + 0.25 * noise, fs


def rule(T, amp_fraction_threshold=0., amp_consistency_threshold=.5, period_consistency_threshold=.5,
         monotonicity_threshold=.8, min_n_cycles=3):
    ok = ((T['amp_fraction'].to_numpy() > amp_fraction_threshold)
          & (T['amp_consistency'].to_numpy() > amp_consistency_threshold)
          & (T['period_consistency'].to_numpy() > period_consistency_threshold)
          & (T['monotonicity'].to_numpy() > monotonicity_threshold)).copy()
    if len(ok):
        ok[0] = ok[-1] = False
    d = np.diff(np.concatenate([[0], ok.astype(int), [0]]))
    for a, b in zip(np.flatnonzero(d == 1), np.flatnonzero(d == -1)):
        if b - a < min_n_cycles:
            ok[a:b] = False
    return ok


def main():
    from bycycle import Bycycle
    sig, fs = make_signal()
    status = 0

    cases = [('Bycycle() defaults, reduction=0.01', None, 0.01),
             ('amp_fraction=0. written out (as in the recompute_edges docstring), reduction=0.01',
              {'amp_fraction_threshold': 0., 'amp_consistency_threshold': .5, 'period_consistency_threshold': .5,
               'monotonicity_threshold': .8, 'min_n_cycles': 3}, 0.01),
             ('same thresholds, amp_fraction key left out (default 0.), reduction=0.01',
              {'amp_consistency_threshold': .5, 'period_consistency_threshold': .5,
               'monotonicity_threshold': .8, 'min_n_cycles': 3}, 0.01)]
    for label, thresholds, reduction in cases:
        bm = Bycycle(thresholds=None if thresholds is None else dict(thresholds))
        bm.fit(sig, fs, (8, 12))
        before = bm.df_features['is_burst'].to_numpy().copy()
        try:
            bm.recompute_edges(reduction)
        except ValueError as err:
            status = 1
            print('%s: ValueError: %s' % (label, err))
            continue
        # the returned labels are the rule with the reduced thresholds applied to the edited table
        red = {k: (v - reduction if k.endswith('threshold') else v) for k, v in bm.thresholds.items()}
        ok = np.array_equal(rule(bm.df_features, **red), bm.df_features['is_burst'].to_numpy())
        print('%s: table returned, labels follow the rule: %s, bursting %d -> %d'
              % (label, ok, before.sum(), bm.df_features['is_burst'].sum()))
        if not ok:
            status = 1
    print('VIOLATION' if status else 'no violation')
    return status


if __name__ == '__main__':
    sys.exit(main())
