"""C16 counterexample 1: peak-centred table WITHOUT sample columns (return_samples=False).

recompute_edges / Bycycle.recompute_edges write, at the cycles just outside a burst, an amplitude consistency
that is NOT the one-sided value looking into the burst: compute_amp_consistency decides "peak or trough centred"
from the presence of the column 'sample_peak'; without sample columns a peak-centred table is treated as
trough-centred and non-adjacent flanks (rise of cycle i with decay of cycle i+1 ...) are compared.

usage: python cex_1.py <path to source tree>     exit 1 = violation shows, 0 = not
"""
import sys, warnings
sys.path.insert(0, sys.argv[1] if len(sys.argv) > 1 else '.')
warnings.filterwarnings('ignore')
import numpy as np


def make_signal():
    fs = 500
    t = np.arange(0, 6, 1 / fs)
    rs = np.random.RandomState(11)
    noise = np.convolve(rs.randn(len(t)), np.ones(15) / 15, mode='same')
    env = ((t >= 1.0) & (t < 3.0)) | ((t >= 3.7) & (t < 5.2))
    return env * np.sin(2 * np.pi * 10 * t) + 0.25 * noise, fs


def ratio(a, b):
    with np.errstate(all='ignore'):
        return np.float64(min(a, b)) / np.float64(max(a, b))


def nanmin_or_nan(vals):
    vals = np.array(vals, dtype=float)
    out = np.nan if np.isnan(vals).all() else np.nanmin(vals)
    return 0. if out < 0 else out


def amp_peak_centred(T, i, sides):
    """peak-centred cycle i = rise[i] then decay[i]; decay[i-1] precedes rise[i]; rise[i+1] follows decay[i]"""
    r = T['volt_rise'].to_numpy(); d = T['volt_decay'].to_numpy()
    vals = [ratio(r[i], d[i])]
    if 'last' in sides: vals.append(ratio(r[i], d[i - 1]))
    if 'next' in sides: vals.append(ratio(d[i], r[i + 1]))
    return nanmin_or_nan(vals)


def runs(b):
    d = np.diff(np.concatenate([[0], np.asarray(b, bool).astype(int), [0]]))
    return list(zip(np.flatnonzero(d == 1), np.flatnonzero(d == -1) - 1))


def main():
    from bycycle.features import compute_features
    from bycycle.burst import recompute_edges
    from bycycle import Bycycle

    sig, fs = make_signal()
    thr = dict(amp_fraction_threshold=0.2, amp_consistency_threshold=.5, period_consistency_threshold=.5,
               monotonicity_threshold=.7, min_n_cycles=3)

    T = compute_features(sig, fs, (8, 12), center_extrema='peak', threshold_kwargs=dict(thr), return_samples=False)
    T_full = compute_features(sig, fs, (8, 12), center_extrema='peak', threshold_kwargs=dict(thr), return_samples=True)
    n = len(T)
    assert not any(c.startswith('sample_') for c in T.columns)

    # the table really is peak-centred: its own (two-sided) amplitude consistency is the peak-centred formula
    own = T['amp_consistency'].to_numpy()
    for i in range(1, n - 1):
        assert abs(own[i] - amp_peak_centred(T, i, ('last', 'next'))) < 1e-12, 'table is not peak-centred?'

    out = recompute_edges(T, dict(thr))
    bm = Bycycle(center_extrema='peak', thresholds=dict(thr), return_samples=False)
    bm.fit(sig, fs, (8, 12))
    bm.recompute_edges()
    out_obj = bm.df_features

    isb = T['is_burst'].to_numpy().astype(bool)
    bad = []
    for a, b in runs(isb):
        for i, side in ((a - 1, 'next'), (b + 1, 'last')):
            if i <= 0 or i >= n - 1:
                continue
            exp = amp_peak_centred(T, i, (side,))
            for name, o in (('recompute_edges', out), ('Bycycle.recompute_edges', out_obj)):
                got = o['amp_consistency'].to_numpy()[i]
                if not (abs(got - exp) < 1e-12 or (np.isnan(got) and np.isnan(exp))):
                    bad.append((name, int(i), side, float(got), float(exp)))

    # second, formula-free check: dropping the sample columns must not change what recompute_edges computes
    out_full = recompute_edges(T_full, dict(thr))
    cols = [c for c in out_full.columns if not c.startswith('sample_')]
    same_as_full = out_full[cols].equals(out[cols])
    lab_diff = np.flatnonzero(out_full['is_burst'].to_numpy() != out['is_burst'].to_numpy()).tolist()

    print('bursts (first, last row):', [(int(a), int(b)) for a, b in runs(isb)])
    for rec in bad:
        print('%s: edge row %d (%s): amp_consistency written %.6f, one-sided value looking into the burst %.6f' % rec)
    print('result equals the result for the same table with sample columns:', same_as_full)
    print('rows labelled differently from the table with sample columns:', lab_diff)
    if bad or not same_as_full:
        print('VIOLATION')
        return 1
    print('no violation')
    return 0


if __name__ == '__main__':
    sys.exit(main())
