"""C16 counterexample 2: epoch tables (compute_features_2d(axis=None) / BycycleGroup.fit(axis=None), and the default
axis=0 of 3-D input which epochs each channel the same way) whose burst touches the START of the epoch.

recompute_edges pairs the is_burst transitions as (start, end), (start, end), ... assuming the table begins outside a
burst. In an epoch table that begins inside a burst the first transition is an END; every pair is then shifted by one:
  * the rows that are edited are the first / last rows INSIDE the bursts (with a value looking OUT of the burst):
    signal 1 - the bursting last row of the epoch gets amp_consistency = period_consistency = NaN,
    signal 2 - a bursting row gets other (larger) numeric consistencies;
  * the cycles immediately outside the bursts are never recomputed.
The statement allows changes only at the cycles immediately outside a burst ("all other ... rows are unchanged").

usage: python cex_2.py <path to source tree>     exit 1 = violation shows, 0 = not
"""
import sys, warnings
sys.path.insert(0, sys.argv[1] if len(sys.argv) > 1 else '.')
warnings.filterwarnings('ignore')
import numpy as np


def make_signals(seed, onset):
    fs = 500
    t = np.arange(0, 6, 1 / fs)
    rs = np.random.RandomState(seed)
    noise = np.convolve(rs.randn(len(t)), np.ones(15) / 15, mode='same')
    env = ((t >= 1.0) & (t < 3.0)) | ((t >= onset) & (t < 5.2))
    sig = env * np.sin(2 * np.pi * 10 * t) + 0.25 * noise
    return sig.reshape(3, -1), fs          # three epochs of 2 s


def runs(b):
    d = np.diff(np.concatenate([[0], np.asarray(b, bool).astype(int), [0]]))
    return list(zip(np.flatnonzero(d == 1), np.flatnonzero(d == -1) - 1))


def same(a, b):
    return a == b or (np.isnan(a) and np.isnan(b))


def changed_rows(T, out):
    rows = set()
    for c in ('amp_consistency', 'period_consistency'):
        old, new = T[c].to_numpy(), out[c].to_numpy()
        rows |= {i for i in range(len(T)) if not same(old[i], new[i])}
    return rows


def main():
    from bycycle import BycycleGroup
    from bycycle.group import compute_features_2d
    from bycycle.burst import recompute_edges

    thr = dict(amp_fraction_threshold=0.2, amp_consistency_threshold=.5, period_consistency_threshold=.5,
               monotonicity_threshold=.7, min_n_cycles=3)
    status = 0
    # first signal: the second burst starts in the last cycle of epoch 1 (NaN written into a bursting row)
    # second signal: the second burst starts early in epoch 1 (numeric values of bursting rows replaced)
    for (seed, onset), center in ((c, e) for c in ((3, 3.82), (13, 3.3)) for e in ('peak', 'trough')):
        sigs, fs = make_signals(seed, onset)
        kwargs = {'center_extrema': center, 'threshold_kwargs': dict(thr)}
        dfs = compute_features_2d(sigs, fs, (8, 12), kwargs, axis=None)

        bg = BycycleGroup(center_extrema=center, thresholds=dict(thr))
        bg.fit(sigs, fs, (8, 12), axis=None, n_jobs=1)
        before = [d.copy(deep=True) for d in bg.df_features]
        bg.recompute_edges()

        for k, T in enumerate(dfs):
            assert T.equals(before[k])
            isb = T['is_burst'].to_numpy().astype(bool)
            n = len(T)
            outside = set()
            for a, b in runs(isb):
                if a - 1 >= 0: outside.add(int(a - 1))
                if b + 1 < n: outside.add(int(b + 1))
            for name, out in (('recompute_edges', recompute_edges(T, dict(thr))),
                              ('BycycleGroup.recompute_edges', bg.df_features[k])):
                illegal = sorted(int(i) for i in changed_rows(T, out) - outside)
                if illegal:
                    status = 1
                    print('%s, %s-centred, epoch %d, is_burst = %s' % (name, center, k, isb.astype(int)))
                    for i in illegal:
                        print('    row %d (is_burst=%s, not immediately outside a burst) changed: amp %r -> %r, period %r -> %r'
                              % (i, isb[i], float(T['amp_consistency'][i]), float(out['amp_consistency'][i]),
                                 float(T['period_consistency'][i]), float(out['period_consistency'][i])))
    print('VIOLATION' if status else 'no violation')
    return status


if __name__ == '__main__':
    sys.exit(main())
