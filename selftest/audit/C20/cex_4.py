"""C20 counterexample 4 (reading-dependent): the burst summary does not draw cyclepoints of the table that lie
strictly inside the view when their cycle is cut by a window edge.

plot_burst_detect_summary first removes every cycle that is not entirely inside the x-limits (limit_df) and
only then hands the table to plot_cyclepoints_df.  The centre extremum of the cycle cut by the left / right
edge lies strictly inside the view (the trace under it is drawn), it is a cyclepoint of the table the plot was
given, but it gets no marker.  plot_cyclepoints_df called directly with the same table and x-limits draws it.
The x-limits used here have an exact product fs * start (no rounding involved).

usage: python cex_4.py <source tree>     exit 1 = violation shown, 0 = not shown
"""
import sys, warnings
sys.path.insert(0, sys.argv[1] if len(sys.argv) > 1 else '.')
warnings.filterwarnings('ignore')
import matplotlib
matplotlib.use('Agg')
import matplotlib.pyplot as plt
import numpy as np
from neurodsp.sim import sim_combined
from bycycle.features import compute_features
from bycycle.plts import plot_burst_detect_summary, plot_cyclepoints_df

THR = {'amp_fraction_threshold': 0., 'amp_consistency_threshold': .5,
       'period_consistency_threshold': .5, 'monotonicity_threshold': .8, 'min_n_cycles': 3}


def marker_samples(ax, fs):
    out = set()
    for ln in ax.lines:
        if ln.get_marker() == 'o' and ln.get_linestyle() == 'None':
            out |= set(np.round(np.asarray(ln.get_xdata(), float) * fs).astype(int).tolist())
    return out


def main():
    found = []
    fs = 500
    np.random.seed(3)
    sig = sim_combined(6, fs, {'sim_bursty_oscillation': {'freq': 10},
                               'sim_powerlaw': {'exponent': -2}}, component_variances=(1, .1))
    for center in ('peak', 'trough'):
        side = 'trough' if center == 'peak' else 'peak'
        df = compute_features(sig, fs, (8, 12), center_extrema=center, threshold_kwargs=THR)
        for k0, k1 in [(500, 1000), (750, 1750), (1000, 1040)]:
            assert fs * (k0 / fs) == k0 and fs * (k1 / fs) == k1
            xlim = (k0 / fs, k1 / fs)
            # extrema of the given table strictly inside the view
            pts = set(df['sample_' + center]) | set(df['sample_last_' + side]) | set(df['sample_next_' + side])
            inside = {int(p) for p in pts if k0 < p < k1 - 1}
            plot_burst_detect_summary(df, sig, fs, THR, xlim=xlim, plot_only_result=True)
            drawn = marker_samples(plt.gcf().axes[0], fs)
            plt.close('all')
            fig, ax = plt.subplots()
            plot_cyclepoints_df(df, sig, fs, xlim=xlim, plot_zerox=False, ax=ax)
            direct = marker_samples(ax, fs)
            plt.close('all')
            if not inside <= direct:
                print('plot_cyclepoints_df itself misses', sorted(inside - direct))
            if not inside <= drawn:
                found.append((center, xlim, sorted(inside - drawn), len(drawn)))
    for f in found:
        print('centre=%s xlim=%r: extrema of the table strictly inside the view without a marker in the '
              'summary: samples %s (%d markers drawn)' % f)
    print('violations: %d' % len(found))
    return 1 if found else 0


if __name__ == '__main__':
    sys.exit(main())
