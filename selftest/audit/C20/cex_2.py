"""C20 counterexample 2: parameter panels draw the per-cycle values one sample beside the cycle centre.

x-limits are exact sample times.  plot_burst_detect_param re-indexes the table with
limit_df(..., reset_indices=True), which subtracts int(fs * start); when fs * (k0 / fs) is a hair below k0
(fs=1000, xlim[0]=1.001; fs=500, xlim[0]=2.002; fs=100, xlim[0]=0.29 ...) that is k0-1, so every value in
every parameter panel is drawn at (centre + 1) / fs instead of centre / fs, and the cycle ending on the
last displayed sample is dropped.

usage: python cex_2.py <source tree>     exit 1 = violation shown, 0 = not shown
"""
import sys, warnings
sys.path.insert(0, sys.argv[1] if len(sys.argv) > 1 else '.')
warnings.filterwarnings('ignore')
import matplotlib
matplotlib.use('Agg')
import matplotlib.pyplot as plt
import numpy as np
from neurodsp.sim import sim_combined
from bycycle import Bycycle
from bycycle.features import compute_features
from bycycle.plts import plot_burst_detect_summary

THR = {'amp_fraction_threshold': 0., 'amp_consistency_threshold': .5,
       'period_consistency_threshold': .5, 'monotonicity_threshold': .8, 'min_n_cycles': 3}


def panel_errors(fig, df, fs, center, thr):
    """Every point of every parameter panel must be (centre / fs, value) of one row of the table."""
    keys = [k for k in thr if k != 'min_n_cycles']
    errs = []
    for ax, key in zip(fig.axes[1:], keys):
        col = key.replace('_threshold', '')
        rows = {c / fs: v for c, v in zip(df['sample_' + center], df[col])}
        data = ax.lines[0]
        for x, y in zip(np.asarray(data.get_xdata(), float), np.asarray(data.get_ydata(), float)):
            if x not in rows:
                errs.append((col, 'value drawn at t=%r = sample %r, not a cycle centre' % (float(x), float(round(x * fs)))))
                break
            if not (rows[x] == y or (np.isnan(rows[x]) and np.isnan(y))):
                errs.append((col, 'value at centre %r is %r, table says %r' % (float(x), float(y), float(rows[x]))))
                break
        line = np.asarray(ax.lines[1].get_ydata(), float)
        if not np.all(line == thr[key]):
            errs.append((col, 'threshold line at %r, given %r' % (line, thr[key])))
    return errs


def main():
    found = []
    for fs, center in [(1000, 'peak'), (500, 'trough'), (100, 'peak')]:
        np.random.seed(3)
        sig = sim_combined(6, fs, {'sim_bursty_oscillation': {'freq': 10},
                                   'sim_powerlaw': {'exponent': -2}}, component_variances=(1, .1))
        n = len(sig)
        df = compute_features(sig, fs, (8, 12), center_extrema=center, threshold_kwargs=THR)
        bm = Bycycle(center_extrema=center, thresholds=dict(THR))
        bm.fit(sig, fs, (8, 12))
        lows = [k for k in range(1, n - fs) if fs * (k / fs) < k][:3]
        controls = [k - 1 for k in lows if fs * ((k - 1) / fs) == k - 1][:2]
        for k0 in lows + controls:
            xlim = (k0 / fs, (k0 + fs) / fs)
            for route in ('function', 'Bycycle.plot'):
                if route == 'function':
                    plot_burst_detect_summary(df, sig, fs, THR, xlim=xlim, interp=True)
                    errs = panel_errors(plt.gcf(), df, fs, center, THR)
                else:
                    bm.plot(xlim=xlim, interp=True)
                    errs = panel_errors(plt.gcf(), bm.df_features, fs, center, bm.thresholds)
                plt.close('all')
                if k0 in controls:
                    if errs:
                        print('control window also differs (oracle too strict?)', fs, center, xlim, errs[:1])
                        return 0
                    continue
                if errs:
                    found.append((fs, center, route, xlim, errs[0]))
    for f in found[:8]:
        print('fs=%s centre=%s via %s xlim=%r: %s' % f)
    print('violations: %d' % len(found))
    return 1 if found else 0


if __name__ == '__main__':
    sys.exit(main())
