"""C20 counterexample 3: a cycle that starts exactly on the first displayed sample is dropped.

x-limits are exact sample times.  limit_df keeps a cycle when `sample_last_<side> >= start * fs`.  For many
sample times start = k0 / fs the product start * fs is a hair ABOVE k0 (fs=100: k0 = 7, 14, 28, 55, 56 ...;
fs=300: 21, 42, 51 ...; fs=1000: 2007 ...), so the cycle whose first sample is k0 - a cycle lying entirely
inside the view - is removed: when it is labelled is_burst its samples are not highlighted, and no panel shows
its parameter values.

usage: python cex_3.py <source tree>     exit 1 = violation shown, 0 = not shown
"""
import sys, warnings
sys.path.insert(0, sys.argv[1] if len(sys.argv) > 1 else '.')
warnings.filterwarnings('ignore')
import matplotlib
matplotlib.use('Agg')
import matplotlib.pyplot as plt
import numpy as np
from neurodsp.sim import sim_combined
from bycycle.features import compute_features
from bycycle.plts import plot_burst_detect_summary

THR = {'amp_fraction_threshold': 0., 'amp_consistency_threshold': .5,
       'period_consistency_threshold': .5, 'monotonicity_threshold': .8, 'min_n_cycles': 3}


def highlighted(ax):
    for ln in ax.lines:
        y = ln.get_ydata()
        if np.ma.isMaskedArray(y) and ln.get_linestyle() != 'None':
            return np.asarray(ln.get_xdata(), dtype=float), ~np.ma.getmaskarray(y)
    raise RuntimeError('no burst line')


def main():
    found = []
    n_windows = 0
    for fs, center in [(100, 'peak'), (100, 'trough'), (300, 'trough')]:
        np.random.seed(3)
        sig = sim_combined(20, fs, {'sim_bursty_oscillation': {'freq': 10, 'enter_burst': .6, 'leave_burst': .05},
                                   'sim_powerlaw': {'exponent': -2}}, component_variances=(1, .05))
        n = len(sig)
        side = 'trough' if center == 'peak' else 'peak'
        df = compute_features(sig, fs, (8, 12), center_extrema=center, threshold_kwargs=THR)
        keys = [k for k in THR if k != 'min_n_cycles']
        # windows that start exactly on the first sample of a cycle; the window is one second long
        n_cfg = 0
        n_ctl = 0
        for row in sorted(df.to_dict('records'), key=lambda r: not r['is_burst']):
            if n_cfg >= 5:
                break
            k0 = int(row['sample_last_' + side])
            k1 = min(n, k0 + fs)
            if row['sample_next_' + side] > k1 - 1 or k0 == 0:
                continue
            control = fs * (k0 / fs) == k0          # exact product: the same kind of window must be drawn right
            if control:
                if n_ctl >= 2:
                    continue
                n_ctl += 1
            elif fs * (k0 / fs) > k0:
                n_windows += 1
                n_cfg += 1
            else:
                continue
            xlim = (k0 / fs, k1 / fs)
            plot_burst_detect_summary(df, sig, fs, THR, xlim=xlim, interp=True)
            fig = plt.gcf()
            x, hl = highlighted(fig.axes[0])
            assert np.array_equal(x, np.arange(k0, k1) / fs)      # the cycle's samples are all displayed
            msgs = []
            if row['is_burst']:
                seg = hl[0:int(row['sample_next_' + side]) - k0 + 1]
                if not seg.all():
                    msgs.append('is_burst cycle %d..%d lies inside the view but %d of its samples are not '
                                'highlighted' % (k0, row['sample_next_' + side], (~seg).sum()))
            t_centre = row['sample_' + center] / fs
            for ax, key in zip(fig.axes[1:], keys):
                col = key.replace('_threshold', '')
                px = np.asarray(ax.lines[0].get_xdata(), float)
                if t_centre not in px:
                    msgs.append('panel %s has no value at the centre t=%r of the cycle %d..%d'
                                % (col, t_centre, k0, row['sample_next_' + side]))
                    break
            plt.close('all')
            if control:
                if msgs:
                    print('control window also differs (oracle too strict?)', fs, center, xlim, msgs)
                    return 0
                continue
            if msgs:
                found.append((fs, center, xlim, msgs))
    for fs, center, xlim, msgs in found[:8]:
        print('fs=%s centre=%s xlim=%r:' % (fs, center, xlim))
        for m in msgs:
            print('    ' + m)
    print('windows tried: %d, violations: %d' % (n_windows, len(found)))
    return 1 if found else 0


if __name__ == '__main__':
    sys.exit(main())
