"""C20 counterexample 1: burst highlight shifted by one sample when int(fs * xlim[0]) truncates.

x-limits are exact sample times k0/fs, k1/fs.  For many k0 (e.g. fs=1000, k0=1001: 1000*1.001 ==
1000.9999999999999) `int(fs * start)` in plot_burst_detect_summary is k0-1, so the burst mask is written
one sample too far to the right: a sample that belongs to no is_burst cycle is highlighted and the first
sample of a burst cycle lying entirely inside the view is not.  Checked through plot_burst_detect_summary
and through Bycycle.plot.

usage: python cex_1.py <source tree>     exit 1 = violation shown, 0 = not shown
"""
import sys, warnings
sys.path.insert(0, sys.argv[1] if len(sys.argv) > 1 else '.')
warnings.filterwarnings('ignore')
import matplotlib
matplotlib.use('Agg')
import matplotlib.pyplot as plt
import numpy as np
from neurodsp.sim import sim_combined
from bycycle import Bycycle
from bycycle.features import compute_features
from bycycle.plts import plot_burst_detect_summary

THR = {'amp_fraction_threshold': 0., 'amp_consistency_threshold': .5,
       'period_consistency_threshold': .5, 'monotonicity_threshold': .8, 'min_n_cycles': 3}


def highlighted(ax):
    """Displayed sample times and the boolean 'highlighted' flag per displayed sample."""
    for ln in ax.lines:
        y = ln.get_ydata()
        if np.ma.isMaskedArray(y) and ln.get_linestyle() != 'None':
            return np.asarray(ln.get_xdata(), dtype=float), ~np.ma.getmaskarray(y)
    raise RuntimeError('no burst line')


def oracle(df, side, n, k0, k1):
    allowed = np.zeros(n, bool)
    required = np.zeros(n, bool)
    for last, nxt, burst in zip(df['sample_last_' + side], df['sample_next_' + side], df['is_burst']):
        if burst:
            allowed[last:nxt + 1] = True
            if last >= k0 and nxt <= k1 - 1:          # cycle entirely inside the displayed samples
                required[last:nxt + 1] = True
    return allowed[k0:k1], required[k0:k1]


def main():
    found = []
    for fs, center in [(1000, 'peak'), (1000, 'trough'), (100, 'peak')]:
        np.random.seed(3)
        sig = sim_combined(6, fs, {'sim_bursty_oscillation': {'freq': 10},
                                   'sim_powerlaw': {'exponent': -2}}, component_variances=(1, .1))
        n = len(sig)
        side = 'trough' if center == 'peak' else 'peak'
        df = compute_features(sig, fs, (8, 12), center_extrema=center, threshold_kwargs=THR)
        bm = Bycycle(center_extrema=center, thresholds=dict(THR))
        bm.fit(sig, fs, (8, 12))
        # window starts k0 (exact sample times k0 / fs) whose product fs * (k0 / fs) falls just below k0
        lows = [k for k in range(1, n - fs) if fs * (k / fs) < k][:4]
        controls = [k - 1 for k in lows if fs * ((k - 1) / fs) == k - 1][:2]   # neighbouring starts, exact product
        for k0 in lows + controls:
            k1 = k0 + fs
            xlim = (k0 / fs, k1 / fs)
            for route in ('function', 'Bycycle.plot'):
                if route == 'function':
                    plot_burst_detect_summary(df, sig, fs, THR, xlim=xlim, plot_only_result=True)
                    table = df
                else:
                    bm.plot(xlim=xlim, plot_only_results=True)
                    table = bm.df_features
                x, hl = highlighted(plt.gcf().axes[0])
                plt.close('all')
                assert np.array_equal(x, np.arange(k0, k1) / fs), 'displayed samples are not k0..k1-1'
                allowed, required = oracle(table, side, n, k0, k1)
                wrong = np.where(hl & ~allowed)[0] + k0
                missing = np.where(required & ~hl)[0] + k0
                if k0 in controls:
                    if len(wrong) or len(missing):
                        print('control window also differs (oracle too strict?)', fs, center, xlim)
                        return 0
                    continue
                if len(wrong) or len(missing):
                    found.append((fs, center, route, xlim, wrong.tolist(), missing.tolist()))
    for f in found[:8]:
        print('fs=%s centre=%s via %s xlim=%r: highlighted samples outside every is_burst cycle %s; '
              'samples of fully visible is_burst cycles not highlighted %s' % f)
    print('violations: %d' % len(found))
    return 1 if found else 0


if __name__ == '__main__':
    sys.exit(main())
