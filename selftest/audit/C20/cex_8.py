"""C20 counterexample 8 (low weight: an exception instead of a wrong picture; threshold dictionaries are not
named in the property's quantifier): the burst summary cannot be drawn for threshold dictionaries without a
`*_threshold` entry.

compute_features / Bycycle accept threshold_kwargs = {} and {'min_n_cycles': 3} (the detector falls back to its
defaults) and label bursts.  plot_burst_detect_summary(plot_only_result=False - the default) then creates
plt.subplots(nrows=0 + 1), which returns a bare Axes, and `len(axes)` raises TypeError: nothing is drawn, so
the highlighted burst trace promised for every table is missing.  With plot_only_result=True the same call works.

usage: python cex_8.py <source tree>     exit 1 = violation shown, 0 = not shown
"""
import sys, warnings
sys.path.insert(0, sys.argv[1] if len(sys.argv) > 1 else '.')
warnings.filterwarnings('ignore')
import matplotlib
matplotlib.use('Agg')
import matplotlib.pyplot as plt
import numpy as np
from neurodsp.sim import sim_combined
from bycycle import Bycycle
from bycycle.features import compute_features
from bycycle.plts import plot_burst_detect_summary


def main():
    fs = 500
    np.random.seed(3)
    sig = sim_combined(4, fs, {'sim_bursty_oscillation': {'freq': 10},
                               'sim_powerlaw': {'exponent': -2}}, component_variances=(1, .1))
    bad = 0
    for thr in ({}, {'min_n_cycles': 3}):
        df = compute_features(sig, fs, (8, 12), threshold_kwargs=dict(thr))
        assert df['is_burst'].any()
        plot_burst_detect_summary(df, sig, fs, thr, plot_only_result=True)     # works
        assert len(plt.gcf().axes[0].lines) >= 2
        plt.close('all')
        for route in ('function', 'Bycycle.plot'):
            try:
                if route == 'function':
                    plot_burst_detect_summary(df, sig, fs, thr)
                else:
                    bm = Bycycle(thresholds=dict(thr))
                    bm.fit(sig, fs, (8, 12))
                    bm.plot()
                drawn = len(plt.gcf().axes[0].lines) >= 2
                print('thresholds=%r via %s: drawn=%s' % (thr, route, drawn))
            except Exception as exc:
                print('thresholds=%r via %s: %s: %s' % (thr, route, type(exc).__name__, exc))
                bad += 1
            plt.close('all')
    return 1 if bad else 0


if __name__ == '__main__':
    sys.exit(main())
