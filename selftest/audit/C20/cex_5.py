"""C20 counterexample 5 (reading-dependent: the only carrier of a marker's "kind" is its colour / slot):
plot_cyclepoints_df draws the troughs of a trough-centred table in the peak slot and its peaks in the trough
slot.

plot_cyclepoints_array documents the marker colours (after the black trace) b = peaks, r = troughs,
g = rises, m = decays, and plot_cyclepoints_df of a peak-centred table follows that.  For a trough-centred
table plot_cyclepoints_df passes `sample_trough` as `peaks=` and `sample_last_peak / sample_next_peak` as
`troughs=`, so each blue ("peak") marker sits on a trough of the table and each red ("trough") marker on a
peak.  The check reads the kind of each marker from the two sibling plots of the same analysis: the
peak-centred table of the same signal and plot_cyclepoints_array fed with find_extrema's arrays.

usage: python cex_5.py <source tree>     exit 1 = violation shown, 0 = not shown
"""
import sys, warnings
sys.path.insert(0, sys.argv[1] if len(sys.argv) > 1 else '.')
warnings.filterwarnings('ignore')
import matplotlib
matplotlib.use('Agg')
import matplotlib.pyplot as plt
from matplotlib.colors import to_rgba
import numpy as np
from neurodsp.sim import sim_combined
from bycycle.features import compute_features
from bycycle.cyclepoints import find_extrema
from bycycle.plts import plot_cyclepoints_df, plot_cyclepoints_array


def colour_of_samples(ax, fs):
    """sample -> set of colours of the markers drawn on it."""
    out = {}
    for ln in ax.lines:
        if ln.get_marker() == 'o' and ln.get_linestyle() == 'None':
            for k in np.round(np.asarray(ln.get_xdata(), float) * fs).astype(int).tolist():
                out.setdefault(k, set()).add(to_rgba(ln.get_color()))
    return out


def main():
    fs = 500
    np.random.seed(3)
    sig = sim_combined(4, fs, {'sim_bursty_oscillation': {'freq': 10},
                               'sim_powerlaw': {'exponent': -2}}, component_variances=(1, .1))
    peaks, troughs = find_extrema(sig, fs, (8, 12))
    df_t = compute_features(sig, fs, (8, 12), center_extrema='trough')
    df_p = compute_features(sig, fs, (8, 12), center_extrema='peak')
    # independent statement of kind: a peak of the table is higher than both neighbouring troughs of the table
    assert set(df_t['sample_trough']) <= set(troughs.tolist())
    assert set(df_t['sample_last_peak']) <= set(peaks.tolist())
    assert all(sig[p0] > sig[t] < sig[p1] for p0, t, p1 in
               zip(df_t['sample_last_peak'], df_t['sample_trough'], df_t['sample_next_peak']))

    bad = 0
    for xlim in [None, (1.0, 3.0)]:
        fig, ax = plt.subplots(); plot_cyclepoints_array(sig, fs, peaks=peaks, troughs=troughs, xlim=xlim, ax=ax)
        ref = colour_of_samples(ax, fs)
        fig, ax = plt.subplots(); plot_cyclepoints_df(df_p, sig, fs, plot_zerox=False, xlim=xlim, ax=ax)
        got_p = colour_of_samples(ax, fs)
        fig, ax = plt.subplots(); plot_cyclepoints_df(df_t, sig, fs, plot_zerox=False, xlim=xlim, ax=ax)
        got_t = colour_of_samples(ax, fs)
        plt.close('all')
        peak_colour, trough_colour = to_rgba('b'), to_rgba('r')       # documented defaults
        assert all(ref[k] == {peak_colour} for k in peaks.tolist() if k in ref)
        assert all(ref[k] == {trough_colour} for k in troughs.tolist() if k in ref)
        ok_p = all(got_p[k] == ref[k] for k in got_p)
        wrong = sorted(k for k in got_t if got_t[k] != ref[k])
        ex = next(k for k in sorted(got_t) if k in set(df_t['sample_trough']))
        print('xlim=%r: peak-centred table agrees with plot_cyclepoints_array: %s; trough-centred table: '
              '%d of %d markers carry the colour of the other kind (e.g. trough at sample %s drawn as %s)'
              % (xlim, ok_p, len(wrong), len(got_t), ex, 'peak (blue)' if got_t[ex] == {peak_colour} else 'trough (red)'))
        if ok_p and wrong:
            bad += 1
    return 1 if bad else 0


if __name__ == '__main__':
    sys.exit(main())
