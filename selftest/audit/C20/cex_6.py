"""C20 counterexample 6 (reading-dependent: is `sample_last_zerox_*` a cyclepoint "of the table"?):
plot_cyclepoints_df(plot_zerox=True) never draws the zero-crossing stored in the first row's
`sample_last_zerox_decay` (peak-centred) / `sample_last_zerox_rise` (trough-centred).

That sample is a genuine decay (rise) midpoint returned by find_zerox, it is in the table, it lies strictly
inside the view, the trace under it is drawn, and plot_cyclepoints_array fed with find_zerox's arrays does
draw it - but plot_cyclepoints_df reads only `sample_zerox_rise` / `sample_zerox_decay`.  The same holds for
the first row of any slice of a table (df.iloc[5:15]).

usage: python cex_6.py <source tree>     exit 1 = violation shown, 0 = not shown
"""
import sys, warnings
sys.path.insert(0, sys.argv[1] if len(sys.argv) > 1 else '.')
warnings.filterwarnings('ignore')
import matplotlib
matplotlib.use('Agg')
import matplotlib.pyplot as plt
import numpy as np
from neurodsp.sim import sim_combined
from bycycle.features import compute_features, compute_cyclepoints
from bycycle.cyclepoints import find_extrema, find_zerox
from bycycle.plts import plot_cyclepoints_df, plot_cyclepoints_array


def marker_samples(ax, fs):
    out = set()
    for ln in ax.lines:
        if ln.get_marker() == 'o' and ln.get_linestyle() == 'None':
            out |= set(np.round(np.asarray(ln.get_xdata(), float) * fs).astype(int).tolist())
    return out


def main():
    fs = 500
    np.random.seed(3)
    sig = sim_combined(4, fs, {'sim_bursty_oscillation': {'freq': 10},
                               'sim_powerlaw': {'exponent': -2}}, component_variances=(1, .1))
    n = len(sig)
    peaks, troughs = find_extrema(sig, fs, (8, 12))
    rises, decays = find_zerox(sig, peaks, troughs)
    fig, ax = plt.subplots()
    plot_cyclepoints_array(sig, fs, peaks=peaks, troughs=troughs, rises=rises, decays=decays, ax=ax)
    by_array = marker_samples(ax, fs)
    plt.close('all')

    bad = 0
    tables = [('compute_cyclepoints', compute_cyclepoints(sig, fs, (8, 12)), None),
              ('compute_features peak', compute_features(sig, fs, (8, 12), center_extrema='peak'), None),
              ('compute_features trough', compute_features(sig, fs, (8, 12), center_extrema='trough'), None),
              ('compute_features peak, rows 5..14, xlim', None, (5, 15))]
    for name, df, rows in tables:
        xlim = None
        k0, k1 = 0, n
        if rows is not None:
            df = tables[1][1].iloc[rows[0]:rows[1]]
            k0, k1 = int(df['sample_last_zerox_decay'].iloc[0]) - 5, int(df['sample_next_trough'].iloc[-1]) + 5
            xlim = (k0 / fs, k1 / fs)
        cols = [c for c in df.columns if c.startswith('sample_')]
        in_table = {int(v) for c in cols for v in df[c] if k0 < v < k1 - 1}
        fig, ax = plt.subplots()
        plot_cyclepoints_df(df, sig, fs, plot_sig=True, plot_extrema=True, plot_zerox=True, xlim=xlim, ax=ax)
        drawn = marker_samples(ax, fs)
        plt.close('all')
        missing = sorted(in_table - drawn)
        where = [c for c in cols for m in missing if m in set(df[c])]
        print('%s: cyclepoints of the table strictly inside the view without a marker: %s (columns %s); '
              'drawn by plot_cyclepoints_array: %s' % (name, missing, sorted(set(where)),
                                                       [m in by_array for m in missing] if 'trough' not in name else 'n/a (arrays are those of the un-negated signal)'))
        if missing:
            bad += 1
    return 1 if bad else 0


if __name__ == '__main__':
    sys.exit(main())
