"""C20 counterexample 7 (history; the table comes from BycycleGroup.fit(axis=None), sure the route is public,
less sure the property's quantifier means to include it): Bycycle.plot of an epoch model draws the parameter
values of the cycle that straddles the epoch start at the END of the panel.

BycycleGroup.fit(sigs, ..., axis=None) analyses the flattened signal and splits the table per epoch
(epoch_df); the first cycle of an epoch can begin in the previous epoch, so its sample indices - relative to
the epoch - are negative (e.g. sample_peak = -7).  models[i].plot() -> plot_burst_detect_param indexes
`times[sample_<centre>]` with the negative index, which wraps around: the cycle's value is drawn at
t = (epoch_len - 7) / fs, a time that is not the centre of that cycle (its centre is not in the view at all),
and the interpolated line runs from the end of the panel back to its beginning.

usage: python cex_7.py <source tree>     exit 1 = violation shown, 0 = not shown
"""
import sys, warnings
sys.path.insert(0, sys.argv[1] if len(sys.argv) > 1 else '.')
warnings.filterwarnings('ignore')
import matplotlib
matplotlib.use('Agg')
import matplotlib.pyplot as plt
import numpy as np
from neurodsp.sim import sim_combined
from bycycle import BycycleGroup

THR = {'amp_fraction_threshold': 0., 'amp_consistency_threshold': .5,
       'period_consistency_threshold': .5, 'monotonicity_threshold': .8, 'min_n_cycles': 3}


def main():
    fs, epoch_len = 500, 520
    np.random.seed(0)
    sig = sim_combined(8, fs, {'sim_bursty_oscillation': {'freq': 10, 'enter_burst': .9, 'leave_burst': .02},
                               'sim_powerlaw': {'exponent': -2}}, component_variances=(1, .05))
    n_epochs = len(sig) // epoch_len
    sigs = sig[:n_epochs * epoch_len].reshape(n_epochs, epoch_len)
    found = []
    for center in ('peak', 'trough'):
        bg = BycycleGroup(center_extrema=center, thresholds=dict(THR))
        bg.fit(sigs, fs, (8, 12), axis=None, n_jobs=1)
        for i, model in enumerate(bg):
            df = model.df_features
            if not len(df) or df['sample_' + center].iloc[0] >= 0:
                continue
            model.plot()                                   # no x-limits
            fig = plt.gcf()
            keys = [k for k in model.thresholds if k != 'min_n_cycles']
            for ax, key in zip(fig.axes[1:], keys):
                col = key.replace('_threshold', '')
                rows = {c / fs: v for c, v in zip(df['sample_' + center], df[col])}
                px = np.asarray(ax.lines[0].get_xdata(), float)
                py = np.asarray(ax.lines[0].get_ydata(), float)
                stray = [(float(x), float(y)) for x, y in zip(px, py) if x not in rows]
                if stray:
                    found.append((center, i, int(df['sample_' + center].iloc[0]), col, stray[0],
                                  float(df[col].iloc[0])))
                    break
            plt.close('all')
    for f in found:
        print('centre=%s epoch %d: first cycle has sample centre %d (outside the epoch); panel %s draws a point '
              'at (t, value)=%r, which is the centre of no cycle of the table (value of that first cycle: %r)' % f)
    print('violations: %d' % len(found))
    return 1 if found else 0


if __name__ == '__main__':
    sys.exit(main())
