"""Shared helpers for the C15 counterexample scripts (imported after sys.path is set)."""
import warnings
import numpy as np
import pandas as pd

warnings.simplefilter('ignore')


def snap(o):
    """Structural, value-level snapshot of arrays / tables / dicts / lists."""
    if isinstance(o, np.ndarray):
        body = [snap(x) for x in o.ravel()] if o.dtype == object else o.tobytes()
        return ('nd', o.dtype.str, o.shape, body)
    if isinstance(o, pd.DataFrame):
        return ('df', [str(c) for c in o.columns], [repr(i) for i in o.index],
                [str(t) for t in o.dtypes], [snap(o.iloc[:, i].to_numpy()) for i in range(o.shape[1])])
    if isinstance(o, pd.Series):
        return ('ser', str(o.name), [repr(i) for i in o.index], snap(o.to_numpy()))
    if isinstance(o, dict):
        return ('dict', [(repr(k), snap(v)) for k, v in o.items()])
    if isinstance(o, (list, tuple)):
        return (type(o).__name__, [snap(x) for x in o])
    return ('v', type(o).__name__, repr(o))


def make_sig(seed=0, n_seconds=6, fs=500, freq=10):
    """Deterministic bursty 10 Hz oscillation plus a little noise (no library code involved)."""
    rng = np.random.RandomState(seed)
    t = np.arange(int(n_seconds * fs)) / fs
    env = (np.sin(2 * np.pi * 0.4 * t + seed) > -0.2).astype(float)
    env = np.convolve(env, np.ones(50) / 50, mode='same')
    sig = env * np.sin(2 * np.pi * freq * t) + 0.15 * rng.randn(len(t))
    return sig
