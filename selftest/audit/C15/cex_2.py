"""C15 / borderline 2: the Bycycle / BycycleGroup constructors rewrite the caller's thresholds dictionary.

BycycleBase.__init__ (bycycle/objs/fit.py:52-58) keeps the caller's dict (self.thresholds = thresholds) and then
renames every key that does not end in '_threshold' in place (pop + insert).  The constructors are not in the
enumerated list of the statement; they are API calls that share an option dictionary with the listed functions.

Checks:
  a) the caller's dict differs from a deep copy taken before the constructor call (keys renamed, order changed);
  b) history dependence of a listed function with the *same argument object*: compute_features(sig, .., threshold_kwargs=th)
     raises TypeError before the constructor call and returns a table after it.
exit 1 = violation shows.
"""
import sys, copy
sys.path.insert(0, sys.argv[1] if len(sys.argv) > 1 else '.')
sys.path.insert(1, __file__.rsplit('/', 1)[0])
from _common import snap, make_sig, np, pd
from bycycle.features import compute_features
from bycycle.objs.fit import Bycycle, BycycleGroup

fs = 500
sig = make_sig(0)
bad = False
for cls in (Bycycle, BycycleGroup):
    th = {'monotonicity': .6, 'min_n_cycles': 2, 'amp_fraction': .1}
    th_before = copy.deepcopy(th)

    def outcome():
        try:
            return ('table', snap(compute_features(sig, fs, (8, 12), threshold_kwargs=th)))
        except Exception as err:
            return ('error', type(err).__name__)

    o1 = outcome()
    assert th == th_before            # compute_features itself leaves the dict alone
    cls(thresholds=th)                # only constructs the object
    changed = (th != th_before) or (list(th) != list(th_before))
    o2 = outcome()
    print(cls.__name__, '| dict before:', th_before, '| after:', th)
    print('   a) caller dict changed:', changed, '   b) compute_features with the same dict object:', o1[0], '->', o2[0])
    bad = bad or changed or (o1 != o2)
sys.exit(1 if bad else 0)
