"""C15 / borderline 3: detect_bursts_cycles / detect_bursts_amp write `is_burst` into the caller's table.

Both functions (bycycle/burst/cycle.py:100, bycycle/burst/amp.py:48) assign df_features['is_burst'] on the table they
were given and return that same object (the docstring says "Same df as input").  They are not in the enumerated list
of the statement, but they are the staged route the docstrings show (compute_shape_features -> compute_burst_features
-> detect_bursts_*), and they share the table with recompute_edges / limit_df / plots.

Checks:
  a) the input table differs from a deep copy taken before the call (column added / overwritten), result `is` input;
  b) consequence for a listed function with the same argument objects: recompute_edges(df, th) returns a different
     table after an unrelated detect_bursts_cycles(df, ...) call than before it.
exit 1 = violation shows.
"""
import sys, copy
sys.path.insert(0, sys.argv[1] if len(sys.argv) > 1 else '.')
sys.path.insert(1, __file__.rsplit('/', 1)[0])
from _common import snap, make_sig, np, pd
from bycycle.features import compute_features, compute_shape_features, compute_burst_features
from bycycle.burst import detect_bursts_cycles, detect_bursts_amp, recompute_edges

fs = 500
sig = make_sig(1)
bad = False

# a1) staged route, consistency method: table without is_burst gets the column
shape = compute_shape_features(sig, fs, (8, 12))
feat = pd.concat((compute_burst_features(shape, sig), shape), axis=1)
b = snap(feat)
res = detect_bursts_cycles(feat, min_n_cycles=2)
m1 = snap(feat) != b
print('a1) detect_bursts_cycles changed its input table:', m1, '| result is input:', res is feat)

# a2) amplitude method
feat_a = pd.concat((compute_burst_features(shape, sig, burst_method='amp', burst_kwargs={'fs': fs, 'f_range': (8, 12)}), shape), axis=1)
b = snap(feat_a)
res = detect_bursts_amp(feat_a, burst_fraction_threshold=.5, min_n_cycles=2)
m2 = snap(feat_a) != b
print('a2) detect_bursts_amp changed its input table:', m2, '| result is input:', res is feat_a)

# b) consequence on a listed function, same objects
th = {'amp_fraction_threshold': 0., 'amp_consistency_threshold': .5, 'period_consistency_threshold': .5,
      'monotonicity_threshold': .6, 'min_n_cycles': 2}
df = compute_features(sig, fs, (8, 12), threshold_kwargs=th)
r1 = snap(recompute_edges(df, th))
detect_bursts_cycles(df, monotonicity_threshold=.95, min_n_cycles=5)     # "try another setting", result discarded
r2 = snap(recompute_edges(df, th))
hist = r1 != r2
print('b) recompute_edges(df, th) differs before / after a discarded detect_bursts_cycles(df, ...) call:', hist)
bad = m1 or m2 or hist
sys.exit(1 if bad else 0)
