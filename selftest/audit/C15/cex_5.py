"""C15 / borderline 5: split_samples_df and rename_extrema_df change the caller's table (bycycle/utils/dataframes.py).

split_samples_df pops every sample_* column out of the table it is given (line 204; docstring: "Move ...");
rename_extrema_df('trough', df) renames columns in place and negates / reflects four columns (lines 155-172) and
returns the same object.  Neither is in the enumerated list of the statement (limit_df, epoch_df, drop_samples_df of
the same file are).  Consequence for listed functions: limit_df / epoch_df on the same table object fail afterwards.

exit 1 = violation shows.
"""
import sys, copy
sys.path.insert(0, sys.argv[1] if len(sys.argv) > 1 else '.')
sys.path.insert(1, __file__.rsplit('/', 1)[0])
from _common import snap, make_sig, np, pd
from bycycle.features import compute_features
from bycycle.utils.dataframes import split_samples_df, rename_extrema_df, limit_df

fs = 500
sig = make_sig(3)
th = {'min_n_cycles': 2}
df = compute_features(sig, fs, (8, 12), threshold_kwargs=th)
b = snap(df)
ok_before = snap(limit_df(df, fs, 1, 3))
feats, samples = split_samples_df(df)
m1 = snap(df) != b
try:
    after = snap(limit_df(df, fs, 1, 3)); h1 = after != ok_before
except Exception as err:
    h1 = True; after = type(err).__name__
print('split_samples_df changed its input:', m1, '| limit_df(df, ...) on the same object afterwards:', after if isinstance(after, str) else 'table')

df2 = compute_features(sig, fs, (8, 12), threshold_kwargs=th)
b = snap(df2)
out = rename_extrema_df('trough', df2)
m2 = snap(df2) != b
print('rename_extrema_df("trough", df) changed its input:', m2, '| result is input:', out is df2)
sys.exit(1 if (m1 or m2 or h1) else 0)
