"""C15 / borderline 1: flatten_dfs writes a label column into the caller's tables.

flatten_dfs (bycycle/utils/dataframes.py, an anchor file of C15; the function the docstrings of
compute_features_2d / compute_features_3d tell the user to call on their result) is NOT in the
enumerated list of the statement, but it is an API call that shares tables with the listed ones.

Checks (independent recomputation: deep copies taken before the call):
  a) the tables handed to flatten_dfs are changed (a column is added);
  b) history dependence: flatten_dfs(dfs, labels2, 'B') after flatten_dfs(dfs, labels1, 'A') differs from the
     same call made on untouched deep copies of the same tables;
  c) a listed function (epoch_df) called with the same table object returns a different table before / after.
exit 1 = violation shows.
"""
import sys, copy
sys.path.insert(0, sys.argv[1] if len(sys.argv) > 1 else '.')
sys.path.insert(1, __file__.rsplit('/', 1)[0])
from _common import snap, make_sig, np, pd
from bycycle.group import compute_features_2d
from bycycle.utils.dataframes import flatten_dfs, epoch_df

fs = 500
sigs = np.array([make_sig(s, n_seconds=4) for s in range(3)])
kw = {'threshold_kwargs': {'min_n_cycles': 2}}
dfs = compute_features_2d(sigs, fs, (8, 12), compute_features_kwargs=kw, axis=0, n_jobs=1)
pristine = [d.copy(deep=True) for d in dfs]
before = snap(dfs)
ep_before = snap(epoch_df(dfs[0], sigs.shape[1], 1000))

flatten_dfs(dfs, ['a', 'b', 'c'], column_name='A')
mutated = snap(dfs) != before
print('a) input tables changed by flatten_dfs:', mutated, '| new columns:', [c for c in dfs[0].columns if c not in pristine[0].columns])

second = flatten_dfs(dfs, [1, 2, 3], column_name='B')
fresh = flatten_dfs([d.copy(deep=True) for d in pristine], [1, 2, 3], column_name='B')
history = snap(second) != snap(fresh)
print('b) flatten_dfs(.., "B") after flatten_dfs(.., "A") differs from the same call on pristine copies:', history,
      '| columns only in the repeated call:', [c for c in second.columns if c not in fresh.columns])

ep_after = snap(epoch_df(dfs[0], sigs.shape[1], 1000))
print('c) epoch_df(dfs[0], ...) differs before / after the flatten_dfs call:', ep_before != ep_after)

sys.exit(1 if (mutated or history) else 0)
