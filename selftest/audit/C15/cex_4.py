"""C15 / borderline 4: recompute_edge (single edge) and check_min_burst_cycles work in place (bycycle/burst/utils.py).

recompute_edges (plural, in the statement) copies the table first; the public helper recompute_edge (singular, same
file, lines 132-165) writes amp_consistency / period_consistency into the caller's table with .iloc and returns it;
check_min_burst_cycles (lines 10-57) clears short runs in the caller's boolean array and returns that same array.
Neither is in the enumerated list of the statement.

Checks: argument differs from a deep copy taken before the call; repeating check_min_burst_cycles-dependent
pipeline on the same array object gives a different answer than on a pristine copy.
exit 1 = violation shows.
"""
import sys, copy
sys.path.insert(0, sys.argv[1] if len(sys.argv) > 1 else '.')
sys.path.insert(1, __file__.rsplit('/', 1)[0])
from _common import snap, make_sig, np, pd
from bycycle.features import compute_features
from bycycle.burst.utils import recompute_edge, check_min_burst_cycles

fs = 500
sig = make_sig(2)
th = {'amp_fraction_threshold': 0., 'amp_consistency_threshold': .5, 'period_consistency_threshold': .5,
      'monotonicity_threshold': .6, 'min_n_cycles': 2}
df = compute_features(sig, fs, (8, 12), threshold_kwargs=th)
changed_any = False
for cyc in range(1, len(df) - 1):
    for direction in ('next', 'last'):
        b = snap(df)
        out = recompute_edge(df, cyc, direction)
        if snap(df) != b:
            changed_any = True
            print('recompute_edge(df, %d, %r) changed the caller table; result is input: %s' % (cyc, direction, out is df))
            break
    if changed_any:
        break

is_burst = np.array([False, True, True, False, True, True, True, True, False])
pristine = is_burst.copy()
out3 = check_min_burst_cycles(is_burst, min_n_cycles=3)
m = not np.array_equal(is_burst, pristine)
print('check_min_burst_cycles changed its input array:', m, '| result is input:', out3 is is_burst)
# history: min_n_cycles=2 on the same array object after the min_n_cycles=3 call vs on a pristine copy
again = check_min_burst_cycles(is_burst, min_n_cycles=2)
fresh = check_min_burst_cycles(pristine.copy(), min_n_cycles=2)
h = not np.array_equal(again, fresh)
print('check_min_burst_cycles(a, 2) after check_min_burst_cycles(a, 3) differs from a pristine call:', h)
sys.exit(1 if (changed_any or m or h) else 0)
