"""C11 counterexample 1 (edge of the quantifier): a 2-D array with ZERO rows and the matching per-row
option list (the empty list).

Statement clause: "... return, at position i, exactly the table that compute_features returns for row i
alone ..., whether one option set is shared or a list supplies one per row."

For every prefix sigs[:k] of a 2-D array, and the per-row list opts[:k], the expected result is
[compute_features(sigs[i], **opts[i]) for i in range(k)].  For k = 0 that is the empty list; the shared
forms (dict, None) do return [] for the same array, the per-row form raises IndexError
(bycycle/group/features.py: `len(kwargs) > 1` is False for an empty list, so the shared branch
evaluates `kwargs[0]`).

usage: python cex_1.py <path to source tree>      exit 1 = violation shows, 0 = not
"""
import sys, warnings
sys.path.insert(0, sys.argv[1] if len(sys.argv) > 1 else '.')
warnings.simplefilter('ignore')
import numpy as np
import pandas as pd
from bycycle.features import compute_features
from bycycle.group import compute_features_2d


def make_sigs(n_rows=3, fs=500, n_seconds=3):
    rng = np.random.RandomState(11)
    t = np.arange(0, n_seconds, 1 / fs)
    rows = []
    for i in range(n_rows):
        amp = 1 + .5 * np.sin(2 * np.pi * (.3 + .1 * i) * t)
        rows.append(amp * np.sin(2 * np.pi * (9 + i) * t + i) + .2 * rng.randn(len(t)))
    return np.array(rows)


def equal(a, b):
    try:
        pd.testing.assert_frame_equal(a, b, check_exact=True)
        return True
    except AssertionError:
        return False


def main():
    fs, f_range = 500, (7, 14)
    sigs = make_sigs()
    th = {'amp_fraction_threshold': .1, 'amp_consistency_threshold': .4,
          'period_consistency_threshold': .4, 'monotonicity_threshold': .6, 'min_n_cycles': 2}
    opts = [{'center_extrema': 'trough', 'threshold_kwargs': th},
            {'burst_method': 'amp', 'threshold_kwargs': {'burst_fraction_threshold': .5, 'min_n_cycles': 2}},
            {'threshold_kwargs': th}]

    violated = False
    for k in (3, 2, 1, 0):
        sub, sub_opts = sigs[:k], opts[:k]
        assert sub.ndim == 2 and len(sub_opts) == sub.shape[0]
        expected = [compute_features(sub[i], fs, f_range, **sub_opts[i]) for i in range(k)]
        for n_jobs in (1, 2, k + 2):
            try:
                got = compute_features_2d(sub, fs, f_range, sub_opts, axis=0, n_jobs=n_jobs)
            except Exception as exc:   # noqa
                print('rows=%d n_jobs=%d per-row list: raised %r (expected a list of %d tables)'
                      % (k, n_jobs, exc, k))
                violated = True
                continue
            ok = isinstance(got, list) and len(got) == k and all(equal(g, e) for g, e in zip(got, expected))
            print('rows=%d n_jobs=%d per-row list: %s' % (k, n_jobs, 'ok' if ok else 'MISMATCH'))
            violated |= not ok

    # the shared forms on the same zero-row array, for contrast (these return [])
    for shared in ({}, None, opts[0]):
        got = compute_features_2d(sigs[:0], fs, f_range, shared, axis=0, n_jobs=1)
        print('rows=0 shared %r -> %r' % (type(shared).__name__, got))

    sys.exit(1 if violated else 0)


if __name__ == '__main__':
    main()
