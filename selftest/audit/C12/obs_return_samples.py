"""C12 borderline observation (NOT claimed as a counterexample of the statement as written):
return_samples=False is honoured with axis=(0, 1) but silently ignored with axis=0 / axis=1
(_proxy_3d -> compute_features_2d(axis=None) hard-codes return_samples=True, features.py:135),
for compute_features_3d and for BycycleGroup(return_samples=False).fit.

usage: python obs_return_samples.py <source tree>    exit 1 = the inconsistency shows
"""
import sys, warnings
sys.path.insert(0, sys.argv[1] if len(sys.argv) > 1 else '.')
warnings.simplefilter('ignore')
import numpy as np


def main():
    from bycycle.group import compute_features_3d
    from bycycle.objs.fit import BycycleGroup
    fs, T = 500, 1000
    rng = np.random.default_rng(0)
    t = np.arange(T) / fs
    sigs = np.array([[np.sin(2 * np.pi * (9 + i + .5 * j) * t) + .2 * rng.standard_normal(T)
                      for j in range(2)] for i in range(2)])
    thr = {'amp_fraction_threshold': 0., 'amp_consistency_threshold': .4,
           'period_consistency_threshold': .4, 'monotonicity_threshold': .6, 'min_n_cycles': 2}
    shows = False
    for axis in (0, 1, (0, 1)):
        out = compute_features_3d(sigs, fs, (8, 12), {'threshold_kwargs': thr}, axis=axis,
                                  return_samples=False, n_jobs=2)
        has = any(c.startswith('sample_') for row in out for d in row for c in d.columns)
        g = BycycleGroup(thresholds=dict(thr), return_samples=False)
        g.fit(sigs, fs, (8, 12), axis=axis, n_jobs=2)
        has_g = any(c.startswith('sample_') for row in g.models for m in row
                    for c in m.df_features.columns)
        print('axis', axis, 'return_samples=False -> sample columns present:', has, '(group:', has_g, ')')
        shows |= has or has_g
    return 1 if shows else 0


if __name__ == '__main__':
    sys.exit(main())
