"""C12 cex 1: axis given as a numpy integer (np.int64(0) / np.int64(1), e.g. from `for ax in np.arange(2)`).

compute_features_3d / BycycleGroup.fit do all the work for the requested mode and then raise
ValueError("The truth value of an array ... is ambiguous") at `if axis == (0, 1):`
(bycycle/group/features.py:286; with an option list already in check_kwargs_shape,
bycycle/group/utils.py `axis == (0,1)` clause), instead of returning the nested list.

usage: python cex_1.py <source tree>     exit 1 = violation shows, 0 = fine
"""
import sys, warnings
sys.path.insert(0, sys.argv[1] if len(sys.argv) > 1 else '.')
warnings.simplefilter('ignore')
import numpy as np
import pandas as pd


def make(n0, n1, T, fs):
    rng = np.random.default_rng(3)
    t = np.arange(T) / fs
    s = np.zeros((n0, n1, T))
    for i in range(n0):
        for j in range(n1):
            f = 8.5 + 3 * rng.random()
            env = 1 + .8 * np.sin(2 * np.pi * (.3 + rng.random()) * t)
            s[i, j] = (1 + rng.random()) * env * np.sin(2 * np.pi * f * t + 6 * rng.random()) \
                + .3 * rng.standard_normal(T)
    return s


def epoch_split(df, n_ep, L):
    out = []
    for e in range(n_ep):
        lo, hi = e * L, (e + 1) * L
        d = df[(df['sample_next_trough'] > lo) & (df['sample_next_trough'] <= hi)].copy()
        d = d.reset_index(drop=True)
        for c in d.columns:
            if c.startswith('sample_'):
                d[c] = d[c] - lo
        out.append(d)
    return out


def same(a, b):
    try:
        pd.testing.assert_frame_equal(a.reset_index(drop=True), b.reset_index(drop=True),
                                      check_dtype=False, rtol=1e-9, atol=1e-12)
        return True
    except AssertionError:
        return False


def main():
    from bycycle.features import compute_features
    from bycycle.group import compute_features_3d
    from bycycle.objs.fit import BycycleGroup

    fs, f_range = 500, (8, 12)
    n0, n1, T = 2, 3, 1000
    sigs = make(n0, n1, T, fs)
    thr = {'amp_fraction_threshold': .1, 'amp_consistency_threshold': .4,
           'period_consistency_threshold': .4, 'monotonicity_threshold': .6, 'min_n_cycles': 2}
    kw = {'threshold_kwargs': thr}

    # independent expectation: flatten the slice, analyse it once, cut by the trough that ends a cycle
    exp = {0: [[None] * n1 for _ in range(n0)], 1: [[None] * n1 for _ in range(n0)]}
    for i in range(n0):
        df = compute_features(np.concatenate([sigs[i, j] for j in range(n1)]), fs, f_range, **kw)
        for j, d in enumerate(epoch_split(df, n1, T)):
            exp[0][i][j] = d
    for j in range(n1):
        df = compute_features(np.concatenate([sigs[i, j] for i in range(n0)]), fs, f_range, **kw)
        for i, d in enumerate(epoch_split(df, n0, T)):
            exp[1][i][j] = d

    bad = []

    def judge(tag, got, ax):
        ok = len(got) == n0 and all(len(r) == n1 for r in got) and \
            all(same(got[i][j], exp[ax][i][j]) for i in range(n0) for j in range(n1))
        print(tag, 'matches the slice-by-slice expectation' if ok else 'DIFFERS')
        if not ok:
            bad.append(tag)

    for ax in (0, 1):
        # control: the python int works
        judge('compute_features_3d axis=%d (int)' % ax,
              compute_features_3d(sigs, fs, f_range, kw, axis=ax, n_jobs=2), ax)
        for name, axis in (('np.int64', np.int64(ax)), ('np.arange element', np.arange(2)[ax])):
            tag = 'compute_features_3d axis=%s(%d)' % (name, ax)
            try:
                got = compute_features_3d(sigs, fs, f_range, kw, axis=axis, n_jobs=2)
            except Exception as err:  # noqa
                print(tag, 'RAISED', type(err).__name__, str(err)[:90])
                bad.append(tag)
                continue
            judge(tag, got, ax)
        tag = 'BycycleGroup.fit axis=np.int64(%d)' % ax
        try:
            g = BycycleGroup(thresholds=dict(thr))
            g.fit(sigs, fs, f_range, axis=np.int64(ax), n_jobs=2)
            judge(tag, [[m.df_features for m in row] for row in g.models], ax)
        except Exception as err:  # noqa
            print(tag, 'RAISED', type(err).__name__, str(err)[:90])
            bad.append(tag)

    # per-slice option list + numpy integer axis (fails earlier, in check_kwargs_shape)
    lst = [dict(kw) for _ in range(n0)]
    tag = 'compute_features_3d axis=np.int64(0) with a 1-D option list'
    try:
        judge(tag, compute_features_3d(sigs, fs, f_range, lst, axis=np.int64(0), n_jobs=2), 0)
    except Exception as err:  # noqa
        print(tag, 'RAISED', type(err).__name__, str(err)[:90])
        bad.append(tag)

    print('VIOLATION' if bad else 'ok')
    return 1 if bad else 0


if __name__ == '__main__':
    sys.exit(main())
