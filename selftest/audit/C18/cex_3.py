"""C18 / flatten_dfs: a label *list* is pushed through np.array(), which coerces a list of mixed-type labels to one
dtype; the rows then carry a different value than the label of their table (1 -> '1', nan -> 'nan', None kept only
by luck).  Labels given as an object array are kept, so it is the list form only.

usage: python cex_3.py <path to source tree>      exit 1 = violation shown, 0 = not shown
"""
import sys
import warnings

sys.path.insert(0, sys.argv[1] if len(sys.argv) > 1 else '.')
warnings.simplefilter('ignore')

import numpy as np
from bycycle.features import compute_features
from bycycle.utils import flatten_dfs

fs = 512
times = np.arange(3 * fs) / fs
df = compute_features(np.cos(2 * np.pi * 10 * times), fs, (8, 12))


def same_label(got, want):
    """A row carries label `want` iff the stored value equals it (NaN equals NaN), and is not a string where
    the label was a number or vice versa."""
    if isinstance(want, float) and want != want:
        return isinstance(got, (float, np.floating)) and got != got
    if isinstance(want, str) != isinstance(got, str):
        return False
    return bool(got == want)


violations = []
cases = {
    "channel number and channel name": [1, 'Cz'],
    "missing label (nan) next to names": [float('nan'), 'rest'],
    "2-D, ints and strings": [[0, 'a'], [1, 'b']],
}
for name, labels in cases.items():
    flat = [l for row in labels for l in row] if isinstance(labels[0], list) else list(labels)
    tables = [df.iloc[2 * i:2 * i + 2].copy() for i in range(len(flat))]
    arg = tables if not isinstance(labels[0], list) else [tables[:2], tables[2:]]
    out = flatten_dfs(arg, labels)
    got = list(out['Label'].values)
    for i, want in enumerate(flat):
        rows = got[2 * i:2 * i + 2]
        if not all(same_label(g, want) for g in rows):
            violations.append("%s: rows of table %d should carry %r (%s), carry %r (%s)"
                              % (name, i, want, type(want).__name__, rows[0], type(rows[0]).__name__))

for v in violations:
    print(v)
sys.exit(1 if violations else 0)
