"""C18 / limit_df: the row masks compare against `start*fs` / `stop*fs` (and the shift is `int(fs * start)`) computed in the
type of `fs`.  With a small numpy integer sampling rate (np.uint8(250) is what scipy.io.loadmat returns for a MATLAB
`fs = 250`; np.int16(1000) overflows from 33 s on) and integer limits (the docstring example uses start=0, stop=1)
the products wrap around: cycles entirely inside the window are dropped, cycles entirely outside are returned.

usage: python cex_5.py <path to source tree>      exit 1 = violation shown, 0 = not shown
"""
import sys
import warnings

sys.path.insert(0, sys.argv[1] if len(sys.argv) > 1 else '.')
warnings.simplefilter('ignore')

import numpy as np
from bycycle.features import compute_features
from bycycle.utils import limit_df

violations = []


def run(fs_plain, fs_typed, n_seconds, windows):
    times = np.arange(n_seconds * fs_plain) / fs_plain
    sig = np.cos(2 * np.pi * 10 * times)
    for center, side in (('peak', 'trough'), ('trough', 'peak')):
        df = compute_features(sig, fs_plain, (8, 12), center_extrema=center)
        first = df['sample_last_' + side].values     # exact integer arithmetic oracle: k >= start * fs
        last = df['sample_next_' + side].values
        for start, stop in windows:
            inside = np.ones(len(df), bool)
            outside = np.zeros(len(df), bool)
            if start is not None:
                inside &= first >= int(start) * int(fs_plain)
                outside |= last < int(start) * int(fs_plain)
            if stop is not None:
                inside &= last <= int(stop) * int(fs_plain)
                outside |= first > int(stop) * int(fs_plain)
            out = limit_df(df, fs_typed, start=start, stop=stop, reset_indices=False)
            missing = sorted(set(df.index[inside]) - set(out.index))
            intruders = sorted(set(out.index) & set(df.index[outside]))
            if missing or intruders:
                violations.append("fs=%r %s-centred start=%r stop=%r: %d cycles entirely inside, %d of them missing; "
                                  "%d returned cycles lie entirely outside"
                                  % (fs_typed, center, start, stop, inside.sum(), len(missing), len(intruders)))
            # the same call with the plain python number is right
            ref = limit_df(df, fs_plain, start=start, stop=stop, reset_indices=False)
            assert list(ref.index) == list(df.index[inside])


run(250, np.uint8(250), 6, [(2, 3), (None, 3), (2, None)])
run(1000, np.int16(1000), 45, [(35, 40), (40, None)])

for v in violations:
    print(v)
sys.exit(1 if violations else 0)
