"""C18 / split_samples_df: a cycle table without sample_* columns (compute_features(..., return_samples=False), or the
feature half returned by an earlier split_samples_df / drop_samples_df) cannot be separated: ValueError instead of
(the table unchanged, an empty samples table).  drop_samples_df handles the same table.

usage: python cex_4.py <path to source tree>      exit 1 = violation shown, 0 = not shown
"""
import sys
import warnings

sys.path.insert(0, sys.argv[1] if len(sys.argv) > 1 else '.')
warnings.simplefilter('ignore')

import numpy as np
from bycycle.features import compute_features
from bycycle.utils import split_samples_df, drop_samples_df

fs = 512
times = np.arange(3 * fs) / fs
sig = np.cos(2 * np.pi * 10 * times)

violations = []


def check(name, table):
    reference = table.copy()
    sample_cols = [c for c in reference.columns if c.startswith('sample_')]
    other_cols = [c for c in reference.columns if not c.startswith('sample_')]
    try:
        df_feat, df_samp = split_samples_df(table)
    except Exception as exc:  # the partition exists (rest = everything, samples = nothing), so no error is due
        violations.append("%s: split_samples_df raised %s: %s (columns starting with sample_: %d)"
                          % (name, type(exc).__name__, exc, len(sample_cols)))
        return
    if list(df_feat.columns) != other_cols or list(df_samp.columns) != sample_cols \
            or not df_feat.equals(reference[other_cols]) or len(df_samp) != len(reference):
        violations.append("%s: wrong partition" % name)


# sanity: the ordinary table is split correctly
check("return_samples=True", compute_features(sig, fs, (8, 12)))
assert not violations

check("compute_features(return_samples=False)", compute_features(sig, fs, (8, 12), return_samples=False))
check("drop_samples_df output", drop_samples_df(compute_features(sig, fs, (8, 12))))
first_half, _ = split_samples_df(compute_features(sig, fs, (8, 12), center_extrema='trough'))
check("split twice (feature half of an earlier split)", first_half)

for v in violations:
    print(v)
sys.exit(1 if violations else 0)
