"""C18 / limit_df: a limit that IS the time of a cycle boundary (start == sample_last_<side> / fs or
stop == sample_next_<side> / fs, computed in floating point) drops the cycle that begins / ends exactly there,
whenever (k / fs) * fs does not round back to k (sampling rates that are not powers of two).

usage: python cex_1.py <path to source tree>      exit 1 = violation shown, 0 = not shown
"""
import sys
import warnings

sys.path.insert(0, sys.argv[1] if len(sys.argv) > 1 else '.')
warnings.simplefilter('ignore')

import numpy as np
from bycycle.features import compute_features
from bycycle.utils import limit_df, limit_signal


def expected_mask(df, fs, side, start, stop):
    """Independent oracle: a cycle spans [sample_last_side / fs, sample_next_side / fs] seconds
    (the same floating point sample times a user gets from `samples / fs`); it lies entirely inside
    [start, stop] iff both end points do."""
    t_first = df['sample_last_' + side].values / fs
    t_last = df['sample_next_' + side].values / fs
    mask = np.ones(len(df), dtype=bool)
    if start is not None:
        mask &= t_first >= start
    if stop is not None:
        mask &= t_last <= stop
    return mask


violations = []

for fs in (100, 300, 1000):
    n_samples = 6 * fs
    times = np.arange(n_samples) / fs
    for shift in (0, 1, 2):
        sig = np.cos(2 * np.pi * 10 * (times - shift / fs))
        for center, side in (('peak', 'trough'), ('trough', 'peak')):
            df = compute_features(sig, fs, (8, 12), center_extrema=center)
            feat_cols = [c for c in df.columns if not c.startswith('sample_')]
            for row in range(len(df)):
                k0 = int(df['sample_last_' + side].iloc[row])
                k1 = int(df['sample_next_' + side].iloc[row])
                # three windows whose limits coincide with the boundaries of cycle `row`
                for start, stop in ((k0 / fs, None), (None, k1 / fs), (k0 / fs, k1 / fs)):
                    exp = df[expected_mask(df, fs, side, start, stop)]
                    assert row in exp.index  # the cycle lies entirely inside the window
                    out = limit_df(df, fs, start=start, stop=stop, reset_indices=False)
                    if list(out.index) != list(exp.index) or \
                            not out[feat_cols].equals(exp[feat_cols]):
                        # cross-check with limit_signal: the boundary samples are inside the window
                        _, t_lim = limit_signal(times, sig, start=start,
                                                stop=None if stop is None else np.nextafter(stop, np.inf))
                        violations.append((fs, center, row, k0, k1, start, stop,
                                           len(out), len(exp), times[k0] in t_lim, times[k1] in t_lim))

for v in violations[:12]:
    print("fs=%d %s-centred: cycle %d spans samples [%d, %d]; limit_df(start=%r, stop=%r) returned %d rows, "
          "%d cycles lie entirely inside (cycle missing; limit_signal keeps sample %d: %s, sample %d: %s)"
          % (v[0], v[1], v[2], v[3], v[4], v[5], v[6], v[7], v[8], v[3], v[9], v[4], v[10]))
print("%d violating windows" % len(violations))
sys.exit(1 if violations else 0)
