"""C18 / flatten_dfs: when one table object stands at two places of the list (1-D or 2-D), every row of the
result that came from the earlier place carries the label of the later place.

usage: python cex_2.py <path to source tree>      exit 1 = violation shown, 0 = not shown
"""
import sys
import warnings

sys.path.insert(0, sys.argv[1] if len(sys.argv) > 1 else '.')
warnings.simplefilter('ignore')

import numpy as np
from bycycle.features import compute_features
from bycycle.utils import flatten_dfs

fs = 512
times = np.arange(4 * fs) / fs
df_a = compute_features(np.cos(2 * np.pi * 10 * times), fs, (8, 12))
df_b = compute_features(np.cos(2 * np.pi * 9 * times), fs, (8, 12))


def expected_labels(tables, labels):
    """Oracle: row r of the concatenation comes from table i -> must carry labels[i]."""
    exp = []
    for table, label in zip(tables, labels):
        exp.extend([label] * len(table))
    return exp


violations = []

# 1-D: the same recording analysed under two condition names, e.g. a template reused for two channels
tables = [df_a, df_b, df_a]
labels = ['ch0', 'ch1', 'ch2']
n_rows = [len(t) for t in tables]
out = flatten_dfs(tables, labels)
exp = expected_labels(tables, labels)
# order and values are as promised ...
assert len(out) == sum(n_rows)
assert (out['period'].values == np.concatenate([t['period'].values for t in tables])).all()
# ... the labels are not
got = [str(v) for v in out['Label'].values]
if got != exp:
    wrong = sum(g != e for g, e in zip(got, exp))
    violations.append("1-D [a, b, a] with labels %s: %d of %d rows mislabelled; rows of table 0 carry %r"
                      % (labels, wrong, len(exp), got[0]))

# 2-D: 2 x 2 list, one object in two cells
df_c = df_a.drop(columns='Label')
df_d = df_b.drop(columns='Label')
tables2 = [[df_c, df_d], [df_d.copy(), df_c]]
labels2 = [['s0e0', 's0e1'], ['s1e0', 's1e1']]
flat_tables = [t for row in tables2 for t in row]
flat_labels = [l for row in labels2 for l in row]
exp2 = expected_labels(flat_tables, flat_labels)
out2 = flatten_dfs(tables2, labels2)
got2 = [str(v) for v in out2['Label'].values]
if got2 != exp2:
    wrong = sum(g != e for g, e in zip(got2, exp2))
    violations.append("2-D [[c, d], [d', c]]: %d of %d rows mislabelled; rows of cell (0, 0) carry %r, expected %r"
                      % (wrong, len(exp2), got2[0], exp2[0]))

for v in violations:
    print(v)
sys.exit(1 if violations else 0)
