"""C03 counterexample 3: extrema sequences without any flank.

find_extrema(..., first_extrema=None) on a short signal returns one extremum only (one peak and no trough, or the reverse).
Such a sequence is alternating and has no pair of adjacent extrema, so find_zerox has to return no rise and no decay
(two empty arrays).  It raises IndexError instead (zerox.py:64, peaks[0] < troughs[0] evaluated before anything else).

usage: python cex_3.py <path to source tree>     exit 1 = violation shown, 0 = not shown
"""
import sys
import warnings

sys.path.insert(0, sys.argv[1] if len(sys.argv) > 1 else '.')
warnings.simplefilter('ignore')
import numpy as np
from bycycle.cyclepoints import find_extrema, find_zerox

fs = 500
violation = False
n_seen = 0
for n in (20, 25, 30, 35):
    for phase in (0, np.pi / 2, np.pi, 3 * np.pi / 2):
        sig = np.sin(2 * np.pi * 10 * np.arange(n) / fs + phase)
        peaks, troughs = find_extrema(sig, fs, (8, 12), first_extrema=None)
        ext = sorted([(int(i), 'P') for i in peaks] + [(int(i), 'T') for i in troughs])
        assert all(ext[i][1] != ext[i + 1][1] for i in range(len(ext) - 1)), "alternating"
        # independent count: one flank per pair of adjacent extrema
        n_rises = sum(1 for i in range(len(ext) - 1) if ext[i][1] == 'T')
        n_decays = sum(1 for i in range(len(ext) - 1) if ext[i][1] == 'P')
        try:
            rises, decays = find_zerox(sig, peaks, troughs)
            ok = (len(rises), len(decays)) == (n_rises, n_decays)
            msg = "returned %d rises, %d decays" % (len(rises), len(decays))
        except Exception as err:        # noqa
            ok = False
            msg = "raised %s: %s" % (type(err).__name__, err)
        if len(ext) < 2:
            n_seen += 1
            print("n=%d phase=%.2f peaks=%s troughs=%s: expected %d rises / %d decays; find_zerox %s"
                  % (n, phase, list(peaks), list(troughs), n_rises, n_decays, msg))
        violation |= not ok

# hand-written forms of the same thing
for peaks, troughs in (([2], []), ([], [2]), (np.array([2]), np.array([], dtype=int))):
    try:
        rises, decays = find_zerox(np.array([0., 1., 2., 1., 0.]), peaks, troughs)
        ok = len(rises) == 0 and len(decays) == 0
    except Exception as err:            # noqa
        ok = False
        print("peaks=%r troughs=%r: raised %s" % (peaks, troughs, type(err).__name__))
    violation |= not ok

print("VIOLATION" if violation else "no violation")
sys.exit(1 if violation else 0)
