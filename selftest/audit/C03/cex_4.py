"""C03 counterexample 4: a NaN sample inside a flank is counted as a crossing of the half-height (in both directions).

find_flank_zerox (zerox.py:106-108) marks a crossing where  pos[i] & ~pos[i+1];  for a NaN at i+1 both `sig <= level` and
`sig > level` are False, so ~pos[i+1] is True and a crossing is registered although the signal has not passed the level.
The median of the crossings is then pulled towards the NaN sample.  Extrema themselves are finite here, so the half-height
is well defined and the flank is a proper one.

usage: python cex_4.py <path to source tree>     exit 1 = violation shown, 0 = not shown
"""
import sys
import warnings

sys.path.insert(0, sys.argv[1] if len(sys.argv) > 1 else '.')
warnings.simplefilter('ignore')
import numpy as np
from bycycle.cyclepoints import find_zerox


def reference(sig, s, e, kind):
    """crossing = explicit comparison on both sides (a NaN never compares as above or below)"""
    seg = sig[s:e + 1]
    level = (seg[0] + seg[-1]) / 2
    if kind == 'rise':
        xs = [i for i in range(len(seg) - 1) if seg[i] <= level and seg[i + 1] > level]
    else:
        xs = [i for i in range(len(seg) - 1) if seg[i] > level and seg[i + 1] <= level]
    k = len(xs)
    return s + (xs[(k - 1) // 2] + xs[k // 2]) // 2


violation = False
nan = np.nan
#            T                         P                          T
sig = np.array([0., nan, .1, .2, .3, .4, 1., nan, .9, .8, .7, .6, 0.])
peaks, troughs = np.array([6]), np.array([0, 12])
rises, decays = find_zerox(sig, peaks, troughs)
exp_r, exp_d = reference(sig, 0, 6, 'rise'), reference(sig, 6, 12, 'decay')
print("rise  trough 0 -> peak 6 : level 0.5 is passed between samples 5 and 6: expected %d, library %s" % (exp_r, list(map(int, rises))))
print("decay peak 6 -> trough 12: level 0.5 is passed between samples 11 and 12: expected %d, library %s" % (exp_d, list(map(int, decays))))
violation |= [int(r) for r in rises] != [exp_r] or [int(d) for d in decays] != [exp_d]

print("VIOLATION" if violation else "no violation")
sys.exit(1 if violation else 0)
