"""C03 counterexample 2: the half-height level is computed in the signal's own number format.

zerox.py:127/137  midpoint = (sig_temp[0] + sig_temp[-1]) / 2.   uses the dtype of the signal (float16 / float32 / float64),
and integer signals are first cast to float64 (zerox.py:55-56).  The sum can overflow to inf (float16 above ~32750), can be
rounded up onto the end extremum (flank height of an odd number of ulps, e.g. float32 with a large offset), and the cast
merges distinct int64 values above 2**53.  In all cases no crossing of the (wrong) level is found and the temporal centre
is returned instead of the sample just before the real half-height crossing.

Cases a-f are proper rises (start < end) and no sample lies on the exact half-height, so the tie convention plays no role.
Case g (converter counts stored as float32) is judged with the library's own tie convention, so only the level is at issue.

usage: python cex_2.py <path to source tree>     exit 1 = violation shown, 0 = not shown
"""
import sys
import warnings
from fractions import Fraction

sys.path.insert(0, sys.argv[1] if len(sys.argv) > 1 else '.')
warnings.simplefilter('ignore')
import numpy as np
from bycycle.cyclepoints import find_zerox


def exact(v):
    return Fraction(int(v)) if isinstance(v, (int, np.integer)) else Fraction(float(v))


def reference_rise(sig, s, e):
    seg = [exact(v) for v in sig[s:e + 1]]
    a, b = seg[0], seg[-1]
    assert a < b
    level = (a + b) / 2
    assert all(v != level for v in seg), "no ties in this script"
    xs = [i for i in range(len(seg) - 1) if seg[i] < level < seg[i + 1]]
    k = len(xs)
    return s + (xs[(k - 1) // 2] + xs[k // 2]) // 2


cases = {}
# a) float16 voltages whose sum exceeds the float16 range (65504): half-height 35000 is passed between samples 1 and 2
cases['float16, sum of the extrema overflows'] = np.array([30000, 31000, 38000, 39000, 39500, 40000], dtype=np.float16)
# b) float32 with a large offset (2**24 + ...): the flank is one float32 step (2) high
cases['float32, offset 2**24, flank of one ulp'] = np.array([16777218] * 4 + [16777220], dtype=np.float32)
# c) float32 close to 1.0, same effect at any magnitude
cases['float32 near 1, flank of one ulp'] = np.array([1 + 2 ** -23] * 4 + [1 + 2 ** -22], dtype=np.float32)
# d) float32, three ulps high, the sample just below the end is the rounded level
x = 16777216.
cases['float32, flank of three ulps'] = np.array([x + 4, x + 4, x + 4, x + 8, x + 8, x + 8, x + 10], dtype=np.float32)
# e) float64 with an offset of 1e16
cases['float64, offset 1e16, flank of one ulp'] = np.array([1e16 + 2] * 4 + [1e16 + 4], dtype=np.float64)
# f) int64 signal with values above 2**53 (cast to float64 merges them)
cases['int64 above 2**53'] = np.array([2 ** 62] * 4 + [2 ** 62 + 1], dtype=np.int64)

violation = False
for name, sig in cases.items():
    assert len(set(sig.tolist())) > 1
    s, e = 0, len(sig) - 1
    rises, decays = find_zerox(sig, np.array([e]), np.array([s]))
    exp = reference_rise(sig, s, e)
    got = [int(r) for r in rises]
    flag = (got != [exp]) or len(decays) != 0
    violation |= flag
    print("%-45s expected rise %d, library %s %s" % (name, exp, got, 'MISMATCH' if flag else 'ok'))

# g) realistic: unsigned 24-bit converter counts (about 1.2e7) stored as float32, a 10 Hz rhythm of +-60 counts;
#    extrema located on the mean-free float64 copy, midpoints asked on the float32 recording itself.
#    Reference uses the library's own tie convention (rise: <= level then > level; decay: > level then <= level),
#    so only the level arithmetic is judged.
from bycycle.cyclepoints import find_extrema
fs = 500
t = np.arange(0, 10, 1 / fs)
rng = np.random.default_rng(1)
counts = np.round(12_000_000 + 60 * np.sin(2 * np.pi * 10 * t) * (1 + .3 * np.sin(2 * np.pi * .7 * t)) + rng.normal(0, 3, len(t)))
rec = counts.astype(np.float32)
assert np.all(rec.astype(np.float64) == counts)            # every count is exactly representable in float32
peaks, troughs = find_extrema(counts - counts.mean(), fs, (8, 12))
rises, decays = find_zerox(rec, peaks, troughs)


def ref_lib_ties(sig, s, e, kind):
    seg = [Fraction(float(v)) for v in sig[s:e + 1]]
    n = len(seg)
    a, b = seg[0], seg[-1]
    if all(v == 0 for v in seg) or (kind == 'rise' and a > b) or (kind == 'decay' and a < b):
        return s + n // 2
    m = (a + b) / 2
    xs = [i for i in range(n - 1) if (seg[i] <= m < seg[i + 1] if kind == 'rise' else seg[i] > m >= seg[i + 1])]
    if not xs:
        return s + n // 2
    k = len(xs)
    return s + (xs[(k - 1) // 2] + xs[k // 2]) // 2


ext = sorted([(int(i), 'P') for i in peaks] + [(int(i), 'T') for i in troughs])
exp_r = [ref_lib_ties(rec, ext[i][0], ext[i + 1][0], 'rise') for i in range(len(ext) - 1) if ext[i][1] == 'T']
exp_d = [ref_lib_ties(rec, ext[i][0], ext[i + 1][0], 'decay') for i in range(len(ext) - 1) if ext[i][1] == 'P']
diff = [(a, int(b)) for a, b in zip(exp_r, rises) if a != b] + [(a, int(b)) for a, b in zip(exp_d, decays) if a != b]
print("float32 converter counts: %d of %d midpoints differ from the exact recomputation (expected, library): %s"
      % (len(diff), len(exp_r) + len(exp_d), diff[:4]))
# the same recording in float64 is fine, so it is the level arithmetic and not the data
r64, d64 = find_zerox(counts, peaks, troughs)
print("same counts as float64: %d differ" % (sum(a != b for a, b in zip(exp_r, r64)) + sum(a != b for a, b in zip(exp_d, d64))))
violation |= bool(diff)

print("VIOLATION" if violation else "no violation")
sys.exit(1 if violation else 0)
