"""C03 counterexample 5 (argument forms; lower confidence that these are inside the quantifier).

The same voltages and the same extrema, handed over in other container / index types, do not give the midpoints:
 * a pandas Series (default RangeIndex): KeyError -1, because sig_temp[0] / sig_temp[-1] (zerox.py:127) are label look-ups;
 * a list of floats: TypeError in `sig <= midpoint` (zerox.py:106) - whereas a list of ints works (it is converted at :55-56);
 * extrema given as a uint8 / uint16 index array with an extremum on index 255 / 65535: `extrema_end[...] + 1` (zerox.py:126)
   wraps to 0, the segment is empty, IndexError.
The expected midpoints are recomputed independently from the plain float64 array.

usage: python cex_5.py <path to source tree>     exit 1 = violation shown, 0 = not shown
"""
import sys
import warnings

sys.path.insert(0, sys.argv[1] if len(sys.argv) > 1 else '.')
warnings.simplefilter('ignore')
import numpy as np
import pandas as pd
from bycycle.cyclepoints import find_zerox


def reference(sig, peaks, troughs):
    ext = sorted([(int(i), 'P') for i in peaks] + [(int(i), 'T') for i in troughs])
    out = {'rise': [], 'decay': []}
    for (s, ks), (e, ke) in zip(ext[:-1], ext[1:]):
        kind = 'rise' if ks == 'T' else 'decay'
        seg = sig[s:e + 1]
        level = (seg[0] + seg[-1]) / 2
        assert not np.any(seg == level)          # no ties, proper flanks only
        sign = 1 if kind == 'rise' else -1
        assert sign * seg[0] < sign * seg[-1]
        xs = [i for i in range(len(seg) - 1) if sign * seg[i] < sign * level < sign * seg[i + 1]]
        k = len(xs)
        out[kind].append(s + (xs[(k - 1) // 2] + xs[k // 2]) // 2)
    return out['rise'], out['decay']


n = 256
arr = np.sin(2 * np.pi * (np.arange(n) + 0.25) / 64.)
arr[255] = -2.                                   # a trough on the last sample
peaks, troughs = [16, 80, 144, 208], [48, 112, 176, 255]
exp = reference(arr, peaks, troughs)
base = find_zerox(arr, np.array(peaks), np.array(troughs))
assert (list(base[0]), list(base[1])) == exp, "plain float64 array agrees with the recomputation"

forms = {
    'pandas Series': (pd.Series(arr), np.array(peaks), np.array(troughs)),
    'list of floats': (arr.tolist(), peaks, troughs),
    'uint8 index arrays': (arr, np.array(peaks, dtype=np.uint8), np.array(troughs, dtype=np.uint8)),
}
violation = False
for name, (s, p, t) in forms.items():
    try:
        r, d = find_zerox(s, p, t)
        ok = ([int(x) for x in r], [int(x) for x in d]) == exp
        msg = 'ok' if ok else 'different midpoints'
    except Exception as err:            # noqa
        ok = False
        msg = 'raised %s: %s' % (type(err).__name__, err)
    print('%-20s %s' % (name, msg))
    violation |= not ok

print("VIOLATION" if violation else "no violation")
sys.exit(1 if violation else 0)
