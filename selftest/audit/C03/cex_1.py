"""C03 counterexample 1: a sample lying exactly on the half-height level.

find_zerox treats such a sample as "not yet crossed" on a rise but as "already crossed" on a decay, so the two
flank types do not follow one common definition of "the sample just before the signal crosses the half-height
in the flank's direction".  Whatever reading of "crosses" is taken (strictly beyond the level / reaching the level),
one of the two flank types is off by one sample.  Consequence visible in compute_features: the same flank of the same
raw signal gets a different sample_zerox_* value with center_extrema='peak' and center_extrema='trough'.

usage: python cex_1.py <path to source tree>     exit 1 = violation shown, 0 = not shown
"""
import sys
import warnings
from fractions import Fraction

sys.path.insert(0, sys.argv[1] if len(sys.argv) > 1 else '.')
warnings.simplefilter('ignore')
import numpy as np
from bycycle.cyclepoints import find_zerox
from bycycle.features import compute_features


def reference(sig, s, e, kind, reading):
    """Independent recomputation in exact arithmetic, the same rule for both flank types (mirrored by `sign`)."""
    seg = [Fraction(float(v)) for v in sig[s:e + 1]]
    n = len(seg)
    sign = 1 if kind == 'rise' else -1
    a, b = sign * seg[0], sign * seg[-1]
    assert a < b, "only proper flanks are used in this script"
    level = (a + b) / 2
    xs = []
    for i in range(n - 1):
        u, v = sign * seg[i], sign * seg[i + 1]
        if reading == 'beyond':      # crossing = from at-or-before the level to strictly beyond it
            hit = u <= level < v
        else:                        # 'reach': crossing = from strictly before the level to at-or-beyond it
            hit = u < level <= v
        if hit:
            xs.append(i)
    k = len(xs)
    return s + (xs[(k - 1) // 2] + xs[k // 2]) // 2     # temporal median, rounded down


def flanks(peaks, troughs):
    ext = sorted([(int(i), 'P') for i in peaks] + [(int(i), 'T') for i in troughs])
    rises = [(ext[i][0], ext[i + 1][0]) for i in range(len(ext) - 1) if ext[i][1] == 'T']
    decays = [(ext[i][0], ext[i + 1][0]) for i in range(len(ext) - 1) if ext[i][1] == 'P']
    return rises, decays


violation = False

# --- A: smallest example, a symmetric triangle; trough 0, peak 2, trough 4; half-height 1 is hit at samples 1 and 3
sig = np.array([0., 1., 2., 1., 0.])
peaks, troughs = np.array([2]), np.array([0, 4])
rises, decays = [list(map(int, x)) for x in find_zerox(sig, peaks, troughs)]
fr, fd = flanks(peaks, troughs)
ok_for_some_reading = False
for reading in ('beyond', 'reach'):
    exp_r = [reference(sig, s, e, 'rise', reading) for s, e in fr]
    exp_d = [reference(sig, s, e, 'decay', reading) for s, e in fd]
    ok = list(rises) == exp_r and list(decays) == exp_d
    print("A reading=%-6s expected rises %s decays %s | library rises %s decays %s | %s"
          % (reading, exp_r, exp_d, list(rises), list(decays), 'ok' if ok else 'MISMATCH'))
    ok_for_some_reading |= ok
if not ok_for_some_reading:
    violation = True

# mirror image: negating the signal and swapping the roles must give the same samples
m_rises, m_decays = [list(map(int, x)) for x in find_zerox(-sig, troughs, peaks)]
print("A mirror: rises %s -> decays of -sig %s ; decays %s -> rises of -sig %s"
      % (list(rises), list(m_decays), list(decays), list(m_rises)))
if list(m_decays) != list(rises) or list(m_rises) != list(decays):
    violation = True

# --- B: quantised sine through the public pipeline; same flank, two centrings
fs = 500
t = np.arange(0, 4, 1 / fs)
qsig = np.round(4 * np.sin(2 * np.pi * 10 * t))
dp = compute_features(qsig, fs, (8, 12), center_extrema='peak', threshold_kwargs={})
dt = compute_features(qsig, fs, (8, 12), center_extrema='trough', threshold_kwargs={})
rise_p = {(a, b): c for a, b, c in zip(dp.sample_last_trough, dp.sample_peak, dp.sample_zerox_rise)}
rise_t = {(a, b): c for a, b, c in zip(dt.sample_trough, dt.sample_next_peak, dt.sample_zerox_rise)}
dec_p = {(a, b): c for a, b, c in zip(dp.sample_peak, dp.sample_next_trough, dp.sample_zerox_decay)}
dec_t = {(a, b): c for a, b, c in zip(dt.sample_last_peak, dt.sample_trough, dt.sample_zerox_decay)}
n_r = [k for k in set(rise_p) & set(rise_t) if rise_p[k] != rise_t[k]]
n_d = [k for k in set(dec_p) & set(dec_t) if dec_p[k] != dec_t[k]]
print("B: rises of the same flank differing between centrings: %d of %d; decays: %d of %d"
      % (len(n_r), len(set(rise_p) & set(rise_t)), len(n_d), len(set(dec_p) & set(dec_t))))
if n_r:
    k = sorted(n_r)[0]
    print("   e.g. flank trough %d -> peak %d: sample_zerox_rise %d (peak-centred) vs %d (trough-centred); "
          "reference beyond=%d reach=%d" % (k[0], k[1], rise_p[k], rise_t[k],
                                            reference(qsig, k[0], k[1], 'rise', 'beyond'),
                                            reference(qsig, k[0], k[1], 'rise', 'reach')))
# for each reading: all sample_zerox_* columns of both tables must match the reference
for reading in ('beyond', 'reach'):
    bad = 0
    for tab, kind in ((rise_p, 'rise'), (rise_t, 'rise'), (dec_p, 'decay'), (dec_t, 'decay')):
        bad += sum(reference(qsig, s, e, kind, reading) != v for (s, e), v in tab.items())
    print("B reading=%-6s: %d column entries differ from the reference" % (reading, bad))
    if bad == 0:
        break
else:
    violation = True

print("VIOLATION" if violation else "no violation")
sys.exit(1 if violation else 0)
