"""C13 cex 2: a per-epoch option list whose entries do not all use the burst method of entry 0
(compute_features_2d reads 'burst_method' per entry) raises KeyError instead of re-labelling each epoch.

usage: python cex_2.py <source tree>   -> exit 1 when the violation shows, 0 otherwise
"""
import sys, warnings
sys.path.insert(0, sys.argv[1] if len(sys.argv) > 1 else '.')
warnings.simplefilter('ignore')
import numpy as np
from bycycle.group import compute_features_2d
from bycycle.features import compute_features

fs, L, n_ep = 500, 500, 6
rng = np.random.default_rng(0)
t = np.arange(L * n_ep) / fs
env = (np.sin(2 * np.pi * 0.4 * t) > -0.3).astype(float)
flat_sig = env * np.sin(2 * np.pi * 10 * t) + 0.2 * rng.standard_normal(len(t))
sigs = flat_sig.reshape(n_ep, L)

def runs(b, n):
    out = np.zeros(len(b), bool); i = 0
    while i < len(b):
        if b[i]:
            j = i
            while j < len(b) and b[j]: j += 1
            if j - i >= n: out[i:j] = True
            i = j
        else: i += 1
    return out

def label_cycles(d, th):
    b = ((d['amp_fraction'].values > th.get('amp_fraction_threshold', 0.))
         & (d['amp_consistency'].values > th.get('amp_consistency_threshold', .5))
         & (d['period_consistency'].values > th.get('period_consistency_threshold', .5))
         & (d['monotonicity'].values > th.get('monotonicity_threshold', .8)))
    if len(b): b[0] = b[-1] = False
    return runs(b, th.get('min_n_cycles', 3))

def label_amp(d, th):
    return runs(d['burst_fraction'].values >= th.get('burst_fraction_threshold', 1), th.get('min_n_cycles', 3))

cases = {
 'cycles first, amp later': [{'burst_method': 'cycles', 'threshold_kwargs': {'monotonicity_threshold': .5}}] * 3
                            + [{'burst_method': 'amp', 'threshold_kwargs': {'burst_fraction_threshold': .5}}] * 3,
 'amp first, method left at its default later': [{'burst_method': 'amp', 'threshold_kwargs': {'burst_fraction_threshold': .5}}]
                            + [{'threshold_kwargs': {'monotonicity_threshold': .5}}] * 5,
}
bad = []
for name, kws in cases.items():
    try:
        dfs = compute_features_2d(sigs, fs, (8, 12), compute_features_kwargs=kws, axis=None)
    except Exception as exc:
        bad.append((name, 'raised', repr(exc)))
        continue
    # if it returns: every epoch must carry labels made with its own method/thresholds
    if len(dfs) != n_ep:
        bad.append((name, 'number of tables', len(dfs)))
        continue
    for k, (d, e) in enumerate(zip(dfs, kws)):
        m = e.get('burst_method', 'cycles'); th = e.get('threshold_kwargs') or {}
        need = 'burst_fraction' if m == 'amp' else 'amp_fraction'
        if need not in d.columns:
            bad.append((name, k, 'epoch cannot have been labelled with its own method', m)); continue
        exp = label_amp(d, th) if m == 'amp' else label_cycles(d, th)
        if not np.array_equal(d['is_burst'].values.astype(bool), exp):
            bad.append((name, k, 'labels differ from own thresholds'))

# control: a homogeneous list works (so the input/route as such is fine)
kws = [{'burst_method': 'cycles', 'threshold_kwargs': {'monotonicity_threshold': .5}}] * n_ep
dfs = compute_features_2d(sigs, fs, (8, 12), compute_features_kwargs=kws, axis=None)
assert all(np.array_equal(d['is_burst'].values, label_cycles(d, kws[0]['threshold_kwargs'])) for d in dfs)

for b in bad: print(b)
print('violations:', len(bad))
sys.exit(1 if bad else 0)
