"""C13 cex 4 (borderline): epoch_df shifts every column whose name CONTAINS 'sample_' - a caller's extra column such as
'resample_factor' / 'downsample_factor' / 'subsample_id' is changed by k*epoch_len (a string column of that kind raises).

usage: python cex_4.py <source tree>   -> exit 1 when the violation shows, 0 otherwise
"""
import sys, warnings
sys.path.insert(0, sys.argv[1] if len(sys.argv) > 1 else '.')
warnings.simplefilter('ignore')
import numpy as np
from bycycle.features import compute_features
from bycycle.utils.dataframes import epoch_df

fs = 500
rng = np.random.default_rng(1)
t = np.arange(3000) / fs
sig = np.sin(2 * np.pi * 10 * t) + 0.1 * rng.standard_normal(len(t))
flat = compute_features(sig, fs, (8, 12), threshold_kwargs={})
flat['downsample_factor'] = 2          # a value per cycle that is not a sample index
dfs = epoch_df(flat, len(sig), 500)
bad = []
for k, d in enumerate(dfs):
    if not (d['downsample_factor'].values == 2).all():
        bad.append((k, d['downsample_factor'].unique().tolist()))
flat2 = flat.drop(columns='downsample_factor'); flat2['subsample_id'] = 'a'
try:
    epoch_df(flat2, len(sig), 500)
except Exception as exc:
    bad.append(('string column', repr(exc)[:80]))
for b in bad: print(b)
print('violations:', len(bad))
sys.exit(1 if bad else 0)
