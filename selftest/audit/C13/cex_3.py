"""C13 cex 3: epoch_df with a float epoch length (e.g. epoch_len = fs with fs = 500.0, as in the docstring
example `epoch_df(df_features, len(sig), fs)`) or a float sig_len turns every sample-index column into float64:
the shifted "sample indices" can no longer index the epoch.

usage: python cex_3.py <source tree>   -> exit 1 when the violation shows, 0 otherwise
"""
import sys, warnings
sys.path.insert(0, sys.argv[1] if len(sys.argv) > 1 else '.')
warnings.simplefilter('ignore')
import numpy as np
from bycycle.features import compute_features
from bycycle.utils.dataframes import epoch_df

fs = 500.0
rng = np.random.default_rng(1)
t = np.arange(3000) / fs
sig = np.sin(2 * np.pi * 10 * t) + 0.1 * rng.standard_normal(len(t))
flat = compute_features(sig, fs, (8, 12), threshold_kwargs={})
scols = [c for c in flat.columns if c.startswith('sample_')]
assert all(flat[c].dtype.kind == 'i' for c in scols)
sigs = sig.reshape(6, 500)

bad = []
for name, args in {'epoch_len=fs (500.0)': (len(sig), fs), 'sig_len float': (float(len(sig)), 500),
                   'control ints': (len(sig), 500)}.items():
    dfs = epoch_df(flat, *args)
    assert len(dfs) == 6
    for k, d in enumerate(dfs):
        # values: shifted by k*500 (independent recomputation)
        g = flat['sample_next_trough'].values
        exp = flat[(g > k * 500) & (g <= (k + 1) * 500)]
        for c in scols:
            assert np.array_equal(d[c].values.astype(float), (exp[c].values - k * 500).astype(float))
            if d[c].dtype.kind not in 'iu':
                bad.append((name, k, c, str(d[c].dtype)))
        try:
            sigs[k][d['sample_peak'].values]
        except IndexError as exc:
            bad.append((name, k, 'cannot index the epoch', repr(exc)[:60]))
for b in bad[:6]: print(b)
print('violations:', len(bad))
assert not any(b[0] == 'control ints' for b in bad)
sys.exit(1 if bad else 0)
