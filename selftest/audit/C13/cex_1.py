"""C13 cex 1: a cycle whose closing side extremum falls exactly on the first sample of epoch k
(global sample k*L) is put into table k-1, with a local closing index == L (outside 0..L-1).

usage: python cex_1.py <source tree>   -> exit 1 when the violation shows, 0 otherwise
"""
import sys, warnings
sys.path.insert(0, sys.argv[1] if len(sys.argv) > 1 else '.')
warnings.simplefilter('ignore')
import numpy as np
from bycycle.group import compute_features_2d
from bycycle.features import compute_features
from bycycle.utils.dataframes import epoch_df

fs, L, n_ep = 1000, 250, 12
t = np.arange(L * n_ep) / fs
flat_sig = np.cos(2 * np.pi * 10 * t)          # troughs at 50, 150, 250, ... -> every 5th trough on a multiple of L
sigs = flat_sig.reshape(n_ep, L)

bad = []
for center in ('peak', 'trough'):
    sig = flat_sig if center == 'peak' else -flat_sig
    sg = sig.reshape(n_ep, L)
    side = 'trough' if center == 'peak' else 'peak'
    kw = {'center_extrema': center, 'threshold_kwargs': {}}
    flat = compute_features(sig, fs, (8, 12), **kw)                  # the flattened analysis
    g = flat['sample_next_' + side].values                          # global closing extrema
    # independent: the closing extremum really is a strict local extremum of the raw signal
    for gi in g:
        w = sig[max(gi - 20, 0):gi + 21]
        assert (sig[gi] == w.min()) if side == 'trough' else (sig[gi] == w.max())
    for route in ('compute_features_2d', 'epoch_df'):
        if route == 'compute_features_2d':
            dfs = compute_features_2d(sg, fs, (8, 12), compute_features_kwargs=kw, axis=None)
        else:
            dfs = epoch_df(flat, len(sig), L)
        assert len(dfs) == n_ep
        for i, gi in enumerate(g):
            e_expected = int(gi // L)                                # row of the 2-D array that holds sample gi
            assert sg[e_expected, gi - e_expected * L] == sig[gi]
            hits = [k for k, d in enumerate(dfs)
                    if ((d['sample_next_' + side].values + k * L == gi)
                        & (d['volt_' + center].values == flat['volt_' + center].values[i])).any()]
            if hits != [e_expected]:
                bad.append((center, route, i, int(gi), hits, e_expected))
        # local closing index must address a sample of the epoch
        for k, d in enumerate(dfs):
            loc = d['sample_next_' + side].values
            if ((loc < 0) | (loc >= L)).any():
                bad.append((center, route, 'local index outside the epoch', k, loc[(loc < 0) | (loc >= L)].tolist()))

for b in bad[:12]:
    print(b)
print('violations:', len(bad))
sys.exit(1 if bad else 0)
