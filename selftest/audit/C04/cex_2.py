"""C04 cex 2: volt_amp is computed as (volt_decay + volt_rise) / 2 in the dtype of the signal; for a half-precision
(float16) signal whose flank voltages are representable (<= 65504) the SUM overflows and volt_amp is inf, i.e. not the
mean of volt_rise and volt_decay of the same row.  (Same mechanism for float32 / float64 close to their maxima.)

usage: python cex_2.py <path to source tree>      exit 1 = violation shows, 0 = not
"""
import sys, warnings
sys.path.insert(0, sys.argv[1] if len(sys.argv) > 1 else '.')
warnings.filterwarnings('ignore')
import numpy as np
from bycycle.features import compute_features

fs = 500
rng = np.random.default_rng(0)
t = np.arange(0, 6, 1 / fs)
clean = np.sin(2 * np.pi * 10 * t) + 0.3 * np.sin(2 * np.pi * 20 * t + 1.0) + 0.02 * rng.standard_normal(len(t))
clean /= np.abs(clean).max()

bad = 0
for label, sig in (('float16, |x| <= 20000 (e.g. 16-bit ADC counts stored in half precision)', (clean * 20000).astype(np.float16)),
                   ('float32, |x| <= 1.2e38', (clean * 1.2e38).astype(np.float32))):
    for centre in ('peak', 'trough'):
        df = compute_features(sig, fs, (8, 12), center_extrema=centre, threshold_kwargs={})
        c, s = ('peak', 'trough') if centre == 'peak' else ('trough', 'peak')
        C, L, N = (df['sample_' + k].to_numpy() for k in (c, 'last_' + s, 'next_' + s))
        x = sig.astype(np.float64)                      # the signal values themselves, exactly
        if centre == 'peak':
            rise, decay = x[C] - x[L], x[C] - x[N]
        else:
            rise, decay = x[N] - x[C], x[L] - x[C]
        # the flank voltages of the row are fine ...
        eps = float(np.finfo(sig.dtype).eps)            # (differences are rounded to the dtype of the signal)
        ok_flanks = np.allclose(df['volt_rise'].to_numpy().astype(float), rise, rtol=eps, atol=0) and \
            np.allclose(df['volt_decay'].to_numpy().astype(float), decay, rtol=eps, atol=0)
        exp_amp = (rise + decay) / 2                     # ... their mean is finite and representable in the signal dtype
        representable = np.isfinite(exp_amp.astype(sig.dtype)).all()
        got = df['volt_amp'].to_numpy().astype(float)
        wrong = ~np.isclose(got, exp_amp, rtol=2e-3, atol=0)
        print('%s, %s-centred: rows=%d, flank voltages correct and finite: %s, mean representable: %s, volt_amp wrong in %d rows (inf in %d)'
              % (label, centre, len(df), ok_flanks, representable, wrong.sum(), np.isinf(got).sum()))
        if wrong.any():
            i = int(np.flatnonzero(wrong)[0])
            print('   e.g. row %d: volt_rise=%r volt_decay=%r volt_amp=%r expected %r' % (i, rise[i], decay[i], got[i], exp_amp[i]))
            bad += 1
sys.exit(1 if bad else 0)
