"""C04 cex 1 (strict reading of "exactly"): trough-centred time_rdsym / time_ptsym are not time_rise / period and
time_peak / (time_peak + time_trough) of the same row, but the float complement 1 - (other flank / period).

usage: python cex_1.py <path to source tree>      exit 1 = violation shows, 0 = not
"""
import sys, warnings
sys.path.insert(0, sys.argv[1] if len(sys.argv) > 1 else '.')
warnings.filterwarnings('ignore')
import numpy as np
from bycycle.features import compute_features, compute_shape_features

fs = 500
rng = np.random.default_rng(4)
t = np.arange(0, 10, 1 / fs)
# asymmetric (sawtooth-like) 10 Hz rhythm with slow frequency drift and a little noise
phase = 2 * np.pi * (10 * t + 0.6 * np.sin(2 * np.pi * 0.3 * t))
sig = np.sin(phase) + 0.35 * np.sin(2 * phase + 0.9) + 0.05 * rng.standard_normal(len(t))

bad = 0
for name, fn in (('compute_shape_features', lambda c: compute_shape_features(sig, fs, (8, 12), center_extrema=c)),
                 ('compute_features', lambda c: compute_features(sig, fs, (8, 12), center_extrema=c, threshold_kwargs={}))):
    for centre in ('peak', 'trough'):
        df = fn(centre)
        # independent recomputation from the row's own cyclepoints
        if centre == 'peak':
            C, L, N = (df[k].to_numpy() for k in ('sample_peak', 'sample_last_trough', 'sample_next_trough'))
            rise, period = C - L, N - L
            tpk = df['sample_zerox_decay'].to_numpy() - df['sample_zerox_rise'].to_numpy()
            ttr = df['sample_zerox_rise'].to_numpy() - df['sample_last_zerox_decay'].to_numpy()
        else:
            C, L, N = (df[k].to_numpy() for k in ('sample_trough', 'sample_last_peak', 'sample_next_peak'))
            rise, period = N - C, N - L
            tpk = df['sample_zerox_decay'].to_numpy() - df['sample_last_zerox_rise'].to_numpy()
            ttr = df['sample_zerox_rise'].to_numpy() - df['sample_zerox_decay'].to_numpy()
        assert (rise == df['time_rise'].to_numpy()).all() and (period == df['period'].to_numpy()).all()
        assert (tpk == df['time_peak'].to_numpy()).all() and (ttr == df['time_trough'].to_numpy()).all()
        exp_rd = rise / period
        exp_pt = tpk / (tpk + ttr)
        n_rd = int((df['time_rdsym'].to_numpy() != exp_rd).sum())
        n_pt = int((df['time_ptsym'].to_numpy() != exp_pt).sum())
        close = np.allclose(df['time_rdsym'], exp_rd, rtol=0, atol=1e-15) and np.allclose(df['time_ptsym'], exp_pt, rtol=0, atol=1e-15)
        print('%-22s %-6s rows=%d  time_rdsym != time_rise/period in %d rows, time_ptsym != time_peak/(time_peak+time_trough) in %d rows'
              ' (all within 1e-15: %s)' % (name, centre, len(df), n_rd, n_pt, close))
        if n_rd or n_pt:
            i = int(np.flatnonzero((df['time_rdsym'].to_numpy() != exp_rd) | (df['time_ptsym'].to_numpy() != exp_pt))[0])
            print('   e.g. row %d: time_rdsym=%r  time_rise/period=%d/%d=%r' % (i, df['time_rdsym'].iloc[i], rise[i], period[i], exp_rd[i]))
            bad += 1
sys.exit(1 if bad else 0)
