"""C17 counterexample 1: a cyclepoint set with ONE cyclepoint (one extremum, no partner).

find_extrema(first_extrema=None) on one full cycle of a sine returns one trough and no peak
(or one peak and no trough). The span "from the first to the last supplied cyclepoint" is that single
sample: the property demands phase == anchor value there (0 at a peak, +/-pi at a trough) and NaN
everywhere else. extrema_interpolated_phase raises StopIteration instead.

usage: python cex_1.py <path to source tree>     exit 1 = violation shows, 0 = fine
"""
import sys
import warnings
sys.path.insert(0, sys.argv[1] if len(sys.argv) > 1 else '.')
warnings.filterwarnings('ignore')
import numpy as np
from bycycle.cyclepoints import extrema_interpolated_phase, find_extrema


def expected(n, peaks, troughs):
    """Independent statement-level expectation for a single-cyclepoint set."""
    exp = np.full(n, np.nan)
    for p in peaks:
        exp[int(p)] = 0.0
    for t in troughs:
        exp[int(t)] = np.pi  # compared by absolute value (+/-pi)
    return exp


def violated(name, sig, peaks, troughs, rises=None, decays=None):
    exp = expected(len(sig), peaks, troughs)
    try:
        pha = np.asarray(extrema_interpolated_phase(sig, peaks, troughs, rises, decays), dtype=float)
    except BaseException as exc:  # StopIteration
        print('%s: peaks=%s troughs=%s -> raised %s(%s); expected NaN everywhere except the anchor value '
              'at the one cyclepoint' % (name, list(peaks), list(troughs), type(exc).__name__, exc))
        return True
    ok = pha.shape == exp.shape and np.array_equal(np.isnan(pha), np.isnan(exp)) \
        and np.allclose(np.abs(pha[~np.isnan(exp)]), np.abs(exp[~np.isnan(exp)]), atol=1e-12)
    if not ok:
        print('%s: got %s expected %s' % (name, pha, exp))
    return not ok


bad = False

# (a) produced by find_extrema on a generated signal: one full 10 Hz cycle at 500 Hz, phase 0.25 / 0.75
fs = 500
t = np.arange(50) / fs
for ph in (0.25, 0.75):
    sig = np.sin(2 * np.pi * (10 * t + ph))
    peaks, troughs = find_extrema(sig, fs, (8, 12), boundary=1, first_extrema=None,
                                  filter_kwargs={'n_cycles': 1})
    n_ext = len(peaks) + len(troughs)
    print('find_extrema(phase=%.2f): peaks=%s troughs=%s' % (ph, peaks, troughs))
    if n_ext == 1:
        bad |= violated('find_extrema one-cycle sine, phase %.2f' % ph, sig, peaks, troughs)

# (b) explicit placements on a short array (one cyclepoint; midpoint coinciding with the extremum)
e = np.array([], dtype=int)
bad |= violated('short array, one peak', np.zeros(6), np.array([3]), e)
bad |= violated('short array, one trough', np.zeros(6), e, np.array([2]))
bad |= violated('short array, peak with coinciding decay midpoint', np.zeros(6), np.array([3]), e, e, np.array([3]))

sys.exit(1 if bad else 0)
