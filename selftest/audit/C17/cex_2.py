"""C17 counterexample 2: the EMPTY cyclepoint set (find_extrema found nothing inside the boundary).

With no cyclepoint there is no span, so every sample is "outside the span": the property demands one
NaN per sample. extrema_interpolated_phase raises ValueError (np.interp on empty sample points).

usage: python cex_2.py <path to source tree>     exit 1 = violation shows, 0 = fine
"""
import sys
import warnings
sys.path.insert(0, sys.argv[1] if len(sys.argv) > 1 else '.')
warnings.filterwarnings('ignore')
import numpy as np
from bycycle.cyclepoints import extrema_interpolated_phase, find_extrema


def violated(name, sig, peaks, troughs):
    try:
        pha = np.asarray(extrema_interpolated_phase(sig, peaks, troughs), dtype=float)
    except BaseException as exc:
        print('%s: peaks=%s troughs=%s -> raised %s(%s); expected %d NaN'
              % (name, list(peaks), list(troughs), type(exc).__name__, exc, len(sig)))
        return True
    ok = pha.shape == (len(sig),) and np.all(np.isnan(pha))
    if not ok:
        print('%s: got %s, expected all NaN' % (name, pha))
    return not ok


bad = False
fs = 500
sig = np.sin(2 * np.pi * 10 * np.arange(50) / fs)
peaks, troughs = find_extrema(sig, fs, (8, 12), boundary=20, first_extrema=None, filter_kwargs={'n_cycles': 1})
print('find_extrema(boundary=20): peaks=%s troughs=%s' % (peaks, troughs))
if len(peaks) + len(troughs) == 0:
    bad |= violated('find_extrema, nothing inside the boundary', sig, peaks, troughs)
e = np.array([], dtype=int)
bad |= violated('short array, no cyclepoints', np.zeros(5), e, e)
sys.exit(1 if bad else 0)
