"""C02 counterexample 3: first_extrema trimming raises IndexError instead of returning equally many peaks and troughs.

After the boundary filter the code evaluates peaks[0] > troughs[0] and, after possibly deleting the first trough,
peaks[-1] > troughs[-1] without checking that anything is left.  Whenever the extrema that survive the boundary are
  (a) one trough followed by one peak (first_extrema='peak'; mirror image for 'trough'), or
  (b) a single extremum / none,
the correct answer (start with the requested kind, equally many of both) is a pair of EMPTY arrays; the library raises
IndexError.  first_extrema=None on the same input returns normally, so signal, filter and boundary are all accepted.

Expected values are recomputed independently (own FIR filter, half-wave runs, boundary rule, trimming); the signal is
a clean sine, where every reading of "half-wave window" gives the same extrema.

usage: python cex_3.py <source tree>;  exit 1 = violation shown, 0 = not shown
"""
import sys, warnings
sys.path.insert(0, sys.argv[1] if len(sys.argv) > 1 else '.')
warnings.filterwarnings('ignore')
import numpy as np
from scipy.signal import firwin
from bycycle.cyclepoints import find_extrema


def expected(sig, fs, f_range, boundary, first_extrema):
    flen = int(np.ceil(fs * 3 / f_range[0])); flen += (flen % 2 == 0)
    off = (flen + 1) // 2
    x = np.concatenate([np.zeros(off), sig, np.zeros(off)])
    filt = np.convolve(firwin(flen, f_range, pass_zero=False, fs=fs), x, 'same')
    pos = filt > 0
    cuts = np.flatnonzero(pos[1:] != pos[:-1]) + 1
    ext = []                                                    # (index, kind)
    for s, e in zip(np.r_[0, cuts], np.r_[cuts, len(x)]):
        if s == 0 or e == len(x):
            continue
        i = s + (np.argmax(x[s:e]) if pos[s] else np.argmin(x[s:e])) - off
        if boundary < i < len(sig) - boundary:
            ext.append((int(i), 'peak' if pos[s] else 'trough'))
    if first_extrema is not None:
        while ext and ext[0][1] != first_extrema:
            ext = ext[1:]
        if len(ext) % 2:
            ext = ext[:-1]
    return [i for i, k in ext if k == 'peak'], [i for i, k in ext if k == 'trough']


def main():
    fs, f_range = 500, (8, 12)
    shown = False
    cases = [
        # 2 s recording, only the middle is wanted
        dict(n=1000, phase=0.3, boundary=470),
        dict(n=1000, phase=0.3 + np.pi, boundary=470),
        dict(n=1000, phase=0.3, boundary=485),
        # short recording (0.5 s = five 10 Hz cycles, longer than the 189-sample filter), boundary of two periods
        dict(n=250, phase=0.3, boundary=100),
    ]
    for c in cases:
        t = np.arange(c['n']) / fs
        sig = np.sin(2 * np.pi * 10 * t + c['phase'])
        p0, t0 = find_extrema(sig, fs, f_range, boundary=c['boundary'], first_extrema=None)
        for fe in ('peak', 'trough'):
            ep, et = expected(sig, fs, f_range, c['boundary'], fe)
            try:
                p, tr = find_extrema(sig, fs, f_range, boundary=c['boundary'], first_extrema=fe)
                got = (p.tolist(), tr.tolist())
                ok = got == (ep, et)
            except IndexError as err:
                got, ok = 'IndexError: %s' % err, False
            print('n=%d phase=%.2f boundary=%d: survivors peaks %s troughs %s; first_extrema=%r expected %s got %s'
                  % (c['n'], c['phase'], c['boundary'], p0.tolist(), t0.tolist(), fe, (ep, et), got))
            shown |= not ok
    sys.exit(1 if shown else 0)


if __name__ == '__main__':
    main()
