"""C02 counterexample 4: filter_kwargs={'n_cycles': None} (the "not given" value written out) raises with pad=True.

neurodsp documents n_cycles=None / n_seconds=None as "not provided, defaults to 3 cycles", and find_extrema itself
accepts {'n_cycles': None} with pad=False and {'n_seconds': None} with either pad.  With pad=True (the default)
line 76-79 of extrema.py reads filter_kwargs.get('n_cycles', 3 ...), which returns the stored None rather than the
default, and compute_filter_length(..., n_cycles=None, n_seconds=None) raises ValueError.  No extrema are reported.

Expected: the same extrema as with filter_kwargs=None (3 cycles), recomputed independently on a clean sine.

usage: python cex_4.py <source tree>;  exit 1 = violation shown, 0 = not shown
"""
import sys, warnings
sys.path.insert(0, sys.argv[1] if len(sys.argv) > 1 else '.')
warnings.filterwarnings('ignore')
import numpy as np
from scipy.signal import firwin
from bycycle.cyclepoints import find_extrema


def expected(sig, fs, f_range, pad):
    flen = int(np.ceil(fs * 3 / f_range[0])); flen += (flen % 2 == 0)
    off = (flen + 1) // 2 if pad else 0
    x = np.concatenate([np.zeros(off), sig, np.zeros(off)])
    filt = np.convolve(firwin(flen, f_range, pass_zero=False, fs=fs), x, 'same')
    pos = filt > 0
    cuts = np.flatnonzero(pos[1:] != pos[:-1]) + 1
    peaks, troughs = [], []
    for s, e in zip(np.r_[0, cuts], np.r_[cuts, len(x)]):
        if s == 0 or e == len(x):
            continue
        i = s + (np.argmax(x[s:e]) if pos[s] else np.argmin(x[s:e])) - off
        if 0 < i < len(sig):
            (peaks if pos[s] else troughs).append(int(i))
    return peaks, troughs


def main():
    fs, f_range, n = 500, (8, 12), 2000
    sig = np.sin(2 * np.pi * 10 * np.arange(n) / fs + 0.3)
    shown = False
    for pad in (False, True):
        for fk in ({'n_seconds': None}, {'n_cycles': None}, {'n_cycles': None, 'n_seconds': None}):
            exp = expected(sig, fs, f_range, pad)
            try:
                p, t = find_extrema(sig, fs, f_range, first_extrema=None, filter_kwargs=dict(fk), pad=pad)
                ok = (p.tolist(), t.tolist()) == exp
                msg = '%d peaks, %d troughs, %s' % (len(p), len(t), 'as expected' if ok else 'DIFFERENT from expected')
            except Exception as err:
                ok, msg = False, '%s: %s' % (type(err).__name__, err)
            print('pad=%-5s filter_kwargs=%-40s -> %s' % (pad, fk, msg))
            shown |= not ok
    sys.exit(1 if shown else 0)


if __name__ == '__main__':
    main()
