"""C02 counterexample 2: the zero padding takes part in the argmax / argmin over the RAW signal.

With pad=True (default) the raw signal is padded with zeros and the arg-extremum of a half-wave that straddles the
first / last sample of the recording is searched over padding AND data.  For a signal riding on a DC offset
(here 2 + sin, values in [1, 3]) every padding sample (0) is lower than every real sample, so the minimum of a negative
half-wave that straddles the start is "found" in the padding, gets a negative index and is dropped: the half-wave is
closed by zero-crossings on both sides, its raw minimum lies at an index > boundary, and no trough is reported for it.
(negative offsets lose the edge peaks in the same way; unsigned-integer recordings always tie with the padding.)

Expected trough is computed under both readings of "the half-wave's sample window" (samples with filt<=0, or the
library's own [last_decay, next_rise) window), restricted to samples that exist in the raw signal.

usage: python cex_2.py <source tree>;  exit 1 = violation shown, 0 = not shown
"""
import sys, warnings
sys.path.insert(0, sys.argv[1] if len(sys.argv) > 1 else '.')
warnings.filterwarnings('ignore')
import numpy as np
from scipy.signal import firwin
from bycycle.cyclepoints import find_extrema


def main():
    fs, f_range, n = 500, (8, 12), 2000
    t = np.arange(n) / fs
    flen = int(np.ceil(fs * 3 / f_range[0])); flen += (flen % 2 == 0)
    off = (flen + 1) // 2
    coefs = firwin(flen, f_range, pass_zero=False, fs=fs)
    shown = False
    for offset, phase in ((2.0, 3.3), (2.0, 3.9), (0.5, 3.6), (-2.0, 3.3 + np.pi)):
        sig = offset + np.sin(2 * np.pi * 10 * t + phase)
        work = sig if offset > 0 else -sig        # for a negative offset look at the lost PEAK (mirror image)
        filt = np.convolve(coefs, np.concatenate([np.zeros(off), work, np.zeros(off)]), 'same')
        neg = filt <= 0
        cuts = np.flatnonzero(neg[1:] != neg[:-1]) + 1
        starts, ends = np.r_[0, cuts], np.r_[cuts, len(filt)]
        # the half-wave that straddles the first sample of the recording (padded index `off`)
        s, e = [(a, b) for a, b in zip(starts, ends) if a < off < b][0]
        if not (neg[s] and s > 0):
            print('offset %+g phase %.2f: straddling half-wave is not a closed negative one, skipped' % (offset, phase))
            continue
        cands = []
        for lo, hi in ((s, e), (s - 1, e - 1)):                 # strict window / library window, padded coordinates
            lo, hi = max(lo - off, 0), hi - off                # keep the samples that exist in the raw signal
            cands.append(lo + int(np.argmin(work[lo:hi])))
        peaks, troughs = find_extrema(sig, fs, f_range, boundary=0, first_extrema=None, pad=True)
        got = troughs if offset > 0 else peaks
        kind = 'trough' if offset > 0 else 'peak'
        print('offset %+g phase %.2f: the closed %s half-wave that straddles the start covers samples %d..%d of the recording; raw extreme at %s; '
              'first reported %s: %d' % (offset, phase, 'negative' if offset > 0 else 'positive', s - off, e - off - 1,
                                         sorted(set(cands)), kind, got[0]))
        if min(cands) > 0 and got[0] >= e - off:     # expected index > boundary=0, yet nothing reported in that half-wave
            print('   -> no %s reported for this half-wave (its extreme was "found" in the zero padding and dropped)' % kind)
            shown = True
    sys.exit(1 if shown else 0)


if __name__ == '__main__':
    main()
