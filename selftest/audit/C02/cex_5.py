"""C02 counterexample 5: a zeroed stretch yields a "trough" (and a "peak") that belong to no half-wave; -sig is not the mirror image.

Recordings with zeroed stretches (artefact blanking) are part of the quantifier.  Where the raw signal is exactly 0 for
longer than the filter, the band-passed signal is exactly 0.0 as well.  find_flank_zerox takes `sig <= 0` as "below":
  * positive half-wave -> run of exact zeros -> positive half-wave: the code sees a decay and a rise crossing and
    reports a TROUGH for the run of zeros, although the filtered signal has no negative sample between the two
    neighbouring peaks (there is no negative half-wave), and the trough index is a sample on which raw == 0 == all of
    its neighbours (not an extreme of anything);
  * the mirror image (-sig: negative -> zeros -> negative) reports NO extremum there: the two negative half-waves and
    the run of zeros are merged into one window and get one trough.
So peaks(sig) != troughs(-sig): under either reading of "half-wave closed by zero-crossings" (touching zero counts /
does not count) one of the two calls reports something that is not promised, or misses something that is.

Check made here (independent FIR filter): strictly between two consecutive reported peaks there must be at least one sample
with filt < 0 (otherwise the trough reported between them is not the trough of a negative half-wave), and the mirror test.

usage: python cex_5.py <source tree>;  exit 1 = violation shown, 0 = not shown
"""
import sys, warnings
sys.path.insert(0, sys.argv[1] if len(sys.argv) > 1 else '.')
warnings.filterwarnings('ignore')
import numpy as np
from scipy.signal import firwin
from bycycle.cyclepoints import find_extrema


def main():
    fs, f_range, n = 500, (8, 12), 3000
    t = np.arange(n) / fs
    flen = int(np.ceil(fs * 3 / f_range[0])); flen += (flen % 2 == 0)
    coefs = firwin(flen, f_range, pass_zero=False, fs=fs)
    shown = False
    for pad in (True, False):
        for phase in (1.0, 2.0, 3.0):
            sig = np.sin(2 * np.pi * 10 * t + phase)
            sig[1200:1700] = 0.0                         # one second of blanked samples
            off = (flen + 1) // 2 if pad else 0
            filt = np.convolve(coefs, np.concatenate([np.zeros(off), sig, np.zeros(off)]), 'same')[off:off + n]
            peaks, troughs = find_extrema(sig, fs, f_range, first_extrema=None, pad=pad)
            m_peaks, m_troughs = find_extrema(-sig, fs, f_range, first_extrema=None, pad=pad)
            ghosts = []
            for a, b in zip(peaks[:-1], peaks[1:]):
                between = [int(x) for x in troughs if a < x < b]
                if between and not (filt[a + 1:b] < 0).any():
                    ghosts.append((int(a), between, int(b)))
            mirror_ok = np.array_equal(peaks, m_troughs) and np.array_equal(troughs, m_peaks)
            print('pad=%s phase=%.1f: filt == 0 exactly on %d samples; troughs with no negative filtered sample between '
                  'the neighbouring peaks (peak, [trough], peak): %s; find_extrema(-sig) mirrors find_extrema(sig): %s'
                  % (pad, phase, int((filt == 0).sum()), ghosts, mirror_ok))
            if not mirror_ok:
                only = sorted(set(troughs.tolist()) - set(m_peaks.tolist())), sorted(set(peaks.tolist()) - set(m_troughs.tolist()))
                print('   troughs(sig) missing from peaks(-sig): %s   peaks(sig) missing from troughs(-sig): %s' % only)
            if ghosts or not mirror_ok:
                shown = True
    sys.exit(1 if shown else 0)


if __name__ == '__main__':
    main()
