"""C02 counterexample 1: the search window of find_extrema is shifted one sample to the left of the half-wave.

A positive half-wave of the band-passed signal is the maximal run of samples s..e with filt > 0 (filt[s-1] <= 0,
filt[e+1] <= 0).  find_extrema searches raw[s-1 : e] instead of raw[s : e+1]: it includes the last sample of the
preceding NEGATIVE half-wave and leaves out the last sample of the positive half-wave itself (that sample is given
to the following trough window).  On noisy signals the reported extremum is then not the raw maximum / minimum of
the half-wave; peaks get reported on samples where the filtered signal is <= 0, troughs where it is > 0.

usage: python cex_1.py <source tree>;  exit 1 = violation shown, 0 = not shown
"""
import sys, warnings
sys.path.insert(0, sys.argv[1] if len(sys.argv) > 1 else '.')
warnings.filterwarnings('ignore')
import numpy as np
from scipy.signal import firwin
from bycycle.cyclepoints import find_extrema


def bandpass(x, fs, f_range, n_cycles=3):
    """Independent copy of the narrowband FIR filter (hamming firwin, odd length, 'same' convolution)."""
    n = int(np.ceil(fs * n_cycles / f_range[0]))
    n += (n % 2 == 0)
    return np.convolve(firwin(n, f_range, pass_zero=False, fs=fs), x, 'same'), n


def expected(sig, fs, f_range, boundary, pad):
    sig = np.asarray(sig, dtype=float)
    off = 0
    x = sig
    if pad:
        _, flen = bandpass(np.zeros(10), fs, f_range)
        off = (flen + 1) // 2
        x = np.concatenate([np.zeros(off), sig, np.zeros(off)])
    filt, _ = bandpass(x, fs, f_range)
    pos = filt > 0
    cuts = np.flatnonzero(pos[1:] != pos[:-1]) + 1
    starts, ends = np.r_[0, cuts], np.r_[cuts, len(x)]
    peaks, troughs = [], []
    for s, e in zip(starts, ends):          # half-wave = samples s .. e-1, all of one sign
        if s == 0 or e == len(x):           # not closed by a zero-crossing on both sides
            continue
        seg = x[s:e]
        (peaks if pos[s] else troughs).append(s + (np.argmax(seg) if pos[s] else np.argmin(seg)) - off)
    keep = lambda a: np.array([i for i in a if boundary < i < len(sig) - boundary], dtype=int)
    return keep(peaks), keep(troughs), filt, off


def main():
    rng = np.random.default_rng(0)
    fs, f_range, n = 250, (8, 12), 5000
    t = np.arange(n) / fs
    sig = np.sin(2 * np.pi * 10 * t + 0.7) + rng.normal(0, 1.0, n)   # 10 Hz rhythm in white noise of equal size
    shown = False
    for pad in (True, False):
        for boundary in (0, 100):
            peaks, troughs = find_extrema(sig, fs, f_range, boundary=boundary, first_extrema=None, pad=pad)
            e_peaks, e_troughs, filt, off = expected(sig, fs, f_range, boundary, pad)
            bad_p = sorted(set(peaks.tolist()) ^ set(e_peaks.tolist()))
            bad_t = sorted(set(troughs.tolist()) ^ set(e_troughs.tolist()))
            # direct symptom: a peak sitting on a sample of a negative half-wave / a trough on a positive one
            p_on_neg = [int(i) for i in peaks if filt[i + off] <= 0]
            t_on_pos = [int(i) for i in troughs if filt[i + off] > 0]
            print('pad=%s boundary=%d: %d peaks, %d troughs; differing from the half-wave extremes: %d / %d; '
                  'peaks on samples with filt<=0: %s; troughs on samples with filt>0: %s'
                  % (pad, boundary, len(peaks), len(troughs), len(bad_p), len(bad_t), p_on_neg[:5], t_on_pos[:5]))
            for i in p_on_neg[:2]:
                print('   peak at %d: filt[%d]=%.3g (<=0), filt[%d]=%.3g' % (i, i, filt[i + off], i + 1, filt[i + 1 + off]))
            if bad_p or bad_t or p_on_neg or t_on_pos:
                shown = True
    sys.exit(1 if shown else 0)


if __name__ == '__main__':
    main()
