"""C09 counterexample 1.

Bycycle(return_samples=False): fit + recompute_edges breaks the peak/trough mirror.

A peak-centred table WITHOUT sample columns is taken for a trough-centred one by
compute_amp_consistency (bycycle/features/burst.py:180, "if 'sample_peak' in columns ... else"),
which recompute_edge (bycycle/burst/utils.py:158-159) calls on the three rows around every
burst edge.  The neighbouring flanks are then paired the trough-centred way
(rise[c-1] with decay[c], rise[c] with decay[c+1]) although the table is peak-centred
(correct: rise[c] with decay[c-1], rise[c+1] with decay[c]).  The trough-centred table of the
same signal is handled correctly, so after recompute_edges the two analyses are no longer mirror
images: amp_consistency differs at burst edges and is_burst differs.

usage: python cex_1.py <path to source tree>      exit 1 = violation shows, 0 = not
"""
import sys
import warnings

sys.path.insert(0, sys.argv[1] if len(sys.argv) > 1 else '.')
warnings.filterwarnings('ignore')

import numpy as np
from bycycle import Bycycle
from bycycle.features import compute_features

FS = 500
F_RANGE = (8, 12)
THRESH = {'amp_fraction_threshold': .3, 'amp_consistency_threshold': .6,
          'period_consistency_threshold': .6, 'monotonicity_threshold': .7, 'min_n_cycles': 3}
REDUCTION = .2

SWAP = {'time_peak': 'time_trough', 'time_trough': 'time_peak',
        'volt_peak': 'volt_trough', 'volt_trough': 'volt_peak',
        'time_rise': 'time_decay', 'time_decay': 'time_rise',
        'volt_rise': 'volt_decay', 'volt_decay': 'volt_rise'}


def make_signal():
    rng = np.random.default_rng(22)
    n = 10 * FS
    t = np.arange(n) / FS
    env = (np.sin(2 * np.pi * .4 * t + rng.uniform(0, 6)) > -.2).astype(float)
    return (env * np.sin(2 * np.pi * 10 * t)
            + .5 * np.cumsum(rng.standard_normal(n)) / np.sqrt(FS)
            + .15 * rng.standard_normal(n))


def mirror(df_peak):
    """Peak-centred table of -sig  ->  the trough-centred table the statement promises."""
    d = df_peak.rename(columns=SWAP).copy()
    d['volt_peak'] = -d['volt_peak']
    d['volt_trough'] = -d['volt_trough']
    d['time_rdsym'] = 1 - d['time_rdsym']
    d['time_ptsym'] = 1 - d['time_ptsym']
    return d


def ratio(a, b):
    with np.errstate(invalid='ignore', divide='ignore'):
        return min(a, b) / max(a, b)


def reference_edge_consistency(x, fs):
    """Edge amp consistencies of the PEAK-centred analysis of x, straight from the signal.

    Uses the cyclepoints of a run WITH sample columns (same options) and the voltages of x only.
    Returns {cycle index: expected amp_consistency after recompute_edges}.
    """
    df = compute_features(x, fs, F_RANGE, center_extrema='peak', threshold_kwargs=dict(THRESH))
    pk = df['sample_peak'].to_numpy()
    lt = df['sample_last_trough'].to_numpy()
    nt = df['sample_next_trough'].to_numpy()
    rise = x[pk] - x[lt]     # flank before the peak of cycle c
    decay = x[pk] - x[nt]    # flank after the peak of cycle c; the flank after that is rise[c+1]
    burst = df['is_burst'].to_numpy()
    expected = {}
    for c in range(1, len(df) - 1):
        if not burst[c] and burst[c + 1]:      # cycle in front of a burst: look forward only
            expected[c] = max(0, min(ratio(rise[c], decay[c]), ratio(rise[c + 1], decay[c])))
        if not burst[c] and burst[c - 1]:      # cycle behind a burst: look backward only
            expected[c] = max(0, min(ratio(rise[c], decay[c]), ratio(rise[c], decay[c - 1])))
    return expected


def main():
    sig = make_signal()

    bm_t = Bycycle(center_extrema='trough', thresholds=dict(THRESH), return_samples=False)
    bm_t.fit(sig, FS, F_RANGE)
    bm_p = Bycycle(center_extrema='peak', thresholds=dict(THRESH), return_samples=False)
    bm_p.fit(-sig, FS, F_RANGE)

    # sanity: the mirror holds right after fit
    dm = mirror(bm_p.df_features)
    fit_ok = all(np.array_equal(bm_t.df_features[c].to_numpy(), dm[c].to_numpy(), equal_nan=True)
                 for c in bm_t.df_features.columns)
    print('mirror holds after fit (return_samples=False):', fit_ok)

    bm_t.recompute_edges(REDUCTION)
    bm_p.recompute_edges(REDUCTION)

    df_t = bm_t.df_features
    df_m = mirror(bm_p.df_features)

    bad_cols = [c for c in df_t.columns
                if not np.array_equal(df_t[c].to_numpy(), df_m[c].to_numpy(), equal_nan=True)]
    print('columns that differ after recompute_edges:', bad_cols)

    a_t = df_t['amp_consistency'].to_numpy()
    a_m = df_m['amp_consistency'].to_numpy()
    rows = np.where(~((a_t == a_m) | (np.isnan(a_t) & np.isnan(a_m))))[0]
    for r in rows:
        print('  cycle %d: amp_consistency trough-centred(sig) = %.6f, peak-centred(-sig) = %.6f'
              % (r, a_t[r], a_m[r]))
    lab = np.where(df_t['is_burst'].to_numpy() != df_m['is_burst'].to_numpy())[0]
    for r in lab:
        print('  cycle %d: is_burst trough-centred(sig) = %s, peak-centred(-sig) = %s'
              % (r, df_t['is_burst'].iloc[r], df_m['is_burst'].iloc[r]))

    # which side is wrong?  independent recomputation from the signal
    ref = reference_edge_consistency(-sig, FS)
    wrong_p = [c for c, v in ref.items() if not np.isclose(bm_p.df_features['amp_consistency'].iloc[c], v)]
    wrong_t = [c for c, v in ref.items() if not np.isclose(df_t['amp_consistency'].iloc[c], v)]
    print('edge cycles where the peak-centred table disagrees with the definition  :', wrong_p)
    print('edge cycles where the trough-centred table disagrees with the definition:', wrong_t)

    violated = bool(bad_cols)
    print('VIOLATION' if violated else 'no violation')
    return 1 if violated else 0


if __name__ == '__main__':
    sys.exit(main())
