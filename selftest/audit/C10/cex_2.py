"""C10 counterexample 2: burst_kwargs={'min_burst_duration': seconds} makes the table depend on fs
itself, not only on fs / f_range.

Clause: "Multiplying fs and both band edges by the same constant (same samples, filter length given
in cycles) leaves the entire table unchanged, i.e. all time features ... depend on fs and f_range only
through their ratio."  The statement exempts only the filter length; `min_burst_duration` is a
documented option of burst_method='amp' (bycycle/features/burst.py:35, :339) and is converted with
int(ceil(min_burst_duration * fs)) - an absolute fs - in neurodsp's detect_bursts_dual_threshold,
reached through bycycle/features/burst.py:374-380 (min_n_cycles is set to None there).

The expected table is recomputed independently: the same call with the duration written in cycles
of the lower band edge (min_n_cycles = min_burst_duration * f_lo), which is the ratio-only form.

exit 1: violation shows, exit 0: no violation.
"""
# ---- helpers (inlined so that the script is stand-alone) ----
import sys
import warnings

import numpy as np

VOLT = ['volt_decay', 'volt_rise', 'volt_amp', 'volt_peak', 'volt_trough', 'band_amp']


def setup():
    if len(sys.argv) < 2:
        print('usage: python %s <path to source tree>' % sys.argv[0])
        sys.exit(2)
    sys.path.insert(0, sys.argv[1])
    warnings.simplefilter('ignore')


def make_signal(n_seconds, fs, freq, seed=0):
    """Bursty, frequency-modulated oscillation on a random walk plus white noise (float64)."""
    rng = np.random.RandomState(seed)
    t = np.arange(int(n_seconds * fs)) / fs
    env = (np.sin(2 * np.pi * 0.4 * t) > -0.3).astype(float)
    osc = env * np.sin(2 * np.pi * freq * t + 0.5 * np.sin(2 * np.pi * 1.3 * t))
    return osc + 0.4 * np.cumsum(rng.randn(len(t))) / np.sqrt(fs) + 0.1 * rng.randn(len(t))


def differing_columns(df0, df1, a=1.0):
    """Columns of df1 that are not (a * df0) for voltage columns / df0 for all other columns."""
    if list(df0.columns) != list(df1.columns) or len(df0) != len(df1):
        return ['<shape/columns: %d vs %d rows>' % (len(df0), len(df1))]
    bad = []
    for col in df0.columns:
        x0 = np.asarray(df0[col].to_numpy(), dtype=float)
        x1 = np.asarray(df1[col].to_numpy(), dtype=float)
        exp = x0 * a if col in VOLT else x0
        if not np.array_equal(exp, x1, equal_nan=True):
            bad.append(col)
    return bad

# ---- end helpers ----
setup()

from bycycle.features import compute_features

fs, f_range = 512., (8., 12.)
sig = make_signal(6, fs, 10.)
dur = 0.375                                   # seconds; 0.375 s * 8 Hz = 3 cycles of f_lo, 192 samples
bk_sec = {'min_burst_duration': dur, 'amp_threshes': (0.5, 1.0)}
bk_cyc = {'min_n_cycles': dur * f_range[0], 'amp_threshes': (0.5, 1.0)}
tk = {'burst_fraction_threshold': 0.8}

df0 = compute_features(sig, fs, f_range, burst_method='amp', burst_kwargs=bk_sec, threshold_kwargs=tk)
ref = compute_features(sig, fs, f_range, burst_method='amp', burst_kwargs=bk_cyc, threshold_kwargs=dict(tk, min_n_cycles=3))
# the two spellings agree at the original fs (so the seconds option is understood correctly)
print('seconds vs cycles spelling at fs=%g: differing columns %s' % (fs, differing_columns(ref, df0)))

violated = False
for c in (4.0, 0.25):
    fs_c, f_c = c * fs, (c * f_range[0], c * f_range[1])
    df1 = compute_features(sig, fs_c, f_c, burst_method='amp', burst_kwargs=bk_sec, threshold_kwargs=tk)
    ref1 = compute_features(sig, fs_c, f_c, burst_method='amp',
                            burst_kwargs={'min_n_cycles': dur * f_range[0], 'amp_threshes': (0.5, 1.0)},
                            threshold_kwargs=dict(tk, min_n_cycles=3))
    bad = differing_columns(df0, df1)
    print('c=%g: fs=%g f_range=%s: columns differing from the unscaled table: %s' % (c, fs_c, f_c, bad))
    print('      bursting cycles %d -> %d, sum(burst_fraction) %.3f -> %.3f; ratio-only spelling differs in %s'
          % (df0['is_burst'].sum(), df1['is_burst'].sum(), df0['burst_fraction'].sum(),
             df1['burst_fraction'].sum(), differing_columns(df0, ref1)))
    violated = violated or bool(bad)

sys.exit(1 if violated else 0)
