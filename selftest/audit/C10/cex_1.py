"""C10 counterexample 1: (sig, c*fs, c*f_range) raises although (sig, fs, f_range) works.

Clause: "Multiplying fs and both band edges by the same constant (same samples, filter length given
in cycles) leaves the entire table unchanged".

The FIR design only sees fs/f ratios (checked below: identical coefficients), but the filter *check*
that runs inside every filter_signal / amp_by_time call evaluates the frequency response on
int(2 * fs) points, i.e. on an absolute 0.25 Hz grid (neurodsp.filt.utils.compute_frequency_response).
For small fs the grid has no point inside the transition band and compute_transition_band raises
ValueError('Invalid transition band. Redefine f_range.'); for fs < 0.5 the grid is empty and np.min
raises.  The call sites are bycycle/cyclepoints/extrema.py:85 and bycycle/features/shape.py:326.

exit 1: violation shows, exit 0: no violation.
"""
# ---- helpers (inlined so that the script is stand-alone) ----
import sys
import warnings

import numpy as np

VOLT = ['volt_decay', 'volt_rise', 'volt_amp', 'volt_peak', 'volt_trough', 'band_amp']


def setup():
    if len(sys.argv) < 2:
        print('usage: python %s <path to source tree>' % sys.argv[0])
        sys.exit(2)
    sys.path.insert(0, sys.argv[1])
    warnings.simplefilter('ignore')


def make_signal(n_seconds, fs, freq, seed=0):
    """Bursty, frequency-modulated oscillation on a random walk plus white noise (float64)."""
    rng = np.random.RandomState(seed)
    t = np.arange(int(n_seconds * fs)) / fs
    env = (np.sin(2 * np.pi * 0.4 * t) > -0.3).astype(float)
    osc = env * np.sin(2 * np.pi * freq * t + 0.5 * np.sin(2 * np.pi * 1.3 * t))
    return osc + 0.4 * np.cumsum(rng.randn(len(t))) / np.sqrt(fs) + 0.1 * rng.randn(len(t))


def differing_columns(df0, df1, a=1.0):
    """Columns of df1 that are not (a * df0) for voltage columns / df0 for all other columns."""
    if list(df0.columns) != list(df1.columns) or len(df0) != len(df1):
        return ['<shape/columns: %d vs %d rows>' % (len(df0), len(df1))]
    bad = []
    for col in df0.columns:
        x0 = np.asarray(df0[col].to_numpy(), dtype=float)
        x1 = np.asarray(df1[col].to_numpy(), dtype=float)
        exp = x0 * a if col in VOLT else x0
        if not np.array_equal(exp, x1, equal_nan=True):
            bad.append(col)
    return bad

# ---- end helpers ----
setup()

import numpy as np
from scipy.signal import firwin
from neurodsp.filt.fir import compute_filter_length
from bycycle.features import compute_features

CASES = [
    # fs, f_range, oscillation frequency, c (power of two)
    (1600., (12.8, 25.6), 18., 2.0 ** -5),   # -> fs = 50 Hz, band 0.4-0.8 Hz (e.g. a slow rhythm at 50 Hz)
    (512., (8., 12.), 10., 2.0 ** -6),       # -> fs = 8 Hz, band 0.125-0.1875 Hz
    (512., (8., 12.), 10., 2.0 ** -11),      # -> fs = 0.25 Hz (one sample every 4 s)
    (512., (8., 12.), 10., 2.0 ** -3),       # -> fs = 64 Hz: control, must be equal
]

violated = False
for fs, f_range, freq, c in CASES:
    sig = make_signal(8, fs, freq)
    kwargs = dict(threshold_kwargs={'min_n_cycles': 3})
    df0 = compute_features(sig, fs, f_range, **kwargs)
    fs_c, f_c = c * fs, (c * f_range[0], c * f_range[1])

    # independent check that the two problems are the same problem in samples:
    # same filter length and bit-identical FIR coefficients
    n0 = compute_filter_length(fs, 'bandpass', f_range[0], f_range[1], n_cycles=3)
    n1 = compute_filter_length(fs_c, 'bandpass', f_c[0], f_c[1], n_cycles=3)
    same_filter = n0 == n1 and np.array_equal(firwin(n0, f_range, pass_zero=False, fs=fs),
                                              firwin(n1, f_c, pass_zero=False, fs=fs_c))
    assert same_filter, 'scaling is not exact - the case is not a valid instance'
    assert fs_c / 2 > f_c[1] and len(sig) > n1

    try:
        df1 = compute_features(sig, fs_c, f_c, **kwargs)
        bad = differing_columns(df0, df1)
        status = 'table differs in %s' % bad if bad else 'equal'
    except Exception as exc:  # the table does not exist at all
        bad = True
        status = 'RAISES %s: %s' % (type(exc).__name__, exc)
    print('fs=%g f_range=%s (%d cycles)  ->  c=2**%d: fs=%g f_range=%s : %s'
          % (fs, f_range, len(df0), int(np.log2(c)), fs_c, f_c, status))
    violated = violated or bool(bad)

sys.exit(1 if violated else 0)
