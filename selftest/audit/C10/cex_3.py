"""C10 counterexample 3: half-precision (float16) signals - amplitude covariance fails.

Clause: "Multiplying the signal by a positive constant leaves every sample index, duration, symmetry,
... amplitude-fraction and burst label unchanged and multiplies every voltage feature ... by that
constant."

All samples of `sig` are finite float16 numbers and a = 0.5 is applied exactly (checked below), so
scaling commutes with every *value*.  But the library computes in the dtype of the signal:
  * bycycle/cyclepoints/zerox.py:127,137  midpoint = (sig_temp[0] + sig_temp[-1]) / 2.
    -> the sum overflows float16 (max 65504) to inf whenever trough + peak > 65504; then no sample
       crosses the "midpoint" and the dummy len/2 position is returned for the zero-crossing;
  * bycycle/features/shape.py:269         volt_amp = (volt_decay + volt_rise) / 2
    -> inf whenever rise + decay > 65504, which also ties the amp_fraction ranks.
With 0.5 * sig nothing overflows, so sample_zerox_*, time_peak/time_trough, time_ptsym, volt_amp and
amp_fraction are not the scaled/unchanged values of the original table.  (The earlier repair for
integer-typed signals - "analysed in floating point" - has no counterpart for float16.)

Independent reference: the same values held in float64.

exit 1: violation shows, exit 0: no violation.
"""
# ---- helpers (inlined so that the script is stand-alone) ----
import sys
import warnings

import numpy as np

VOLT = ['volt_decay', 'volt_rise', 'volt_amp', 'volt_peak', 'volt_trough', 'band_amp']


def setup():
    if len(sys.argv) < 2:
        print('usage: python %s <path to source tree>' % sys.argv[0])
        sys.exit(2)
    sys.path.insert(0, sys.argv[1])
    warnings.simplefilter('ignore')


def make_signal(n_seconds, fs, freq, seed=0):
    """Bursty, frequency-modulated oscillation on a random walk plus white noise (float64)."""
    rng = np.random.RandomState(seed)
    t = np.arange(int(n_seconds * fs)) / fs
    env = (np.sin(2 * np.pi * 0.4 * t) > -0.3).astype(float)
    osc = env * np.sin(2 * np.pi * freq * t + 0.5 * np.sin(2 * np.pi * 1.3 * t))
    return osc + 0.4 * np.cumsum(rng.randn(len(t))) / np.sqrt(fs) + 0.1 * rng.randn(len(t))


def differing_columns(df0, df1, a=1.0):
    """Columns of df1 that are not (a * df0) for voltage columns / df0 for all other columns."""
    if list(df0.columns) != list(df1.columns) or len(df0) != len(df1):
        return ['<shape/columns: %d vs %d rows>' % (len(df0), len(df1))]
    bad = []
    for col in df0.columns:
        x0 = np.asarray(df0[col].to_numpy(), dtype=float)
        x1 = np.asarray(df1[col].to_numpy(), dtype=float)
        exp = x0 * a if col in VOLT else x0
        if not np.array_equal(exp, x1, equal_nan=True):
            bad.append(col)
    return bad

# ---- end helpers ----
setup()

from bycycle.features import compute_features

fs, f_range = 512., (8., 12.)
base = make_signal(6, fs, 10.)
sig16 = (20000. * base + 30000.).astype(np.float16)       # e.g. raw converter counts with an offset
a = np.float16(0.5)
sig16_a = a * sig16

# validity of the instance: finite input, exact scaling, same dtype
assert sig16.dtype == np.float16 and sig16_a.dtype == np.float16
assert np.isfinite(sig16).all() and np.isfinite(sig16_a).all()
assert np.array_equal(sig16_a.astype(float), 0.5 * sig16.astype(float))
print('float16 signal: min %.0f max %.0f (float16 max is %.0f)' % (sig16.min(), sig16.max(), np.finfo(np.float16).max))

violated = False
for center in ('peak', 'trough'):
    kwargs = dict(center_extrema=center, threshold_kwargs={'amp_fraction_threshold': 0.3, 'min_n_cycles': 3})
    df0 = compute_features(sig16, fs, f_range, **kwargs)
    df1 = compute_features(sig16_a, fs, f_range, **kwargs)
    bad = differing_columns(df0, df1, a=0.5)
    # reference in float64 on the very same sample values
    r0 = compute_features(sig16.astype(float), fs, f_range, **kwargs)
    r1 = compute_features(sig16_a.astype(float), fs, f_range, **kwargs)
    print('%s-centred: columns violating covariance for float16: %s' % (center, bad))
    print('   float64 copy of the same values: violating columns %s' % differing_columns(r0, r1, a=0.5))
    print('   float16 table vs float64 table of the unscaled signal differs in %s' % differing_columns(r0, df0))
    print('   non-finite volt_amp: float16 %d of %d cycles, float64 %d'
          % ((~np.isfinite(df0['volt_amp'].to_numpy(dtype=float))).sum(), len(df0),
             (~np.isfinite(r0['volt_amp'].to_numpy(dtype=float))).sum()))
    violated = violated or bool(bad)

sys.exit(1 if violated else 0)
