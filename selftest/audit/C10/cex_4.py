"""C10 counterexample 4 (resource form of counterexample 1): the cost of compute_features grows
linearly with the absolute value of fs although the problem in samples is identical.

Same root cause as cex_1: every filter_signal / amp_by_time call (bycycle/cyclepoints/extrema.py:85,
bycycle/features/shape.py:326, and the 'amp' burst path) evaluates the filter response on int(2 * fs)
frequencies.  For a 3072-sample signal the table is the same for every c, but the call needs
~16 bytes * 2 * fs * (several temporaries): measured 0.02 s / 0.16 GB at fs = 512 Hz, 7 s / 1.1 GB at
fs = 8.4 MHz, 26 s / 3.8 GB at fs = 33.5 MHz.  At fs = 268 MHz (c = 2**19; band 4.2-6.3 MHz) arrays of
int(2 * fs) doubles (4.3 GB) and 2 * int(2 * fs) doubles (8.6 GB) are requested one after the other.

To keep the demonstration fast, deterministic and harmless, the child process runs under an address
space limit of 4 GiB (resource.RLIMIT_AS): the unscaled call and a moderately scaled call succeed and
agree, the call at c = 2**19 dies with MemoryError, i.e. the table is not "unchanged" on any machine
with less than ~30 GB of free memory (and takes minutes on one that has them).

exit 1: violation shows, exit 0: no violation (exit 0 also if RLIMIT_AS cannot be set).
"""
import subprocess
import sys

CHILD = r'''
import resource, sys, warnings
try:
    resource.setrlimit(resource.RLIMIT_AS, (4 * 2**30, 4 * 2**30))
except Exception as exc:
    print('cannot set RLIMIT_AS: %s' % exc); sys.exit(0)
sys.path.insert(0, sys.argv[1])
warnings.simplefilter('ignore')
import numpy as np
from bycycle.features import compute_features

fs, f_range = 512., (8., 12.)
rng = np.random.RandomState(0)
t = np.arange(int(6 * fs)) / fs
sig = (np.sin(2 * np.pi * 0.4 * t) > -0.3) * np.sin(2 * np.pi * 10 * t) \
    + 0.4 * np.cumsum(rng.randn(len(t))) / np.sqrt(fs) + 0.1 * rng.randn(len(t))

def same(df0, df1):
    return list(df0.columns) == list(df1.columns) and len(df0) == len(df1) and all(
        np.array_equal(np.asarray(df0[c], dtype=float), np.asarray(df1[c], dtype=float), equal_nan=True)
        for c in df0.columns)

df0 = compute_features(sig, fs, f_range, threshold_kwargs={})
violated = False
for k in (10, 19):
    c = 2.0 ** k
    try:
        df1 = compute_features(sig, c * fs, (c * f_range[0], c * f_range[1]), threshold_kwargs={})
        ok = same(df0, df1)
        print('c=2**%d fs=%g: table %s' % (k, c * fs, 'equal' if ok else 'DIFFERS'))
        violated = violated or not ok
    except MemoryError as exc:
        print('c=2**%d fs=%g: MemoryError: %s' % (k, c * fs, exc))
        violated = True
sys.exit(1 if violated else 0)
'''

if len(sys.argv) < 2:
    print('usage: python %s <path to source tree>' % sys.argv[0])
    sys.exit(2)
proc = subprocess.run([sys.executable, '-c', CHILD, sys.argv[1]])
sys.exit(1 if proc.returncode == 1 else 0)
