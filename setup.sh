#!/bin/bash
# Offline setup: verify the toolchain and parse every specification module with SANY.
set -e
cd "$(dirname "$0")"
mkdir -p evidence out
command -v tlc >/dev/null || { echo "tlc not on PATH"; exit 1; }
/venv/bin/python -c "import numpy, pandas, neurodsp, matplotlib" 
S=$(mktemp -d); trap 'rm -rf "$S"' EXIT
cp spec/*.tla "$S"/ 2>/dev/null || true
# proof modules EXTEND TLAPS: make the proof system's standard module visible to SANY when it is installed
[ -f /opt/veriftools/tlapm/lib/tlapm/stdlib/TLAPS.tla ] && cp /opt/veriftools/tlapm/lib/tlapm/stdlib/TLAPS.tla /opt/veriftools/tlapm/lib/tlapm/stdlib/NaturalsInduction.tla "$S"/ || rm -f "$S"/*Proof.tla
fail=0
for f in "$S"/*.tla; do
  [ -e "$f" ] || continue
  ( cd "$S" && JAVA_TOOL_OPTIONS="-Djava.io.tmpdir=$S" java -cp /opt/veriftools/tla/tla2tools.jar:/opt/veriftools/tla/CommunityModules-deps.jar tla2sany.SANY "$(basename "$f")" >"$f.log" 2>&1 ) || { echo "SANY failed: $(basename "$f")"; tail -5 "$f.log"; fail=1; }
  grep -q "Semantic errors\|Parse Error\|Fatal errors" "$f.log" && { echo "SANY errors: $(basename "$f")"; grep -A5 "errors" "$f.log" | head -20; fail=1; }
done
[ $fail = 0 ] && echo "setup ok"
exit $fail
