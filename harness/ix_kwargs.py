"""Probes of the real entry points for MC_Kwargs (C19): outcome 0 = returned, 1 = ValueError, 2 = any other exception."""
import copy
import warnings

import numpy as np

AXIS = {'0': 0, '1': 1, '01': (0, 1), 'None': None, '2': 2, '10': (1, 0), 'x': 'x'}


def base_sig(seed=0, n=256, fs=64):
    rng = np.random.default_rng(seed)
    t = np.arange(n) / fs
    x = np.sin(2 * np.pi * 10 * t + seed) * (1 + 0.5 * np.sin(2 * np.pi * 0.7 * t)) + 0.2 * rng.standard_normal(n)
    return np.round(x * 256) / 256


def outcome(fn):
    """0 = returns, 1 = ValueError, 2 = another exception.  Entry points that start a process pool are guarded: a pool that does not come back
    (a forked worker lost) is terminated and the probe repeated once - a machinery matter, never an outcome."""
    import multiprocessing
    import pool_tv
    for attempt in (0, 1):
        try:
            with warnings.catch_warnings():
                warnings.simplefilter('ignore')
                with pool_tv.time_limit(150):
                    fn()
            return 0
        except pool_tv.PoolTimeout:
            for ch in multiprocessing.active_children():
                ch.terminate()
            if attempt:
                raise
        except ValueError:
            return 1
        except Exception:
            return 2


def list_of(ls):
    if ls == ():
        return None
    if ls == (0,):
        return {'threshold_kwargs': {'min_n_cycles': 2}}
    d = lambda: {'threshold_kwargs': {'min_n_cycles': 2}}
    if ls[0] == 1:
        return [d() for _ in range(ls[1])]
    if ls[0] == 2:
        return [[d() for _ in range(ls[2])] for _ in range(ls[1])]
    return [[[d() for _ in range(ls[3])] for _ in range(ls[2])] for _ in range(ls[1])]


def ls_key(ls):
    if ls == ():
        return 'N'
    if ls == (0,):
        return 'D'
    return '%dd' % ls[0] + ''.join('x%d' % v for v in ls[1:])


def shape_table(max_ext):
    from bycycle.group import compute_features_2d, compute_features_3d
    from bycycle.group.utils import check_kwargs_shape
    from bycycle import BycycleGroup
    fs, fr = 64, (8, 12)
    ext = range(1, max_ext + 1)
    shapes = [(), (0,)] + [(1, a) for a in ext] + [(2, a, b) for a in ext for b in ext] + [(3, 1, 1, 1), (3, 2, 2, 2)]
    out = {}
    n_accept = 0
    for ndim in (2, 3):
        for n0 in ext:
            for n1 in (ext if ndim == 3 else [0]):
                if ndim == 2:
                    sigs = np.array([base_sig(i) for i in range(n0)])
                else:
                    sigs = np.array([[base_sig(10 * i + j) for j in range(n1)] for i in range(n0)])
                for ak, av in AXIS.items():
                    for ls in shapes:
                        kw = list_of(ls)
                        arr = np.array(kw) if isinstance(kw, list) else kw
                        o1 = outcome(lambda: check_kwargs_shape(sigs, arr, av))
                        f = compute_features_2d if ndim == 2 else compute_features_3d
                        o2 = outcome(lambda: f(sigs, fs, fr, compute_features_kwargs=copy.deepcopy(kw), axis=av, n_jobs=1))
                        o3 = o2
                        if ls == (0,):
                            def grp():
                                g = BycycleGroup(thresholds={'min_n_cycles': 2})
                                g.fit(sigs, fs, fr, axis=av, n_jobs=1)
                            o3 = outcome(grp)
                        n_accept += o2 == 0
                        out['%d:%d:%d:%s:%s' % (ndim, n0, n1, ak, ls_key(ls))] = [o1, o2, o3]
    # beyond the small extents (MC_Kwargs.BigArrays / BigLists): more than 2^8 signals along one axis
    for ndim, n0, n1 in [(2, 257, 0), (2, 300, 0), (3, 257, 1), (3, 1, 300)]:
        short = base_sig(1, n=96)
        sigs = np.array([np.roll(short, i) for i in range(n0)]) if ndim == 2 else np.array([[np.roll(short, 7 * i + j) for j in range(n1)] for i in range(n0)])
        b, c = max(n0, n1), max(n1, 1)
        for ak, av in AXIS.items():
            for ls in [(), (0,), (1, b), (1, b - 1), (1, 1), (2, n0, c), (2, c, n0)]:
                kw = list_of(ls)
                arr = np.array(kw) if isinstance(kw, list) else kw
                o1 = outcome(lambda: check_kwargs_shape(sigs, arr, av))
                f = compute_features_2d if ndim == 2 else compute_features_3d
                o2 = outcome(lambda: f(sigs, fs, fr, compute_features_kwargs=copy.deepcopy(kw), axis=av, n_jobs=4))
                n_accept += o2 == 0
                out['%d:%d:%d:%s:%s' % (ndim, n0, n1, ak, ls_key(ls))] = [o1, o2, o2]
    return out, n_accept


def with_odd_unknowns(triples):
    """(pos, value) pairs of an enumerated option + unknown values of other shapes: falsy ones are not "no value", names are case-sensitive."""
    valid = [v for p_, v in triples if p_.startswith('valid') and isinstance(v, str)]
    name = valid[0] if valid else 'x'
    return tuple(triples) + (('unknown_empty', ''), ('unknown_zero', 0), ('unknown_false', False), ('unknown_capitalised', name.capitalize() + ('' if name.capitalize() != name else '_')),
                             ('unknown_bytes', name.encode()))


def param_probes():
    from bycycle.features import (compute_features, compute_shape_features, compute_cyclepoints, compute_burst_features)
    from bycycle.features.burst import (compute_burst_fraction, compute_amp_consistency, compute_period_consistency)
    from bycycle.cyclepoints import find_extrema
    from bycycle.burst import detect_bursts_cycles, detect_bursts_amp
    from bycycle.burst.utils import check_min_burst_cycles, recompute_edges, recompute_edge
    from bycycle.group import compute_features_2d
    from bycycle.group.utils import progress_bar
    from bycycle import Bycycle, BycycleGroup
    fs, fr = 64, (8, 12)
    sig = base_sig(3, n=320)
    thr = {'amp_fraction_threshold': 0.1, 'amp_consistency_threshold': 0.3, 'period_consistency_threshold': 0.3, 'monotonicity_threshold': 0.4, 'min_n_cycles': 2}
    with warnings.catch_warnings():
        warnings.simplefilter('ignore')
        df_c = compute_features(sig, fs, fr, threshold_kwargs=dict(thr))
        df_a = compute_features(sig, fs, fr, burst_method='amp', threshold_kwargs={'burst_fraction_threshold': .5, 'min_n_cycles': 2}, burst_kwargs={})
        df_s = compute_shape_features(sig, fs, fr)
    P = []

    def add(kind, name, entry, pos, fn):
        P.append({'kind': kind, 'name': name, 'entry': entry, 'pos': pos, 'outcome': outcome(fn)})

    for pos, v in (('negative', -64), ('zero', 0), ('inside', 64)):
        add('fs', 'fs', 'compute_features', pos, lambda v=v: compute_features(sig, v, fr, threshold_kwargs=dict(thr)))
        add('fs', 'fs', 'compute_shape_features', pos, lambda v=v: compute_shape_features(sig, v, fr))
        add('fs', 'fs', 'compute_cyclepoints', pos, lambda v=v: compute_cyclepoints(sig, v, fr))
        add('fs', 'fs', 'find_extrema', pos, lambda v=v: find_extrema(sig, v, fr))
        add('fs', 'fs', 'compute_burst_fraction', pos, lambda v=v: compute_burst_fraction(df_s, sig, v, fr))
        add('fs', 'fs', 'Bycycle.fit', pos, lambda v=v: Bycycle(thresholds=dict(thr)).fit(sig, v, fr))
        add('fs', 'fs', 'compute_features_2d', pos, lambda v=v: compute_features_2d(np.array([sig, sig[::-1]]), v, fr, {'threshold_kwargs': dict(thr)}, n_jobs=1))
    tv = (('below', -0.01), ('low', 0.0), ('inside', 0.5), ('high', 1.0), ('above', 1.01))
    for name in ('amp_fraction_threshold', 'amp_consistency_threshold', 'period_consistency_threshold', 'monotonicity_threshold'):
        for pos, v in tv:
            t2 = dict(thr, **{name: v})
            add('threshold', name, 'detect_bursts_cycles', pos, lambda t2=t2: detect_bursts_cycles(df_c.copy(), **t2))
            add('threshold', name, 'compute_features', pos, lambda t2=t2: compute_features(sig, fs, fr, threshold_kwargs=dict(t2)))
            add('threshold', name, 'Bycycle.fit', pos, lambda t2=t2: Bycycle(thresholds=dict(t2)).fit(sig, fs, fr))
            add('threshold', name, 'recompute_edges', pos, lambda t2=t2: recompute_edges(df_c.copy(), dict(t2)))
    for pos, v in tv:
        add('threshold', 'burst_fraction_threshold', 'detect_bursts_amp', pos, lambda v=v: detect_bursts_amp(df_a.copy(), burst_fraction_threshold=v, min_n_cycles=2))
        add('threshold', 'burst_fraction_threshold', 'compute_features', pos,
            lambda v=v: compute_features(sig, fs, fr, burst_method='amp', threshold_kwargs={'burst_fraction_threshold': v, 'min_n_cycles': 2}, burst_kwargs={}))
    for pos, v in (('negative', -1), ('zero', 0), ('inside', 2)):
        add('min_n_cycles', 'min_n_cycles', 'check_min_burst_cycles', pos, lambda v=v: check_min_burst_cycles(np.array([False, True, True, False, True]), min_n_cycles=v))
        add('min_n_cycles', 'min_n_cycles', 'detect_bursts_cycles', pos, lambda v=v: detect_bursts_cycles(df_c.copy(), **dict(thr, min_n_cycles=v)))
        add('min_n_cycles', 'min_n_cycles', 'detect_bursts_amp', pos, lambda v=v: detect_bursts_amp(df_a.copy(), burst_fraction_threshold=.5, min_n_cycles=v))
        add('min_n_cycles', 'min_n_cycles', 'compute_features(cycles)', pos, lambda v=v: compute_features(sig, fs, fr, threshold_kwargs=dict(thr, min_n_cycles=v)))
        add('min_n_cycles', 'min_n_cycles', 'compute_features(amp,thresholds)', pos,
            lambda v=v: compute_features(sig, fs, fr, burst_method='amp', threshold_kwargs={'burst_fraction_threshold': .5, 'min_n_cycles': v}, burst_kwargs={}))
        add('min_n_cycles', 'min_n_cycles', 'compute_features(amp,burst_kwargs)', pos,
            lambda v=v: compute_features(sig, fs, fr, burst_method='amp', threshold_kwargs={'burst_fraction_threshold': .5}, burst_kwargs={'min_n_cycles': v}))
        # the burst options' value is the effective one when both dictionaries give a minimum (documented: it overrides the thresholds' value)
        add('min_n_cycles', 'min_n_cycles', 'compute_features(amp,burst_kwargs; thresholds give one too)', pos,
            lambda v=v: compute_features(sig, fs, fr, burst_method='amp', threshold_kwargs={'burst_fraction_threshold': .5, 'min_n_cycles': 3}, burst_kwargs={'min_n_cycles': v}))
        add('min_n_cycles', 'min_n_cycles', 'Bycycle.fit(amp,burst_kwargs; default thresholds)', pos,
            lambda v=v: Bycycle(burst_method='amp', burst_kwargs={'min_n_cycles': v}).fit(sig, fs, fr))
        add('min_n_cycles', 'min_n_cycles', 'Bycycle.fit(cycles,thresholds)', pos, lambda v=v: Bycycle(thresholds=dict(thr, min_n_cycles=v)).fit(sig, fs, fr))
    for pos, v in (('reversed', (2, 1)), ('equal', (1, 1)), ('ordered', (1, 2)), ('negative_low', (-1, 2))):
        add('amp_threshes', 'amp_threshes', 'compute_burst_fraction', pos, lambda v=v: compute_burst_fraction(df_s, sig, fs, fr, amp_threshes=v))
        add('amp_threshes', 'amp_threshes', 'compute_features', pos,
            lambda v=v: compute_features(sig, fs, fr, burst_method='amp', threshold_kwargs={'burst_fraction_threshold': .5, 'min_n_cycles': 2}, burst_kwargs={'amp_threshes': v}))
    for pos, v in with_odd_unknowns((('valid1', 'peak'), ('valid2', 'trough'), ('unknown', 'middle'))):
        add('option', 'center_extrema', 'compute_features', pos, lambda v=v: compute_features(sig, fs, fr, center_extrema=v, threshold_kwargs=dict(thr)))
        add('option', 'center_extrema', 'compute_shape_features', pos, lambda v=v: compute_shape_features(sig, fs, fr, center_extrema=v))
        add('option', 'center_extrema', 'Bycycle.fit', pos, lambda v=v: Bycycle(center_extrema=v, thresholds=dict(thr)).fit(sig, fs, fr))
    for pos, v in with_odd_unknowns((('valid1', 'cycles'), ('valid2', 'amp'), ('unknown', 'foo'))):
        tk = lambda v: dict(thr) if v != 'amp' else {'burst_fraction_threshold': .5, 'min_n_cycles': 2}
        add('option', 'burst_method', 'compute_features', pos, lambda v=v: compute_features(sig, fs, fr, burst_method=v, threshold_kwargs=tk(v), burst_kwargs={}))
        add('option', 'burst_method', 'compute_burst_features', pos, lambda v=v: compute_burst_features(df_s, sig, burst_method=v, burst_kwargs={'fs': fs, 'f_range': fr}))
        add('option', 'burst_method', 'Bycycle.fit', pos, lambda v=v: Bycycle(burst_method=v, thresholds=tk(v), burst_kwargs={}).fit(sig, fs, fr))
    for pos, v in with_odd_unknowns((('valid1', 'peak'), ('valid2', 'trough'), ('unknown', 'both'))):
        add('option', 'first_extrema', 'find_extrema', pos, lambda v=v: find_extrema(sig, fs, fr, first_extrema=v))
    for pos, v in with_odd_unknowns((('valid1', 'next'), ('valid2', 'last'), ('unknown', 'sideways'))):
        add('option', 'direction', 'compute_amp_consistency', pos, lambda v=v: compute_amp_consistency(df_s, direction=v))
        add('option', 'direction', 'compute_period_consistency', pos, lambda v=v: compute_period_consistency(df_s, direction=v))
        add('option', 'direction', 'recompute_edge', pos, lambda v=v: recompute_edge(df_c.copy(), 2, v))
    for pos, v in with_odd_unknowns((('valid1', None), ('valid2', 'tqdm'), ('unknown', 'bar'))):
        add('option', 'progress', 'progress_bar', pos, lambda v=v: list(progress_bar(iter([1, 2]), v, 2)))
        add('option', 'progress', 'compute_features_2d', pos,
            lambda v=v: compute_features_2d(np.array([sig, sig[::-1]]), fs, fr, {'threshold_kwargs': dict(thr)}, n_jobs=1, progress=v))
    # ... and on the epoched route (axis=None), where no pool and no progress bar is involved
    sigs_e = sig[:300].reshape(3, 100)
    for pos, v in with_odd_unknowns((('valid1', None), ('valid2', 'tqdm'), ('unknown', 'bar'))):
        add('option', 'progress', 'compute_features_2d(axis=None)', pos,
            lambda v=v: compute_features_2d(sigs_e, fs, fr, {'threshold_kwargs': dict(thr)}, axis=None, n_jobs=1, progress=v))
        add('option', 'progress', 'BycycleGroup.fit(axis=None)', pos, lambda v=v: BycycleGroup(thresholds=dict(thr)).fit(sigs_e, fs, fr, axis=None, n_jobs=1, progress=v))
    from bycycle.utils.dataframes import rename_extrema_df
    for pos, v in with_odd_unknowns((('valid1', 'peak'), ('valid2', 'trough'), ('unknown', 'middle'))):
        add('option', 'center_extrema', 'rename_extrema_df', pos, lambda v=v: rename_extrema_df(v, df_s.copy()))
    for pos, v in (('negative', -1), ('zero', 0), ('inside', 2)):
        add('min_n_cycles', 'min_n_cycles', 'compute_burst_fraction', pos, lambda v=v: compute_burst_fraction(df_s, sig, fs, fr, min_n_cycles=v))
        add('min_n_cycles', 'min_n_cycles', 'compute_burst_features(amp)', pos,
            lambda v=v: compute_burst_features(df_s, sig, burst_method='amp', burst_kwargs={'fs': fs, 'f_range': fr, 'min_n_cycles': v}))
    # unknown options in degenerate contexts (boundary removing every extremum, two-row tables, single signals): validation must not depend on the data
    kind = 'option_in_degenerate_context'
    add(kind, 'burst_method', 'compute_features_2d(axis=None, second entry of a per-epoch list)', 'unknown',
        lambda: compute_features_2d(sigs_e, fs, fr, [{'threshold_kwargs': dict(thr)}, {'threshold_kwargs': dict(thr), 'burst_method': 'foo'}, {'threshold_kwargs': dict(thr)}], axis=None))
    add(kind, 'min_n_cycles', 'detect_bursts_cycles(table without cycles)', 'unknown', lambda: detect_bursts_cycles(df_c.iloc[0:0].copy(), **dict(thr, min_n_cycles=-1)))
    add(kind, 'min_n_cycles', 'detect_bursts_amp(table without cycles)', 'unknown', lambda: detect_bursts_amp(df_a.iloc[0:0].copy(), burst_fraction_threshold=.5, min_n_cycles=-1))
    add(kind, 'first_extrema', 'find_extrema(boundary removes all extrema)', 'unknown', lambda: find_extrema(sig, fs, fr, first_extrema='both', boundary=len(sig)))
    add(kind, 'first_extrema', 'find_extrema(boundary leaves one extremum)', 'unknown', lambda: find_extrema(sig, fs, fr, first_extrema='both', boundary=len(sig) // 2 - 4))
    add(kind, 'center_extrema', 'compute_features(large boundary)', 'unknown', lambda: compute_features(sig, fs, fr, center_extrema='middle', threshold_kwargs=dict(thr), find_extrema_kwargs={'boundary': len(sig)}))
    add(kind, 'burst_method', 'compute_burst_features(two-row table)', 'unknown', lambda: compute_burst_features(df_s.iloc[:2].reset_index(drop=True), sig, burst_method='foo', burst_kwargs={}))
    add(kind, 'direction', 'compute_amp_consistency(two-row table)', 'unknown', lambda: compute_amp_consistency(df_s.iloc[:2].reset_index(drop=True), direction='sideways'))
    add(kind, 'direction', 'compute_period_consistency(two-row table)', 'unknown', lambda: compute_period_consistency(df_s.iloc[:2].reset_index(drop=True), direction='sideways'))
    add(kind, 'progress', 'compute_features_2d(one row)', 'unknown', lambda: compute_features_2d(np.array([sig]), fs, fr, {'threshold_kwargs': dict(thr)}, n_jobs=1, progress='bar'))
    add(kind, 'min_n_cycles', 'check_min_burst_cycles(no True)', 'unknown', lambda: check_min_burst_cycles(np.zeros(5, dtype=bool), min_n_cycles=-1))
    add(kind, 'threshold', 'detect_bursts_cycles(no qualifying cycle)', 'unknown', lambda: detect_bursts_cycles(df_c.assign(amp_fraction=0.0), **dict(thr, monotonicity_threshold=1.5)))
    for pos, arr in (('too_few', np.array(1.0)), ('ok', sig), ('too_many', np.array([sig, sig]))):
        add('ndim', 'sig', 'Bycycle.fit', pos, lambda arr=arr: Bycycle(thresholds=dict(thr)).fit(arr, fs, fr))
    for pos, arr in (('too_few', sig), ('ok', np.array([sig, sig[::-1]])), ('too_many', np.array([[[sig, sig]]]))):
        add('ndim', 'sigs', 'BycycleGroup.fit', pos, lambda arr=arr: BycycleGroup(thresholds=dict(thr)).fit(arr, fs, fr, n_jobs=1))

    from bycycle.group import compute_features_3d
    sigs3 = np.array([[sig, sig[::-1]], [sig * 0.5, sig[::-1] * 2]])
    for pos, v in (('zero', np.int64(0)), ('one', np.int64(1)), ('two', np.int64(2))):
        add('axis_as_numpy_integer', 'axis', 'compute_features_3d', pos, lambda v=v: compute_features_3d(sigs3, fs, fr, {'threshold_kwargs': dict(thr)}, axis=v, n_jobs=1))
        add('axis_as_numpy_integer', 'axis', 'compute_features_3d(per-slice list)', pos,
            lambda v=v: compute_features_3d(sigs3, fs, fr, [{'threshold_kwargs': dict(thr)}, {'threshold_kwargs': dict(thr, min_n_cycles=3)}], axis=v, n_jobs=1))
        add('axis_as_numpy_integer', 'axis', 'BycycleGroup.fit', pos, lambda v=v: BycycleGroup(thresholds=dict(thr)).fit(sigs3, fs, fr, axis=v, n_jobs=1))

    def plot_case(fit):
        import matplotlib
        matplotlib.use('Agg')
        import matplotlib.pyplot as plt
        b = Bycycle(thresholds=dict(thr))
        if fit:
            b.fit(sig, fs, fr)
        try:
            b.plot()
        finally:
            plt.close('all')
    add('plot', 'plot', 'Bycycle.plot', 'before_fit', lambda: plot_case(False))
    add('plot', 'plot', 'Bycycle.plot', 'after_fit', lambda: plot_case(True))
    return P
