"""Projection of Python values to the TLA+ value domain (32-bit integers, no floats).  Exact by construction:

* signals live on a dyadic grid  sig = q * 2**e  (integer q): voltages are logged as q;
* ratios are recovered as the unique fraction p/q with q <= D within 1e-12 (else the token INEXACT,
  which every trace specification rejects);
* threshold decisions are projected to order-isomorphic rank codes (NaN -> -1);
* float identity across runs uses a lossless 3-limb encoding of the 64 bits.
"""
import math
import struct
from fractions import Fraction

import numpy as np

NAN = [0, 0]
NEGINF = [-1, 0]
INEXACT = [0, -1]     # never equal to anything the specification computes (denominators are > 0 or the two tokens above)


def rat(x, D=200000, tol=1e-12):
    """float -> [p, q] lowest terms, or NAN / NEGINF / INEXACT."""
    x = float(x)
    if math.isnan(x):
        return NAN
    if math.isinf(x):
        return NEGINF if x < 0 else INEXACT
    f = Fraction(x).limit_denominator(D)
    if abs(float(f) - x) <= tol * max(1.0, abs(x)) and abs(f.numerator) < 2 ** 31:
        return [int(f.numerator), int(f.denominator)]
    return INEXACT


def dyadic(x, e):
    """float on the grid 2**e -> integer q with x = q * 2**e, or None when off the grid."""
    v = float(x) / (2.0 ** e)
    if math.isfinite(v) and v == int(v) and abs(v) < 2 ** 30:
        return int(v)
    return None


def limbs(x):
    """Lossless encoding of a float64 as three integers < 2**22."""
    b = struct.unpack('<Q', struct.pack('<d', float(x)))[0]
    return [int(b & 0x3FFFFF), int((b >> 22) & 0x3FFFFF), int(b >> 44)]


def rank_codes(values, extra=()):
    """Dense rank of every finite value among values + extra; NaN -> -1.  Returns (codes, extra_codes)."""
    allv = [float(v) for v in list(values) + list(extra)]
    fin = sorted({v for v in allv if not math.isnan(v)})
    idx = {v: i for i, v in enumerate(fin)}
    code = lambda v: -1 if math.isnan(float(v)) else idx[float(v)]
    return [code(v) for v in values], [code(v) for v in extra]


def is_int_array(a):
    a = np.asarray(a)
    return a.dtype.kind in 'iu' or (a.dtype.kind == 'f' and np.all(a == np.round(a)))


LABELLINGS = ['default', 'offset', 'late_gap', 'reversed']


def relabel(df, k):
    """A table is a SEQUENCE of rows in the specification: the row LABELS of a data frame are not part of the abstract state.  Variant k of
    the labelling (the rows, their order and their values are untouched): the default 0..n-1, a window cut out of a longer table (labels
    start at 7), a table from which one late row was dropped (labels equal positions only up to a late gap), labels in descending order."""
    m, v = len(df), k % 4
    if v == 0 or m == 0:
        return df
    if v == 1:
        idx = np.arange(m) + 7
    elif v == 2:
        g = m - max(1, m // 3)
        idx = np.r_[np.arange(g), np.arange(g, m) + 1]
    else:
        idx = np.arange(m)[::-1]
    return df.set_axis(idx, axis=0)
