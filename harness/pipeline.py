"""Shared trace-validation driver for the pipeline properties (C01-C07): generate the corpus, record the real
compute_features (or Bycycle.fit) on every case, have Trace_Pipeline judge every stage of every case, and hand
the failing clauses that belong to a property (by prefix) back to its check."""
import hashlib
import json
import os
from multiprocessing import Pool

import numpy as np

import gen
import record
import tv


_OBJ = {}


_KEPT = []


def staged_call(variant):
    """The same analysis through the PUBLIC STAGE FUNCTIONS, as a user composing them would: the shape table the user holds carries its own
    row labels (variant of project.relabel: a window of a longer table, a late row dropped, descending labels) - a table is a sequence of rows
    in the specification, so every stage is judged by the same clauses as inside compute_features."""
    import pandas as pd
    import project as pj

    def call(sig, fs, f_range, **o):
        from bycycle.features import compute_shape_features, compute_burst_features
        from bycycle.burst import detect_bursts_cycles, detect_bursts_amp
        from bycycle.utils import drop_samples_df
        method = o.get('burst_method', 'cycles')
        kw = {} if o.get('find_extrema_kwargs') is None else {'find_extrema_kwargs': o['find_extrema_kwargs']}
        center = o.get('center_extrema', 'peak')
        if (variant // 4) % 3 == 2 and center == 'trough':
            # the trough-centred table built by hand the documented way: the peak-centred shape table of the NEGATED signal, renamed
            # (whatever the shape function remembers about the table it returned - attributes, caches - must not outlive the renaming)
            from bycycle.utils.dataframes import rename_extrema_df
            shp = rename_extrema_df('trough', compute_shape_features(-sig, fs, f_range, center_extrema='peak', **kw))
        elif (variant // 4) % 2 == 0:
            shp = compute_shape_features(sig, fs, f_range, center_extrema=center, **kw)
        else:
            # one level further down: the shape table composed from the SECONDARY public functions, as documented in their own examples
            # (compute_symmetry without the optional durations: it computes them itself; compute_band_amp with its default filter length)
            from bycycle.features import compute_cyclepoints
            from bycycle.features.shape import compute_durations, compute_extrema_voltage, compute_symmetry, compute_band_amp
            from bycycle.utils.dataframes import rename_extrema_df
            fek = {'filter_kwargs': {'n_cycles': 3}} if o.get('find_extrema_kwargs') is None else o['find_extrema_kwargs']
            s_ = sig if center == 'peak' else -sig
            smp = compute_cyclepoints(s_, fs, f_range, **fek)
            period, time_peak, time_trough = compute_durations(smp)
            volt_peak, volt_trough = compute_extrema_voltage(smp, s_)
            sym = compute_symmetry(smp, s_) if variant % 2 else compute_symmetry(smp, s_, period, time_peak, time_trough)
            band = compute_band_amp(smp, s_, fs, f_range) if variant % 3 else compute_band_amp(smp, s_, fs, f_range, 3)
            shp = pd.DataFrame({'period': period, 'time_peak': time_peak, 'time_trough': time_trough, 'volt_peak': volt_peak, 'volt_trough': volt_trough,
                                'time_decay': sym['time_decay'], 'time_rise': sym['time_rise'], 'volt_decay': sym['volt_decay'], 'volt_rise': sym['volt_rise'],
                                'volt_amp': sym['volt_amp'], 'time_rdsym': sym['time_rdsym'], 'time_ptsym': sym['time_ptsym'], 'band_amp': band})
            shp = rename_extrema_df(center, pd.concat((shp, smp), axis=1))
        shp_returned = shp
        shp = pj.relabel(shp, variant)
        tk, bk = dict(o.get('threshold_kwargs') or {}), dict(o.get('burst_kwargs') or {})
        if method == 'amp':                # the documented plumbing of the two option sets, done by the user
            bk['fs'], bk['f_range'] = fs, f_range
            if 'min_n_cycles' not in bk:
                bk['min_n_cycles'] = tk.get('min_n_cycles', 3)
            else:
                tk['min_n_cycles'] = bk['min_n_cycles']
        if method == 'amp' and (variant // 2) % 2 == 1:
            # the secondary public function called directly, its options given as keywords
            from bycycle.features.burst import compute_burst_fraction
            bf = pd.DataFrame({'burst_fraction': compute_burst_fraction(shp, sig, fs, f_range, **{k_: v_ for k_, v_ in bk.items() if k_ not in ('fs', 'f_range')})})
        elif method == 'cycles' and (variant // 2) % 2 == 1:
            from bycycle.features.burst import compute_amp_fraction, compute_amp_consistency, compute_period_consistency, compute_monotonicity
            bf = pd.DataFrame({'amp_fraction': np.asarray(compute_amp_fraction(shp)), 'amp_consistency': np.asarray(compute_amp_consistency(shp, 'both')),
                               'period_consistency': np.asarray(compute_period_consistency(shp, direction='both')), 'monotonicity': np.asarray(compute_monotonicity(shp, sig))})
        else:
            bf = compute_burst_features(shp, sig, burst_method=method, burst_kwargs=bk if method == 'amp' else None)
        if len(bf) != len(shp):
            raise AssertionError('compute_burst_features returned %d rows for %d cycles' % (len(bf), len(shp)))
        df = pd.concat((bf.reset_index(drop=True), shp.reset_index(drop=True)), axis=1).set_axis(shp.index, axis=0)     # positional, labels kept
        df = detect_bursts_cycles(df, **tk) if method == 'cycles' else detect_bursts_amp(df, **tk)
        df = df if o.get('return_samples', True) else drop_samples_df(df)
        if variant % 2 == 1:
            # when the user is done, the shape table is converted in place to other units / trimmed: the table a function returned is a value of
            # its own, whatever happens to it later must not reach a later call with the same arguments
            for col in [c_ for c_ in shp_returned.columns if not c_.startswith('sample_')][::2]:
                shp_returned[col] = -7
            _KEPT.append(shp_returned)          # ... and the user keeps it
            del _KEPT[:-4]
        return df
    return call


INT_TYPES = [np.int64, np.int32, np.int16]


def as_recorded_dtype(case):
    """Recordings often arrive as integer counts: when every sample of the case is an integer that fits, every fourth case hands the SAME values
    to the library as an integer-typed array (int64 / int32 / int16, up to the full range of the type).  Every eighth case is re-quantised to RAW
    CONVERTER COUNTS - unsigned 8-bit counts 0 .. 255 or 16-bit counts -20000 .. 20000 -, a new signal whose values the specification sees
    like any other (q = counts, e = 0): differences of two samples, their negation and their sum do not fit the type of the samples there.
    The specification sees the values, not the dtype."""
    k = case.get('k', 0)
    if k % 8 == 3 and not case.get('no_counts') and len(case['q']) and case['q'].max() > case['q'].min():
        x = (case['q'] - case['q'].min()) / float(case['q'].max() - case['q'].min())
        if (k // 8) % 2 == 0:
            cnt, dt = np.round(x * 255).astype(np.int64), np.uint8
        else:
            cnt, dt = np.round(x * 40000).astype(np.int64) - 20000, np.int16      # peak-to-peak above 32767 (products of two differences still fit TLC's 32-bit integers)
        return dict(case, q=cnt, e=0, sig=cnt.astype(dt), sig_dtype=np.dtype(dt).name + ' counts', kind=case['kind'] + ' as ' + np.dtype(dt).name + ' counts')
    if k % 4 != 1 or case['e'] < 0 or case['e'] > 40:
        return case
    vals = case['q'].astype(np.int64) * (1 << int(case['e']))
    dt = INT_TYPES[(k // 4) % 3]
    if np.abs(vals).max(initial=0) > np.iinfo(dt).max or np.abs(case['q']).max(initial=0) >= 2 ** 20:
        return case
    return dict(case, sig=vals.astype(dt), sig_dtype=np.dtype(dt).name)


def as_written(case):
    """The same settings written the way users write them: the band as a list, the sampling rate and the thresholds as numpy scalars, the
    amplitude thresholds as a list.  Same values - the specification sees no difference."""
    import copy
    k = case.get('k', 0)
    v = k % 7
    if v not in (3, 5, 6):
        return case
    c = dict(case, opts=copy.deepcopy(case['opts']))
    if v == 3:
        c['f_range'] = [float(x) for x in case['f_range']]
    elif v == 5:
        c['fs'] = np.int64(case['fs']) if float(case['fs']).is_integer() else np.float64(case['fs'])
    else:
        tk = c['opts'].get('threshold_kwargs')
        if tk:
            c['opts']['threshold_kwargs'] = {k_: (np.float64(v_) if isinstance(v_, float) else np.int64(v_) if isinstance(v_, int) and not isinstance(v_, bool) else v_) for k_, v_ in tk.items()}
        bk = c['opts'].get('burst_kwargs')
        if bk and 'amp_threshes' in bk:
            bk['amp_threshes'] = list(bk['amp_threshes'])
        if bk and isinstance(bk.get('min_n_cycles'), int):
            bk['min_n_cycles'] = np.int64(bk['min_n_cycles'])
    return c


def _rec_one(args):
    case, via_object = args
    case = as_written(as_recorded_dtype(case))
    call = None
    if not via_object and case.get('k', 0) % 5 == 2:
        call = staged_call(case['k'] // 5)
    repeat = 2 if case.get('k', 0) % 3 == 0 else 1
    if via_object:
        _OBJ.clear()

        def call(sig, fs, f_range, **o):
            from bycycle import Bycycle
            if 'b' in _OBJ:                 # second call of a repeated case: re-fit the SAME object (it holds the same option objects)
                _OBJ['b'].fit(sig, fs, f_range)
                return _OBJ['b'].df_features
            b = _OBJ['b'] = Bycycle(center_extrema=o.get('center_extrema', 'peak'), burst_method=o.get('burst_method', 'cycles'),
                        burst_kwargs=o.get('burst_kwargs'), thresholds=o.get('threshold_kwargs'),
                        find_extrema_kwargs=o.get('find_extrema_kwargs'), return_samples=o.get('return_samples', True))
            b.fit(sig, fs, f_range)
            return b.df_features
    r, _ = record.record_compute_features(case, call=call, repeat=repeat)
    return r


def record_all(cases, via_object_every=0, procs=None):
    jobs = [(c, bool(via_object_every and i % via_object_every == via_object_every - 1)) for i, c in enumerate(cases)]
    for c, vo in jobs:
        c['via_object'] = vo
    if len(jobs) < 40:
        return [_rec_one(j) for j in jobs]
    with Pool(procs or min(16, os.cpu_count() or 4)) as p:
        return p.map(_rec_one, jobs, chunksize=8)


def case_brief(case, rec):
    o = case['opts']
    return {'kind': case['kind'], 'n': len(case['q']), 'fs': case['fs'], 'f_range': list(case['f_range']), 'e': case['e'],
            'levels': int(len(set(case['q'].tolist()))), 'center': o['center_extrema'], 'method': o['burst_method'],
            'return_samples': o['return_samples'], 'find_extrema_kwargs': o['find_extrema_kwargs'],
            'threshold_kwargs': o['threshold_kwargs'], 'burst_kwargs': o['burst_kwargs'], 'rows': len(rec['rows']),
            'raised': rec['raised']}


def replay_payload(case):
    return {'kind': 'pipeline', 'q': [int(x) for x in case['q']], 'e': case['e'], 'fs': case['fs'], 'f_range': list(case['f_range']),
            'opts': case['opts'], 'sig_kind': case['kind'], 'k': int(case.get('k', 0)), 'via_object': bool(case.get('via_object', False))}


def case_from_payload(p):
    q = np.array(p['q'], dtype=np.int64)
    opts = p['opts']
    if opts.get('burst_kwargs') and 'amp_threshes' in opts['burst_kwargs']:
        opts['burst_kwargs']['amp_threshes'] = tuple(opts['burst_kwargs']['amp_threshes'])
    return {'q': q, 'e': p['e'], 'sig': q.astype(float) * (2.0 ** p['e']), 'fs': p['fs'], 'f_range': tuple(p['f_range']),
            'kind': p.get('sig_kind', ''), 'opts': opts, 'k': int(p.get('k', 0)), 'via_object': bool(p.get('via_object', False))}


def run_corpus(ctx, n_cases, prefixes, seed_offset=0, kinds=None, max_len=900, via_object_every=0, fs_bands=None,
               label='G', mutate_opts=None, cases=None):
    if cases is None:
        cases = gen.corpus(ctx.seed * 1000 + seed_offset, n_cases, max_len=max_len, kinds=kinds, fs_bands=fs_bands)
    if mutate_opts:
        for i, c in enumerate(cases):
            mutate_opts(i, c)
    recs = record_all(cases, via_object_every)
    verdicts = tv.validate(ctx, 'Trace_Pipeline', recs, label='Trace_Pipeline.' + label)
    cells, seen, nontriv = set(), set(), 0
    for case, rec, fails in zip(cases, recs, verdicts):
        o = case['opts']
        fk = ((o.get('find_extrema_kwargs') or {}).get('filter_kwargs') or {})
        cells.add((o['center_extrema'], o['burst_method'], o['return_samples'], 'n_seconds' if fk.get('n_seconds') is not None else 'n_cycles',
                   (o.get('find_extrema_kwargs') or {}).get('boundary', 0) > 0))
        h = hashlib.sha1(json.dumps([rec['sig'][:200], str(o)], default=str).encode()).hexdigest()
        if h not in seen and len(rec['rows']) >= 3:
            nontriv += 1
        seen.add(h)
        for f in fails:
            if any(f.startswith(p) for p in prefixes):
                ctx.violation(f, 'compute_features on a %s signal (n=%d, fs=%s, band=%s, centre=%s, method=%s, return_samples=%s, '
                                 'find_extrema_kwargs=%s): clause %s fails; all failing clauses of the case: %s'
                              % (case['kind'], len(case['q']), case['fs'], case['f_range'], o['center_extrema'], o['burst_method'],
                                 o['return_samples'], o['find_extrema_kwargs'], f, fails), replay_payload(case))
    ctx.traces += len(recs)
    ctx.evaluations += len(recs)
    ctx.nontrivial += nontriv
    for case, rec in list(zip(cases, recs))[:2]:
        ctx.sample(case_brief(case, rec))
    ctx.parts.append({'part': 'corpus.' + label, 'cases': len(recs), 'option_cells_hit': len(cells),
                      'raised': sum(1 for r in recs if r['raised']), 'integer_typed_signals': sum(1 for c in cases if as_recorded_dtype(c) is not c),
                      'through_stage_functions': sum(1 for c in cases if not c.get('via_object') and c.get('k', 0) % 5 == 2), 'kinds': sorted({c['kind'] for c in cases}),
                      'rows_total': sum(len(r['rows']) for r in recs)})
    return cases, recs, verdicts


def run_large(ctx, prefixes, seed_offset, n_long_cycles, n_long_recordings, mutate_opts=None, kinds=None):
    """Beyond small scopes (gen.large_cases): same recording, same Trace_Pipeline clauses - only the size of the structures differs."""
    cases = gen.large_cases(ctx.seed * 1000 + 500 + seed_offset, n_long_cycles, n_long_recordings, kinds)
    return run_corpus(ctx, len(cases), prefixes, mutate_opts=mutate_opts, label='large', cases=cases)


def replay_pipeline(ctx, payload, prefixes):
    case = case_from_payload(payload)
    rec = _rec_one((case, case.get('via_object', False)))        # the same call form (object / staged functions / repeated call) as when it was found
    verdicts = tv.validate(ctx, 'Trace_Pipeline', [rec], jvms=1)
    for f in verdicts[0]:
        if any(f.startswith(p) for p in prefixes):
            ctx.violation(f, 'replayed case: failing clauses %s' % verdicts[0])
