"""Shared trace-validation driver for the pipeline properties (C01-C07): generate the corpus, record the real
compute_features (or Bycycle.fit) on every case, have Trace_Pipeline judge every stage of every case, and hand
the failing clauses that belong to a property (by prefix) back to its check."""
import hashlib
import json
import os
from multiprocessing import Pool

import numpy as np

import gen
import record
import tv


_OBJ = {}


def _rec_one(args):
    case, via_object = args
    call = None
    repeat = 2 if case.get('k', 0) % 3 == 0 else 1
    if via_object:
        _OBJ.clear()

        def call(sig, fs, f_range, **o):
            from bycycle import Bycycle
            if 'b' in _OBJ:                 # second call of a repeated case: re-fit the SAME object (it holds the same option objects)
                _OBJ['b'].fit(sig, fs, f_range)
                return _OBJ['b'].df_features
            b = _OBJ['b'] = Bycycle(center_extrema=o.get('center_extrema', 'peak'), burst_method=o.get('burst_method', 'cycles'),
                        burst_kwargs=o.get('burst_kwargs'), thresholds=o.get('threshold_kwargs'),
                        find_extrema_kwargs=o.get('find_extrema_kwargs'), return_samples=o.get('return_samples', True))
            b.fit(sig, fs, f_range)
            return b.df_features
    r, _ = record.record_compute_features(case, call=call, repeat=repeat)
    return r


def record_all(cases, via_object_every=0, procs=None):
    jobs = [(c, bool(via_object_every and i % via_object_every == via_object_every - 1)) for i, c in enumerate(cases)]
    if len(jobs) < 40:
        return [_rec_one(j) for j in jobs]
    with Pool(procs or min(16, os.cpu_count() or 4)) as p:
        return p.map(_rec_one, jobs, chunksize=8)


def case_brief(case, rec):
    o = case['opts']
    return {'kind': case['kind'], 'n': len(case['q']), 'fs': case['fs'], 'f_range': list(case['f_range']), 'e': case['e'],
            'levels': int(len(set(case['q'].tolist()))), 'center': o['center_extrema'], 'method': o['burst_method'],
            'return_samples': o['return_samples'], 'find_extrema_kwargs': o['find_extrema_kwargs'],
            'threshold_kwargs': o['threshold_kwargs'], 'burst_kwargs': o['burst_kwargs'], 'rows': len(rec['rows']),
            'raised': rec['raised']}


def replay_payload(case):
    return {'kind': 'pipeline', 'q': [int(x) for x in case['q']], 'e': case['e'], 'fs': case['fs'], 'f_range': list(case['f_range']),
            'opts': case['opts'], 'sig_kind': case['kind']}


def case_from_payload(p):
    q = np.array(p['q'], dtype=np.int64)
    opts = p['opts']
    if opts.get('burst_kwargs') and 'amp_threshes' in opts['burst_kwargs']:
        opts['burst_kwargs']['amp_threshes'] = tuple(opts['burst_kwargs']['amp_threshes'])
    return {'q': q, 'e': p['e'], 'sig': q.astype(float) * (2.0 ** p['e']), 'fs': p['fs'], 'f_range': tuple(p['f_range']),
            'kind': p.get('sig_kind', ''), 'opts': opts, 'k': 0}


def run_corpus(ctx, n_cases, prefixes, seed_offset=0, kinds=None, max_len=900, via_object_every=0, fs_bands=None,
               label='G', mutate_opts=None):
    cases = gen.corpus(ctx.seed * 1000 + seed_offset, n_cases, max_len=max_len, kinds=kinds, fs_bands=fs_bands)
    if mutate_opts:
        for i, c in enumerate(cases):
            mutate_opts(i, c)
    recs = record_all(cases, via_object_every)
    verdicts = tv.validate(ctx, 'Trace_Pipeline', recs, label='Trace_Pipeline.' + label)
    cells, seen, nontriv = set(), set(), 0
    for case, rec, fails in zip(cases, recs, verdicts):
        o = case['opts']
        fk = ((o.get('find_extrema_kwargs') or {}).get('filter_kwargs') or {})
        cells.add((o['center_extrema'], o['burst_method'], o['return_samples'], 'n_seconds' if 'n_seconds' in fk else 'n_cycles',
                   (o.get('find_extrema_kwargs') or {}).get('boundary', 0) > 0))
        h = hashlib.sha1(json.dumps([rec['sig'][:200], str(o)], default=str).encode()).hexdigest()
        if h not in seen and len(rec['rows']) >= 3:
            nontriv += 1
        seen.add(h)
        for f in fails:
            if any(f.startswith(p) for p in prefixes):
                ctx.violation(f, 'compute_features on a %s signal (n=%d, fs=%s, band=%s, centre=%s, method=%s, return_samples=%s, '
                                 'find_extrema_kwargs=%s): clause %s fails; all failing clauses of the case: %s'
                              % (case['kind'], len(case['q']), case['fs'], case['f_range'], o['center_extrema'], o['burst_method'],
                                 o['return_samples'], o['find_extrema_kwargs'], f, fails), replay_payload(case))
    ctx.traces += len(recs)
    ctx.evaluations += len(recs)
    ctx.nontrivial += nontriv
    for case, rec in list(zip(cases, recs))[:2]:
        ctx.sample(case_brief(case, rec))
    ctx.parts.append({'part': 'corpus.' + label, 'cases': len(recs), 'option_cells_hit': len(cells),
                      'raised': sum(1 for r in recs if r['raised']), 'kinds': sorted({c['kind'] for c in cases}),
                      'rows_total': sum(len(r['rows']) for r in recs)})
    return cases, recs, verdicts


def replay_pipeline(ctx, payload, prefixes):
    case = case_from_payload(payload)
    rec, _ = record.record_compute_features(case)
    verdicts = tv.validate(ctx, 'Trace_Pipeline', [rec], jvms=1)
    for f in verdicts[0]:
        if any(f.startswith(p) for p in prefixes):
            ctx.violation(f, 'replayed case: failing clauses %s' % verdicts[0])
