"""Source of truth for MANIFEST.json (tools/gen_manifest.py writes the file from this table)."""

TECH = 'explicit TLA+ specification + TLC; '

CHECKS = {
    'C08': dict(
        technique=TECH + 'exhaustive small-scope model checking with indexed conformance (IX) of the real function, plus TLC trace validation of recorded calls on long arrays',
        text='TLC enumerates every boolean array up to length 11 (thorough 15) x every min_n_cycles, runs a scanning state machine, '
             'checks C08 and the agreement of three definitions on the specification, and compares each result with the output of the '
             'real check_min_burst_cycles for the same input (exhaustive within the bound); recorded calls on random arrays to length '
             '2000 are judged by Trace_RunFilter. Exhaustive small scope + sampled large scope is the strongest level this pure function admits short of a proof.',
        design_ref='6/C08',
        note='TLC, the CommunityModules Json/Folds overrides and the bit-mask projection are trusted; beyond the length bound coverage is sampled.'),
}

PENDING_REASON = 'check not built yet (work in progress in this round; the design in DESIGN.md section 6 applies)'
