"""Source of truth for MANIFEST.json (tools/gen_manifest.py writes the file from this table)."""

TECH = 'explicit TLA+ specification + TLC; '

CHECKS = {
    'C01': dict(
        technique=TECH + 'exhaustive small-scope stage machine (MC_Cyclepoints) with indexed conformance of the real compute_cyclepoints/find_extrema, plus TLC trace validation (Trace_Pipeline) of recorded compute_features / Bycycle.fit runs over the option grid',
        text='Pipeline stage machine in TLA+ (one action per stage); TableWF, alternation and one-row-per-cycle are TLC invariants for every raw signal x filtered-sign pattern up to the bound, and the real code is compared on each of those inputs; every recorded run of the real pipeline on generated signals (10 waveform classes x option grid, both APIs; every third case called twice with the same signal and option objects, the last call judged) is judged stage by stage by TLC, including totality under the precondition evaluated on the recorded sign pattern; MC_Pipeline composes all stages into one machine and compares the complete table of the real compute_features on every small input.',
        design_ref='6/C01',
        note='neurodsp filter output is an environment input (its arguments are checked); exhaustive only up to 8-9 samples, beyond that sampled traces; TLC and the projection are trusted.'),
    'C02': dict(
        technique=TECH + 'exhaustive small-scope model checking with indexed conformance of the real find_extrema (filter stubbed to TLC-chosen sign patterns, zeros materialised both ways), plus trace validation of direct and in-pipeline find_extrema calls',
        text='Extrema(sig, sign pattern, pad, boundary, first_extrema) is defined declaratively (closed half-waves, first arg-max/min, un-pad, boundary, first-extrema trimming); TLC checks its invariants and compares the real find_extrema on every input up to the bound; recorded calls on generated signals are validated including the arguments bycycle passes to the filter.',
        design_ref='6/C02',
        note='"band-passed" = what neurodsp.filter_signal returns for the documented arguments; bounded exhaustiveness (6-9 samples).'),
    'C03': dict(
        technique=TECH + 'exhaustive small-scope model checking (MC_Zerox) with indexed conformance of the real find_zerox on every alternating extremum placement over every small integer signal, plus trace validation on generated signals',
        text='FlankMid/Zerox are transcribed with the four cases (zero segment, inverted flank, floor-median of crossings, no crossing); TLC checks the property-level invariants (inside the flank, sample just before the crossing, median) and that the real find_zerox agrees on all cases of the bound - literally the quantifier of C03 - and on recorded calls.',
        design_ref='6/C03',
        note='bounded exhaustiveness (6-7 samples, 3-4 levels); integer-valued signals (dyadic grid) in traces.'),
    'C04': dict(
        technique=TECH + 'exhaustive small-scope model checking (MC_Shape) with indexed conformance of the real compute_shape_features, plus trace validation (Trace_Pipeline) of every shape column of recorded runs as exact integers / rationals',
        text='ShapeOf is written directly against the original signal for both centrings; TLC checks the identities and ranges of C04 and that the code\'s negate-and-rename route equals the direct definition on all small inputs, compares the real compute_shape_features on each of them, and judges every row of every recorded compute_features run (both centrings, with and without sample columns).',
        design_ref='6/C04',
        note='band_amp is validated against the amplitude recorded at the neurodsp boundary (rounded to the dyadic grid there); value conformance is established on dyadic-grid signals.'),
    'C05': dict(
        technique=TECH + 'exhaustive small-scope model checking (MC_BurstFeat, MC_Shape) with indexed conformance of the real burst-feature functions, plus trace validation of recorded runs on tie-rich signals',
        text='AmpFraction (average rank), AmpConsistency (three flank pairs, centring-dependent neighbours, NaN / -inf / clamp), PeriodConsistency and Monotonicity (strict steps) are defined over exact rationals; TLC checks unit range, NaN ends, both = min(next,last) and mirror consistency on all small tables and compares the real functions on each (3 directions, both centrings); recorded tables are validated column by column.',
        design_ref='6/C05',
        note='small domains (3-5 rows, voltages -1..2, periods 1..2; signals to 6 samples) for the exhaustive part; sampled traces beyond.'),
    'C06': dict(
        technique=TECH + 'exhaustive small-scope model checking (MC_Detect) with indexed conformance of the real detect_bursts_cycles on values just below / on / just above the thresholds and NaN, plus trace validation of labels on rank codes of the table\'s own floats',
        text='DetectCycles = minimum-run filter of (interior cycle strictly above all four thresholds); TLC checks the rule in the property\'s words, the end-cycle rule and monotonicity in every threshold and in min_n_cycles on all profile tables, compares the real function on each, and judges the labels of every recorded run without any tolerance near a threshold (order-isomorphic rank codes).',
        design_ref='6/C06',
        note='profiles: 10 per cycle, 4-5 cycles; rank coding is order-preserving by construction.'),
    'C07': dict(
        technique=TECH + 'exhaustive small-scope model checking (MC_Amp) with indexed conformance of the real compute_burst_fraction / detect_bursts_amp, plus trace validation of recorded amp-method runs incl. the arguments reaching the sample-wise detector',
        text='BurstFraction over the inclusive window as an exact rational, labels = run filter of (fraction >= threshold), EffMinCycles routing (burst options, else thresholds, else 3) checked both at the recorded detector call and in the run filter; all masks x tilings x thresholds x min_n_cycles exhaustively against the real code, and every recorded run over the four routings.',
        design_ref='6/C07',
        note='neurodsp\'s sample-wise detector output is taken as recorded (arguments checked); masks to 7-8 samples exhaustively.'),
    'C09': dict(
        technique=TECH + 'self-composition: TLC trace validation (Trace_Relations) of pairs of recorded runs against the Mirror relation, each run also validated by Trace_Pipeline; mirror invariants of the specification model-checked on all small inputs with indexed conformance of the real feature functions',
        text='Mirror(A,B) relates the trough-centred analysis of s and the peak-centred analysis of -s (name swap, negated extremum voltages, 1 - symmetry as exact rationals, bit-identical burst features, identical labels); TLC judges it on recorded pairs for both burst methods (with and without sample columns) and checks on all small inputs that the specification\'s centring-dependent definitions are mirror-consistent.',
        design_ref='6/C09',
        note='pairs are sampled from the generated corpus; the recorded environment outputs of the two runs must coincide (checked).'),
    'C10': dict(
        technique=TECH + 'self-composition: TLC trace validation (Trace_Relations) of pairs of recorded runs against AmpScaled / SameTable, each run also validated by Trace_Pipeline; rank/ratio scale-invariance invariants model-checked on small tables',
        text='For power-of-two factors TLC requires identical indices, durations, ratios (bit-identical) and labels and voltage features / band_amp scaled by exactly the factor, and a bit-identical table when fs and both band edges are multiplied by c in {1/8,1/4,1/2,2,4}; the recorded environment outputs (sign pattern, mask, filter length) must coincide, which makes the neurodsp covariance assumption visible.',
        design_ref='6/C10',
        note='scale factors restricted to powers of two as the property states; pairs sampled from the generated corpus.'),
    'C11': dict(
        technique=TECH + 'exhaustive model checking of the concurrent Pool state machine (all interleavings, safety + liveness), replay of every TLC-reached completion order on the real multiprocessing pool via injected worker delays, and TLC trace validation (Trace_Pool) of the recorded worker logs and results',
        text='Pool.tla models Pool.imap (Submit / Take / Finish / Handle with re-ordering buffer / Consume); Prefix, AtMostOnce, NothingLost hold for every interleaving and Termination under weak fairness, and the imap_unordered deviation violates Prefix (negative control). The reachable completion orders are realised on the real compute_features_2d / BycycleGroup.fit (n_jobs 1..T+2 and -1, shared / per-row options, progress None / tqdm); TLC checks every position against the solitary analysis (table fingerprints over float limbs) and finds an interleaving of the per-process worker logs that the specification allows.',
        design_ref='6/C11',
        note='fork start method; T <= 5 tasks, W <= 4 workers exhaustively (thorough 6/6); completion orders are induced by delays and reported from timestamps but never used for judging.'),
    'C12': dict(
        technique=TECH + 'model checking of the pool with the placement arithmetic (Reshape / Transpose) as invariants, replay on the real compute_features_3d / BycycleGroup.fit over shapes x axis modes x option-list shapes x n_jobs under injected delays, and TLC trace validation (Trace_Pool) placing the per-task references with the specification\'s own index arithmetic',
        text='For axis (0,1) the flat task list is reshaped with (i-1)*n1 + j, for axis 1 the per-column results are transposed back, for axis 0 rows are epoched analyses; TLC proves the arithmetic for all shapes up to 3x3 on every interleaving and compares every [i][j] of real runs (shapes incl. n0 != n1 and size-1 dimensions, shared / 1-D / 2-D lists, progress on/off, group API with models mirrored) against references computed per task.',
        design_ref='6/C12',
        note='axis 0 / 1 references are real compute_features_2d(axis=None) calls on the slice (covered by C13); shapes to 3x3 (thorough adds 2x4, 4x2).'),
    'C13': dict(
        technique=TECH + 'exhaustive small-scope model checking (MC_Tables, mode epoch) with indexed conformance of the real epoch_df, plus trace validation (Trace_Tables) of epoch_df and compute_features_2d(axis=None) against Epoch(Analyze(flattened)) and the per-epoch relabelling rule',
        text='Epoch assignment by the closing side extremum in ((e-1)L, eL], order, shift and unchanged feature values (fingerprints of float limbs); Partition / exactly-one-epoch are TLC invariants of the model on every small table x epoch length and the real epoch_df agrees on each; recorded axis=None runs (single option set: labels of the flattened analysis; per-epoch list: each epoch re-labelled by the rule on rank codes; repeated call with shared option objects; empty epochs; boundary-coinciding extrema) are judged by TLC.',
        design_ref='6/C13',
        note='the flattened reference analysis is the real compute_features on the concatenated signal (itself covered by C01-C07); exhaustive to 8 (thorough 10) samples.'),
    'C18': dict(
        technique=TECH + 'exhaustive small-scope model checking (MC_Tables, mode limit) with the real limit_df / limit_signal judged on every table x window, plus trace validation (Trace_Tables) of limit_df, limit_signal, split/drop_samples_df and flatten_dfs on analysis tables',
        text='LimitOK states bounds (everything entirely inside [start, stop] is returned, nothing entirely outside, order and feature fingerprints preserved, one common offset on reset) rather than one answer; TLC proves them for the model and evaluates them on the real outputs for all small tables x windows on the half-sample grid (either limit None) x reset x centring, and on recorded calls incl. 1-D / 2-D flatten lists.',
        design_ref='6/C18',
        note='window limits are on the half-sample grid; at sampling rates that are not powers of two they are given half a sample off the grid or exactly ON sample times, and in the latter case windows with fs*(s/fs) != s carry their own class (the former finding F15b, repaired in ebc87d0, would show there); flatten_dfs results must not change through later calls on the same tables.'),
    'C14': dict(
        technique=TECH + 'model checking of the Session state machine (heap of aliased option dictionaries, objects, histories) incl. negative controls, TLC-generated behaviours replayed on real Bycycle objects, and TLC trace validation (Trace_Session) binding every recorded event to the Session action; group models via Trace_Pool; group histories by model checking GroupSession.tla, replay on a real BycycleGroup and trace validation (Trace_GroupSession)',
        text='Session.tla: HeapIsIntent, NoStale and OnlyEditsWrite hold for all histories to the depth bound and the pinned tree\'s write-back deviation violates them. Behaviours simulated by TLC from the same specification are replayed on real objects sharing real dictionaries; TLC compares after every action the recorded dictionary contents with the specified heap, the fitted table with the functional analysis for the settings as the user wrote them, recompute_edges(r) with the functional recomputation, attribute access and load; BycycleGroup.models are checked position by position for 2-D / 3-D arrays and every axis mode. GroupSession.tla models one BycycleGroup with re-bound / edited threshold dictionaries, fits of three stacks in every axis mode and edge recomputations (invariants Mirror, UsesCurrentSettings, HeapIsIntent; the former behaviours D22 / D17 as negative controls); TLC-simulated group sessions are replayed on a real BycycleGroup and judged by Trace_GroupSession (the reference settings must be those of the specification).',
        design_ref='6/C14',
        note='analyses are abstracted to effective-parameter vectors in the model; in the replay equality of analyses is equality of table fingerprints over float limbs; option domain: six dictionaries (two per method, burst options, extrema options), min_n_cycles absent/2/3, two threshold levels, both methods and centrings, re-binding, two signals, shorthand threshold names, default vs explicit extrema options.'),
    'C15': dict(
        technique=TECH + 'the same Session model checking and replay as C14, with functional-API calls (12 functions incl. the group functions and plotting) sharing the signal array, option dictionaries, per-signal option lists and tables; Trace_Session checks argument fingerprints before/after every call and identity of repeated results',
        text='Call(f, ...) in Session.tla leaves the heap unchanged; for every recorded call TLC requires the recorded dictionary contents to equal the specified heap, the pre- and post-call fingerprints of signal / dictionaries / outer option lists / input table to coincide, and the result fingerprint to equal that of every earlier call of the same function on the same argument values, whatever happened in between (fits, edits, other calls).',
        design_ref='6/C15',
        note='functions covered: compute_features, compute_shape_features, compute_burst_features, recompute_edges (with and without bursts), limit_df, epoch_df, drop_samples_df, plot_burst_detect_summary, compute_features_2d (axis 0 and None), compute_features_3d; C16/C18 additionally check untouched inputs of recompute_edges / limit_df / drop_samples_df on the corpus.'),
    'C16': dict(
        technique=TECH + 'exhaustive small-scope stage machine (MC_Edges: features -> Label -> Recompute -> Relabel) with indexed conformance of the real recompute_edges chain, plus trace validation (Trace_Edges) of recompute_edges / Bycycle.recompute_edges on labelled tables of generated signals',
        text='Edge cycles from label transitions, one-sided consistencies as exact rationals (either value in a one-cycle gap), everything else bit-identical, labels = rule on rank codes of the output table, Grows(old,new) and superset under lowered thresholds; TLC proves Grows / only-edges / one-sided >= two-sided for the model on all small tables, compares the real chain on each, and judges every recorded call (same / lowered / changed thresholds, functional and object API, both centrings).',
        design_ref='6/C16',
        note='one open known finding (F12: peak-centred tables without sample columns); exhaustive part: 4-5 cycles over a 2-level domain.'),
    'C20': dict(
        technique=TECH + 'exhaustive small-scope enumeration by TLC (MC_Plots: every small table x window x plot mode, the drawing of the real function looked up per point) and TLC trace validation (Trace_Plots) of recorded plotting calls under the Agg backend, both against the bounds of Plots.tla',
        text='Plots.tla states bounds in sample units (drawn markers are genuine cyclepoints of their kind at the plotted signal\'s value and every required cyclepoint strictly inside the view is drawn by the cyclepoint plots; highlighted samples lie in burst cycles and cover every completely displayed burst cycle; panel vertices are genuine (centre | side, value) pairs, every cycle completely in view is shown, threshold line at the threshold). The harness maps artist data of plot_cyclepoints_df/_array, plot_burst_detect_param, plot_burst_detect_summary and Bycycle.plot back to samples; TLC enumerates every side-extremum set x centring x window x plot mode on 7 (thorough 9) samples and judges the recorded drawing of each point, and judges every recorded call on analysis tables of generated signals over windows on the sample grid, flags and both centrings; markers and the highlighted trace must lie on the signal line as actually drawn.',
        design_ref='6/C20',
        note='artist data, not pixels; x-limits whose product with fs is inexact (fs not a power of two) carry their own class (the former finding F15, repaired in ebc87d0); small scope: tables to 7 (9) samples with synthetic parameter columns.'),
    'C19': dict(
        technique=TECH + 'exhaustive enumeration by TLC (MC_Kwargs) of the documented decision tables (array shape x axis x option-list shape; every parameter at / inside / outside its range at every entry point) with the outcome of the real entry point looked up for every point',
        text='KwargsShape.tla is the documented accept/reject table; TLC enumerates the complete grid (extents 1..3, 7 axis values, None/dict/1-D/2-D/3-D lists; ~250 parameter points over 25 entry points, ASSUMEs force the harness to probe every position of every parameter) and requires "returns" where the table accepts and exactly ValueError where it rejects, for check_kwargs_shape, compute_features_2d/3d, BycycleGroup.fit and the single-signal entry points.',
        design_ref='6/C19',
        note='finite grids, exhaustive: true; accepted list shapes are checked for correct pairing by C11/C12; limit_df(fs=0) is not claimed either way.'),
    'C17': dict(
        technique=TECH + 'exhaustive small-scope model checking (MC_Phase) over every valid cyclepoint placement with the real extrema_interpolated_phase judged on each, plus trace validation (Trace_Phase) on cyclepoints of generated signals',
        text='Phase model in exact quarter-turn rationals (anchors with extrema overriding midpoints, linear advance, wrap only at troughs, NaN outside the span); TLC proves the four statements of C17 for the model on every placement up to the bound and evaluates the same four statements on order-isomorphic rank codes of the real function\'s output for every placement and for recorded calls on generated cyclepoints (any boundary, first_extrema, with/without midpoints).',
        design_ref='6/C17',
        note='exhaustive to 10 (thorough 13) samples; the implementation is judged by the property\'s statements, not by equality with the model\'s linear interpolation (only noted).'),
    'C08': dict(
        technique=TECH + 'exhaustive small-scope model checking with indexed conformance (IX) of the real function, plus TLC trace validation of recorded calls on long arrays',
        text='TLC enumerates every boolean array up to length 11 (thorough 15) x every min_n_cycles, runs a scanning state machine, '
             'checks C08 and the agreement of three definitions on the specification, and compares each result with the output of the '
             'real check_min_burst_cycles for the same input (exhaustive within the bound); recorded calls on random arrays to length '
             '2000 are judged by Trace_RunFilter. Exhaustive small scope + sampled large scope is the strongest level this pure function admits short of a proof.',
        design_ref='6/C08',
        note='TLC, the CommunityModules Json/Folds overrides and the bit-mask projection are trusted; beyond the length bound coverage is sampled.'),
}

PENDING_REASON = 'check not built yet (work in progress in this round; the design in DESIGN.md section 6 applies)'
