"""Indexed exhaustive conformance tables for MC_Shape, MC_BurstFeat, MC_Detect, MC_Amp: the REAL feature / detection
functions run on every input of the model's small-scope space, in the order of the model's mixed-radix Index."""
import itertools
import os
from multiprocessing import Pool

import numpy as np
import pandas as pd

import interpose
import project as pj

_CUR = {}
NPROC = min(16, os.cpu_count() or 4)


def _pool_map(fn, jobs):
    with Pool(NPROC) as p:
        parts = p.map(fn, jobs)
    out = []
    for x in parts:
        out.extend(x)
    return out


def _chunks(n, per=None):
    step = per or max(1, n // (NPROC * 4))
    return [(lo, min(n, lo + step)) for lo in range(0, n, step)]


# ----------------------------------------------------------------------------------------------- MC_Shape
def valid_places(ns):
    out = []
    for p in itertools.product(range(ns), repeat=6):
        if p[0] <= p[1] <= p[2] <= p[3] <= p[4] <= p[5] and p[1] < p[3] < p[5]:
            out.append(list(p))
    return out


def _stub_cyclepoints(sig, fs, f_range, **kw):
    p = _CUR['place']
    return pd.DataFrame({'sample_peak': [p[3]], 'sample_last_zerox_decay': [p[0]], 'sample_zerox_decay': [p[4]],
                         'sample_zerox_rise': [p[2]], 'sample_last_trough': [p[1]], 'sample_next_trough': [p[5]]})


def _stub_amp(sig, fs, f_range, **kw):
    return _CUR['amp']


SHAPE_INT = ['period', 'time_rise', 'time_decay', 'time_peak', 'time_trough', 'volt_peak', 'volt_trough', 'volt_rise', 'volt_decay']
BAD_SHAPE = {'ok': 0}


def _shape_chunk(args):
    ns, v, lo, hi, places = args
    from bycycle.features.cyclepoints import compute_cyclepoints
    from bycycle.features import compute_shape_features
    from bycycle.features.burst import compute_monotonicity
    t = interpose.neurodsp_targets()
    out = []
    with interpose.replaced({compute_cyclepoints: _stub_cyclepoints, t['amp_by_time']: _stub_amp}):
        for si in range(lo, hi):
            sig = np.array([(si // (v + 1) ** j) % (v + 1) for j in range(ns)], dtype=float)
            _CUR['amp'] = np.array([(2 * int(sig[j]) + (j + 1)) % 4 for j in range(ns)], dtype=float)
            for p in places:
                _CUR['place'] = p
                for peak in (0, 1):
                    try:
                        df = compute_shape_features(sig.copy(), 100, (8, 12), center_extrema='peak' if peak else 'trough')
                        mono = compute_monotonicity(df, sig.copy())
                        r = df.iloc[0]
                        e = [1]
                        for c in SHAPE_INT:
                            x = float(r[c])
                            e.append(int(x) if x == int(x) else 999999999)
                        x = 2 * float(r['volt_amp'])
                        e.append(int(x) if x == int(x) else 999999999)
                        for c in ('time_rdsym', 'time_ptsym', 'band_amp'):
                            e.extend(pj.rat(r[c], D=1000))
                        e.extend(pj.rat(mono[0], D=1000))
                        out.extend(e)
                    except Exception:
                        out.extend([0] * 19)
    return out


def shape_table(ns, v):
    places = valid_places(ns)
    nsig = (v + 1) ** ns
    tab = _pool_map(_shape_chunk, [(ns, v, lo, hi, places) for lo, hi in _chunks(nsig)])
    return {'places': places, 'table': tab}, nsig * len(places) * 2


# ----------------------------------------------------------------------------------------------- MC_BurstFeat
def _bf_chunk(args):
    nr, vlo, vhi, pmax, lo, hi = args
    from bycycle.features.burst import compute_amp_fraction, compute_amp_consistency, compute_period_consistency
    w = vhi - vlo + 1
    base = w * w * pmax
    out = []
    for ti in range(lo, hi):
        R, D, P = [], [], []
        x = ti
        for k in range(nr):
            d = x % base
            x //= base
            P.append(d % pmax + 1)
            d //= pmax
            D.append(d % w + vlo)
            R.append(d // w + vlo)
        for peak in (0, 1):
            df = pd.DataFrame({'volt_rise': np.array(R, dtype=float), 'volt_decay': np.array(D, dtype=float),
                               'period': np.array(P, dtype=int), 'volt_amp': (np.array(R, dtype=float) + np.array(D, dtype=float)) / 2})
            df['sample_peak' if peak else 'sample_trough'] = np.arange(nr)
            df = pj.relabel(df, ti + peak)          # row labels are not part of the abstract table
            try:
                e = [1]
                for x_ in np.asarray(compute_amp_fraction(df)):
                    e.extend(pj.rat(x_, D=1000))
                for fn in (compute_amp_consistency, compute_period_consistency):
                    for d_ in ('both', 'next', 'last'):
                        for x_ in fn(df, direction=d_):
                            e.extend(pj.rat(x_, D=1000))
                if len(e) != 1 + 14 * nr:
                    e = [0] * (1 + 14 * nr)
            except Exception:
                e = [0] * (1 + 14 * nr)
            out.extend(e)
    return out


def burstfeat_table(nr, vlo, vhi, pmax):
    w = vhi - vlo + 1
    ntab = (w * w * pmax) ** nr
    tab = _pool_map(_bf_chunk, [(nr, vlo, vhi, pmax, lo, hi) for lo, hi in _chunks(ntab)])
    return tab, ntab * 2


# ----------------------------------------------------------------------------------------------- MC_Detect
PROFILES = [(2, 2, 2, 2), (1, 2, 2, 2), (2, 1, 2, 2), (2, 2, 1, 2), (2, 2, 2, 1), (0, 2, 2, 2), (2, -1, 2, 2), (2, 2, 0, 0),
            (-1, -1, -1, -1), (1, 1, 1, 1)]
THR = 0.5
CODE_VAL = {0: float(np.nextafter(THR, 0.0)), 1: THR, 2: float(np.nextafter(THR, 1.0)), -1: float('nan')}
FEAT4 = ['amp_fraction', 'amp_consistency', 'period_consistency', 'monotonicity']


def _det_chunk(args):
    nr, lo, hi = args
    from bycycle.burst import detect_bursts_cycles
    npf = len(PROFILES)
    out = []
    for ti in range(lo, hi):
        prof, x = [], ti
        for k in range(nr):
            prof.append(x % npf)
            x //= npf
        cols = {f: [CODE_VAL[PROFILES[p][j]] for p in prof] for j, f in enumerate(FEAT4)}
        for m in range(nr + 2):
            try:
                df = detect_bursts_cycles(pj.relabel(pd.DataFrame(cols), ti + m), amp_fraction_threshold=THR, amp_consistency_threshold=THR,
                                          period_consistency_threshold=THR, monotonicity_threshold=THR, min_n_cycles=m)
                lab = np.asarray(df['is_burst'].values, dtype=bool)
                out.append(int(sum(1 << i for i in range(len(lab)) if lab[i])) if len(lab) == nr else -2)
            except Exception:
                out.append(-1)
    return out


def detect_table(nr):
    ntab = len(PROFILES) ** nr
    tab = _pool_map(_det_chunk, [(nr, lo, hi) for lo, hi in _chunks(ntab)])
    return tab, ntab * (nr + 2)


# ----------------------------------------------------------------------------------------------- MC_Amp
AMP_THR = [0.0, 1.0 / 3.0, 0.5, 1.0]


def _stub_dual(sig, fs, dual_thresh, f_range, **kw):
    return _CUR['mask']


def _amp_chunk(args):
    ns, max_m, lo, hi = args
    from bycycle.features.burst import compute_burst_fraction
    from bycycle.burst import detect_bursts_amp
    t = interpose.neurodsp_targets()
    out, fout = [], []
    with interpose.replaced({t['detect_bursts_dual_threshold']: _stub_dual}):
        for mm in range(lo, hi):
            mask = np.array([(mm >> j) & 1 for j in range(ns)], dtype=bool)
            _CUR['mask'] = mask
            for sm in range(1 << ns):
                sides = [j for j in range(ns) if (sm >> j) & 1]
                if len(sides) < 2:
                    out.extend([0] * (len(AMP_THR) * (max_m + 1)))
                    fout.extend([0] * ns)
                    continue
                df = pj.relabel(pd.DataFrame({'sample_last_trough': sides[:-1], 'sample_next_trough': sides[1:], 'sample_peak': sides[:-1]}), mm + sm)
                try:
                    fr = compute_burst_fraction(df, np.zeros(ns), 100, (8, 12))
                    frp = [pj.rat(x, D=1000) for x in fr]
                    okf = 1 if len(frp) == len(sides) - 1 else 0
                except Exception:
                    fr, frp, okf = [], [], 0
                fe = [okf] + [(r[0] * 16 + r[1]) if 0 <= r[1] < 16 else -7 for r in frp]
                fout.extend((fe + [-1] * ns)[:ns])
                for thr in AMP_THR:
                    for m in range(max_m + 1):
                        if not okf:
                            out.append(-1)
                            continue
                        try:
                            d2 = detect_bursts_amp(pj.relabel(pd.DataFrame({'burst_fraction': list(fr)}), sm + m), burst_fraction_threshold=thr, min_n_cycles=m)
                            lab = np.asarray(d2['is_burst'].values, dtype=bool)
                            out.append(int(sum(1 << i for i in range(len(lab)) if lab[i])))
                        except Exception:
                            out.append(-1)
    return [(out, fout)]


def amp_table(ns, max_m):
    nmask = 1 << ns
    parts = _pool_map(_amp_chunk, [(ns, max_m, lo, hi) for lo, hi in _chunks(nmask, per=max(1, nmask // 64))])
    lab, frac = [], []
    for o, f in parts:
        lab.extend(o)
        frac.extend(f)
    n_cases = nmask * ((1 << ns) - ns - 1) * len(AMP_THR) * (max_m + 1)
    return {'lab': lab, 'frac': frac}, n_cases


# ----------------------------------------------------------------------------------------------- MC_Edges
EDGE_THR = [1.0 / 3.0, 0.5]


def _edges_chunk(args):
    nr, pmax, lo, hi = args
    from bycycle.features.burst import compute_amp_consistency, compute_period_consistency
    from bycycle.burst import detect_bursts_cycles
    from bycycle.burst.utils import recompute_edges
    K = 3 + 4 * nr
    out = []
    for ti_ in range(lo, hi):
        R, D, P, B = [], [], [], []
        x = ti_
        for k in range(nr):
            interior = 0 < k < nr - 1
            base = 4 * pmax * (2 if interior else 1)
            d = x % base
            x //= base
            if interior:
                B.append(d % 2)
                d //= 2
            else:
                B.append(0)
            P.append(d % pmax + 1)
            d //= pmax
            D.append(d % 2 + 1)
            R.append(d // 2 + 1)
        for t in EDGE_THR:
            for m in (1, 2):
                for peak in (0, 1):
                    try:
                        df = pd.DataFrame({'volt_rise': np.array(R, dtype=float), 'volt_decay': np.array(D, dtype=float), 'period': np.array(P, dtype=int),
                                           'volt_amp': (np.array(R, dtype=float) + np.array(D, dtype=float)) / 2,
                                           'amp_fraction': [0.1 if b else 0.9 for b in B], 'monotonicity': [0.9] * nr})
                        df['sample_peak' if peak else 'sample_trough'] = np.arange(nr)
                        df = pj.relabel(df, ti_ + m + peak)
                        df['amp_consistency'] = compute_amp_consistency(df)
                        df['period_consistency'] = compute_period_consistency(df)
                        thr = {'amp_fraction_threshold': 0.5, 'amp_consistency_threshold': t, 'period_consistency_threshold': t,
                               'monotonicity_threshold': 0.5, 'min_n_cycles': m}
                        df = detect_bursts_cycles(df, **thr)
                        old = np.asarray(df['is_burst'].values, dtype=bool)
                        res = recompute_edges(df, thr)
                        new = np.asarray(res['is_burst'].values, dtype=bool)
                        e = [1, int(sum(1 << i for i in range(nr) if old[i])), int(sum(1 << i for i in range(nr) if new[i]))]
                        for c in ('amp_consistency', 'period_consistency'):
                            for v in res[c].values:
                                e.extend(pj.rat(v, D=1000))
                        out.extend(e if len(e) == K else [0] * K)
                    except Exception:
                        out.extend([0] * K)
    return out


def edges_table(nr, pmax):
    ntab = ((4 * pmax) ** nr) * (2 ** (nr - 2))
    tab = _pool_map(_edges_chunk, [(nr, pmax, lo, hi) for lo, hi in _chunks(ntab)])
    return tab, ntab * 8


# ----------------------------------------------------------------------------------------------- MC_Pipeline (end to end)
def _stub_extrema(sig, fs, f_range, **kw):
    p = _CUR['place']
    return np.array(p[0::2], dtype=int), np.array(p[1::2], dtype=int)


PIPE_THR = {'amp_fraction_threshold': 0.25, 'amp_consistency_threshold': 0.5, 'period_consistency_threshold': 0.5, 'monotonicity_threshold': 0.5, 'min_n_cycles': 1}
PIPE_INT = ['period', 'time_rise', 'time_decay', 'time_peak', 'time_trough', 'volt_peak', 'volt_trough', 'volt_rise', 'volt_decay']
PIPE_RAT = ['time_rdsym', 'time_ptsym', 'band_amp', 'amp_fraction', 'amp_consistency', 'period_consistency', 'monotonicity']


def _pipe_chunk(args):
    ns, v, ne, lo, hi, places = args
    import warnings
    from bycycle.cyclepoints import find_extrema
    from bycycle.features import compute_features
    import record
    t = interpose.neurodsp_targets()
    nr = ne // 2 - 1
    K = 2 + nr * 31
    out = []
    with interpose.replaced({find_extrema: _stub_extrema, t['amp_by_time']: _stub_amp}), warnings.catch_warnings():
        warnings.simplefilter('ignore')
        for si in range(lo, hi):
            sig = np.array([(si // (v + 1) ** j) % (v + 1) for j in range(ns)], dtype=float)
            _CUR['amp'] = np.array([(2 * int(sig[j]) + (j + 1)) % 4 for j in range(ns)], dtype=float)
            for p in places:
                _CUR['place'] = p
                for peak in (0, 1):
                    try:
                        df = compute_features(sig.copy(), 100, (8, 12), center_extrema='peak' if peak else 'trough', threshold_kwargs=dict(PIPE_THR))
                        roles = record.PEAK_ROLES if peak else record.TROUGH_ROLES
                        e = [1, len(df)]
                        for r in df.to_dict('records'):
                            e.extend(int(r[roles[k]]) for k in ('lastzx', 'last', 'zx1', 'centre', 'zx2', 'next'))
                            e.append(1 if r['is_burst'] else 0)
                            for c in PIPE_INT:
                                x = float(r[c])
                                e.append(int(x) if x == int(x) else 999999999)
                            x = 2 * float(r['volt_amp'])
                            e.append(int(x) if x == int(x) else 999999999)
                            for c in PIPE_RAT:
                                e.extend(pj.rat(r[c], D=1000))
                        out.extend(e if len(e) == K else [0] * K)
                    except Exception:
                        out.extend([0] * K)
    return out


def pipeline_table(ns, v, ne):
    places = [list(p) for p in itertools.combinations(range(ns), ne)]
    nsig = (v + 1) ** ns
    tab = _pool_map(_pipe_chunk, [(ns, v, ne, lo, hi, places) for lo, hi in _chunks(nsig)])
    return {'places': places, 'table': tab}, nsig * len(places) * 2
