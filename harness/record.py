"""Record one execution of the real pipeline as a trace case for Trace_Pipeline.

Linearization points of this sequential library are the returns (or raises) of public calls; in addition the
calls bycycle makes into neurodsp and into its own stage functions find_extrema / find_zerox are observed by
identity-scan interposition (interpose.py).  neurodsp's outputs are passed through unchanged, except that
amp_by_time's output is rounded to the run's dyadic grid (DESIGN.md section 5, rule 9) so that band_amp is
an exact rational of the logged integers.
"""
import math

import numpy as np

import interpose
import project as pj

OFFGRID = 999999999

PEAK_ROLES = {'last': 'sample_last_trough', 'lastzx': 'sample_last_zerox_decay', 'zx1': 'sample_zerox_rise',
              'centre': 'sample_peak', 'zx2': 'sample_zerox_decay', 'next': 'sample_next_trough'}
TROUGH_ROLES = {'last': 'sample_last_peak', 'lastzx': 'sample_last_zerox_rise', 'zx1': 'sample_zerox_decay',
                'centre': 'sample_trough', 'zx2': 'sample_zerox_rise', 'next': 'sample_next_peak'}
ROLE_ORDER = ['last', 'lastzx', 'zx1', 'centre', 'zx2', 'next']
INT_COLS = ['period', 'time_peak', 'time_trough', 'time_decay', 'time_rise']
VOLT_COLS = ['volt_peak', 'volt_trough', 'volt_decay', 'volt_rise']
RAT_SHAPE = ['time_rdsym', 'time_ptsym', 'band_amp']
FEAT4 = ['amp_fraction', 'amp_consistency', 'period_consistency', 'monotonicity']


def qarr(a, e):
    out = []
    for x in np.asarray(a, dtype=float):
        d = pj.dyadic(x, e)
        out.append(OFFGRID if d is None else d)
    return out


def frat(x):
    return pj.rat(x, D=1000)


class Recorder:
    """Wrappers for the neurodsp boundary and the internal stage functions; one instance per recorded call."""

    def __init__(self, e, stub=None):
        self.e = e
        self.stub = stub or {}
        self.t = interpose.neurodsp_targets()
        self.ev = {'filt': [], 'flen': [], 'amp': [], 'dt': [], 'ext': [], 'zx': []}

    def mapping(self):
        from bycycle.cyclepoints import find_extrema, find_zerox
        self._fe, self._fz = find_extrema, find_zerox
        return {self.t['filter_signal']: self.filter_signal, self.t['compute_filter_length']: self.compute_filter_length,
                self.t['amp_by_time']: self.amp_by_time, self.t['detect_bursts_dual_threshold']: self.dual,
                find_extrema: self.find_extrema, find_zerox: self.find_zerox}

    def nd_mapping(self):
        return {self.t['filter_signal']: self.filter_signal, self.t['compute_filter_length']: self.compute_filter_length,
                self.t['amp_by_time']: self.amp_by_time, self.t['detect_bursts_dual_threshold']: self.dual}

    def filter_signal(self, sig, fs, pass_type, f_range, *a, **kw):
        out = self.stub['filt'](sig) if 'filt' in self.stub else self.t['filter_signal'](sig, fs, pass_type, f_range, *a, **kw)
        fr = f_range if isinstance(f_range, (tuple, list, np.ndarray)) else (f_range, f_range)
        self.ev['filt'].append({'fs': frat(fs), 'flo': frat(fr[0]), 'fhi': frat(fr[1]), 'pass_type': str(pass_type),
                                'remove_edges': bool(kw.get('remove_edges', True)),
                                'ncyc': frat(kw['n_cycles']) if kw.get('n_cycles') is not None else pj.NAN,
                                'nsec': pj.rat(kw['n_seconds'], D=100000) if kw.get('n_seconds') is not None else pj.NAN,
                                'extra': sorted(k for k in kw if k not in ('remove_edges', 'n_cycles', 'n_seconds')),
                                'nargs': len(a),
                                'input': qarr(sig, self.e),
                                'pos': [bool(x > 0) for x in np.asarray(out)],
                                'nan': bool(np.isnan(np.asarray(out, dtype=float)).any())})
        return out

    def compute_filter_length(self, fs, pass_type, f_lo, f_hi, n_cycles=None, n_seconds=None):
        L = self.stub['flen'] if 'flen' in self.stub else self.t['compute_filter_length'](fs, pass_type, f_lo, f_hi, n_cycles=n_cycles, n_seconds=n_seconds)
        self.ev['flen'].append({'fs': frat(fs), 'flo': frat(f_lo), 'fhi': frat(f_hi), 'pass_type': str(pass_type),
                                'ncyc': frat(n_cycles) if n_cycles is not None else pj.NAN,
                                'nsec': pj.rat(n_seconds, D=100000) if n_seconds is not None else pj.NAN, 'L': int(L)})
        return L

    def amp_by_time(self, sig, fs, f_range, *a, **kw):
        if 'amp' in self.stub:
            amp = np.asarray(self.stub['amp'](sig), dtype=float)
        else:
            amp = np.asarray(self.t['amp_by_time'](sig, fs, f_range, *a, **kw), dtype=float)
        grid = 2.0 ** self.e
        ints = np.round(amp / grid)
        ints = np.where(np.isfinite(ints), ints, 0)
        self.ev['amp'].append({'fs': frat(fs), 'flo': frat(f_range[0]), 'fhi': frat(f_range[1]),
                               'remove_edges': bool(kw.get('remove_edges', True)),
                               'ncyc': frat(kw['n_cycles']) if kw.get('n_cycles') is not None else pj.NAN,
                               'extra': sorted(k for k in kw if k not in ('remove_edges', 'n_cycles')), 'nargs': len(a),
                               'input': qarr(sig, self.e), 'vals': [int(x) for x in ints]})
        return ints * grid

    def dual(self, sig, fs, dual_thresh, f_range, *a, **kw):
        out = self.stub['mask'](sig) if 'mask' in self.stub else self.t['detect_bursts_dual_threshold'](sig, fs, dual_thresh, f_range, *a, **kw)
        mnc = kw.get('min_n_cycles', 3)
        mbd = kw.get('min_burst_duration', None)
        self.ev['dt'].append({'fs': frat(fs), 'flo': frat(f_range[0]), 'fhi': frat(f_range[1]),
                              'thr_lo': pj.rat(dual_thresh[0], D=1000), 'thr_hi': pj.rat(dual_thresh[1], D=1000),
                              'mnc': -1 if mnc is None else int(mnc),
                              'mbd': pj.NAN if mbd is None else pj.rat(mbd, D=100000),
                              'ncyc': frat(kw['n_cycles']) if kw.get('n_cycles') is not None else pj.NAN,
                              'extra': sorted(k for k in kw if k not in ('min_n_cycles', 'min_burst_duration', 'n_cycles')),
                              'nargs': len(a), 'input': qarr(sig, self.e), 'mask': [bool(x) for x in np.asarray(out)]})
        return out

    def find_extrema(self, *a, **kw):
        p, t = self._fe(*a, **kw)
        self.ev['ext'].append({'pk': [int(x) for x in p], 'tr': [int(x) for x in t]})
        return p, t

    def find_zerox(self, *a, **kw):
        r, d = self._fz(*a, **kw)
        self.ev['zx'].append({'rs': [int(x) for x in r], 'dc': [int(x) for x in d]})
        return r, d


def _one(lst, empty):
    return dict(lst[0], seen=True, count=len(lst)) if lst else dict(empty, seen=False, count=0)


EMPTY = {
    'filt': {'fs': pj.NAN, 'flo': pj.NAN, 'fhi': pj.NAN, 'pass_type': '', 'remove_edges': False, 'ncyc': pj.NAN, 'nsec': pj.NAN,
             'extra': [], 'nargs': 0, 'input': [], 'pos': [], 'nan': False},
    'flen': {'fs': pj.NAN, 'flo': pj.NAN, 'fhi': pj.NAN, 'pass_type': '', 'ncyc': pj.NAN, 'nsec': pj.NAN, 'L': 0},
    'amp': {'fs': pj.NAN, 'flo': pj.NAN, 'fhi': pj.NAN, 'remove_edges': False, 'ncyc': pj.NAN, 'extra': [], 'nargs': 0, 'input': [], 'vals': []},
    'dt': {'fs': pj.NAN, 'flo': pj.NAN, 'fhi': pj.NAN, 'thr_lo': pj.NAN, 'thr_hi': pj.NAN, 'mnc': -1, 'mbd': pj.NAN, 'ncyc': pj.NAN, 'extra': [],
           'nargs': 0, 'input': [], 'mask': []},
    'ext': {'pk': [], 'tr': []},
    'zx': {'rs': [], 'dc': []},
}


def table_rows(df, e, center, method, thr, max_den):
    """Project a feature table to rows of small integers / rationals / rank codes."""
    roles = PEAK_ROLES if center == 'peak' else TROUGH_ROLES
    cols = list(df.columns)
    n = len(df)

    def col(name):
        return df[name].values if name in df.columns else None

    rows = [dict() for _ in range(n)]
    has_samples = all(c in df.columns for c in roles.values())
    for role in ROLE_ORDER:
        v = col(roles[role])
        for i in range(n):
            rows[i][role] = int(v[i]) if v is not None and float(v[i]) == int(v[i]) else OFFGRID
    for c in INT_COLS:
        v = col(c)
        for i in range(n):
            rows[i][c] = int(v[i]) if v is not None and float(v[i]) == int(v[i]) else OFFGRID
    for c in VOLT_COLS:
        v = col(c)
        for i in range(n):
            d = pj.dyadic(v[i], e) if v is not None else None
            rows[i][c] = OFFGRID if d is None else d
    v = col('volt_amp')
    for i in range(n):
        d = pj.dyadic(2 * v[i], e) if v is not None else None
        rows[i]['volt_amp2'] = OFFGRID if d is None else d
    for c in RAT_SHAPE:
        v = col(c)
        for i in range(n):
            if v is None:
                rows[i][c] = pj.INEXACT
            elif c == 'band_amp':
                rows[i][c] = pj.rat(v[i] / (2.0 ** e), D=max_den)
            else:
                rows[i][c] = pj.rat(v[i], D=max_den)
    bcols = FEAT4 if method == 'cycles' else ['burst_fraction']
    for c in bcols:
        v = col(c)
        tname = c + '_threshold'
        codes, tcode = pj.rank_codes(v if v is not None else [float('nan')] * n, [thr.get(tname, float('nan'))])
        for i in range(n):
            rows[i][c] = pj.rat(v[i], D=max_den) if v is not None else pj.INEXACT
            rows[i][c + '_code'] = codes[i]
        thr_codes = tcode[0]
        rows and rows[0].setdefault('_thr', {})
        if rows:
            rows[0]['_thr'][c] = thr_codes
    v = col('is_burst')
    for i in range(n):
        rows[i]['is_burst'] = bool(v[i]) if v is not None else False
    thr_codes = rows[0].pop('_thr') if rows else {}
    return cols, rows, thr_codes, has_samples


DEFAULT_THR = {'amp_fraction_threshold': 0., 'amp_consistency_threshold': .5, 'period_consistency_threshold': .5,
               'monotonicity_threshold': .8, 'burst_fraction_threshold': 1}


def expected_columns(center, method, rs):
    base = ['period', 'time_peak', 'time_trough', 'volt_peak', 'volt_trough', 'time_decay', 'time_rise', 'volt_decay',
            'volt_rise', 'volt_amp', 'time_rdsym', 'time_ptsym', 'band_amp', 'is_burst']
    base += FEAT4 if method == 'cycles' else ['burst_fraction']
    if rs:
        base += list((PEAK_ROLES if center == 'peak' else TROUGH_ROLES).values())
    return sorted(base)


def record_compute_features(case, call=None, stub=None, opts_obj=None, repeat=1):
    """Run compute_features (or `call(sig, fs, f_range, **opts)`) on a generated case and return the trace case."""
    from bycycle.features import compute_features
    opts = {k: v for k, v in case['opts'].items()}
    sig, fs, f_range, e = case['sig'], case['fs'], case['f_range'], case['e']
    center, method = opts.get('center_extrema', 'peak'), opts.get('burst_method', 'cycles')
    rs = opts.get('return_samples', True)
    fek = opts.get('find_extrema_kwargs') or {}
    fk = fek.get('filter_kwargs')
    if opts.get('find_extrema_kwargs') is None:
        fk = {'n_cycles': 3}                 # documented default of compute_shape_features
    fk = fk or {}
    tk = dict(opts.get('threshold_kwargs') or {})
    bk = dict(opts.get('burst_kwargs') or {})
    rec = Recorder(e, stub)
    raised, df = '', None
    import copy
    opts_run = copy.deepcopy(opts) if opts_obj is None else opts_obj      # opts_obj: the caller's own (shared, possibly re-used) option objects
    sig_run = sig.copy()
    how = case.get('k', 0) % 11
    if how == 4 and repeat <= 1:
        sig_run.setflags(write=False)          # a read-only recording (memory-mapped file, array owned by another library)
    elif how == 8:
        big = np.concatenate([np.full(3, sig[0] if len(sig) else 0, dtype=sig.dtype), sig, np.full(5, sig[-1] if len(sig) else 0, dtype=sig.dtype)])
        sig_run = big[3:3 + len(sig)]           # a view into a longer recording
    with interpose.replaced(rec.mapping()):
        try:
            # repeat > 1: the user calls again with the SAME signal array and the SAME option objects; the LAST call is the one judged
            for rep in range(max(1, repeat)):
                for lst in rec.ev.values():
                    del lst[:]
                if repeat > 1 and case.get('k', 0) % 2 == 0:
                    # buffer reuse: the earlier call saw the SAME array object holding another recording (the time-reversed one); the
                    # array is refilled in place before the judged call - a result depends on the values of its arguments only
                    sig_run[:] = sig if rep == repeat - 1 else sig[::-1]
                df = (call or compute_features)(sig_run, fs, f_range, **opts_run)
                if rep < repeat - 1 and hasattr(df, 'columns') and case.get('k', 0) % 4 < 2:
                    # the user works on the table the earlier call returned (unit conversion in place, a dropped column): a returned table is a
                    # value of its own - the next call with the same arguments returns the analysis again, not the edited object
                    for col in [c_ for c_ in df.columns if not c_.startswith('sample_')][::2]:
                        df[col] = -7
                    if len(df.columns) > 3:
                        df.drop(columns=[df.columns[-1]], inplace=True)
        except Exception as ex:       # the raise is the event
            raised = type(ex).__name__ + ':' + str(ex)[:80]
    thr_full = dict(DEFAULT_THR)
    thr_full.update({k: v for k, v in tk.items() if k.endswith('_threshold')})
    out = {
        'op': 'compute_features', 'kind': case.get('kind', ''), 'n': int(len(sig)), 'sig': [int(x) for x in case['q']],
        'center': center, 'method': method, 'rs': bool(rs), 'B': int(fek.get('boundary', 0)), 'pad': bool(fek.get('pad', True)),
        'call': {'fs': frat(fs), 'flo': frat(f_range[0]), 'fhi': frat(f_range[1]),
                 'ncyc': frat(fk['n_cycles']) if fk.get('n_cycles') is not None else pj.NAN,
                 'nsec': pj.rat(fk['n_seconds'], D=100000) if fk.get('n_seconds') is not None else pj.NAN,
                 'pass_type': fek.get('pass_type', 'bandpass'),
                 'mnc_tk': int(tk['min_n_cycles']) if 'min_n_cycles' in tk else -1,
                 'bft': pj.rat(tk.get('burst_fraction_threshold', 1), D=1000, tol=0.0),
                 'mnc_bk': int(bk['min_n_cycles']) if 'min_n_cycles' in bk else -1,
                 'mbd': pj.rat(bk['min_burst_duration'], D=100000) if bk.get('min_burst_duration') is not None else pj.NAN,
                 'thr_lo': pj.rat(bk.get('amp_threshes', (1, 2))[0], D=1000), 'thr_hi': pj.rat(bk.get('amp_threshes', (1, 2))[1], D=1000),
                 'dt_ncyc': frat((bk.get('filter_kwargs') or {}).get('n_cycles')) if (bk.get('filter_kwargs') or {}).get('n_cycles') is not None else pj.NAN},
        'raised': raised,
        'filt': _one(rec.ev['filt'], EMPTY['filt']), 'flen': _one(rec.ev['flen'], EMPTY['flen']),
        'amp': _one(rec.ev['amp'], EMPTY['amp']), 'dt': _one(rec.ev['dt'], EMPTY['dt']),
        'ext': _one(rec.ev['ext'], EMPTY['ext']), 'zx': _one(rec.ev['zx'], EMPTY['zx']),
        'sig_untouched': bool(np.array_equal(sig_run, sig)), 'calls': int(max(1, repeat)),
    }
    if df is not None:
        max_den = 1000000
        cols, rows, thr_codes, has_samples = table_rows(df, e, center, method, thr_full, max_den)
        out.update({'has_table': True, 'cols': sorted(cols), 'exp_cols': expected_columns(center, method, rs),
                    'rows': rows, 'thr': thr_codes, 'has_samples': bool(has_samples)})
    else:
        out.update({'has_table': False, 'cols': [], 'exp_cols': expected_columns(center, method, rs), 'rows': [], 'thr': {},
                    'has_samples': False})
    for f in (FEAT4 + ['burst_fraction']):
        out['thr'].setdefault(f, -1)
    return out, df


def record_find_extrema(case, first, pad, boundary, filter_kwargs):
    """Direct find_extrema call followed by find_zerox on its result -> case for Trace_Extrema."""
    from bycycle.cyclepoints import find_extrema, find_zerox
    sig, fs, f_range, e = case['sig'], case['fs'], case['f_range'], case['e']
    rec = Recorder(e)
    fk = dict(filter_kwargs or {})
    raised, pk, tr = '', [], []
    zx = {'seen': False, 'raised': False, 'rs': [], 'dc': []}
    with interpose.replaced(rec.nd_mapping()):
        try:
            kw = {'boundary': boundary, 'first_extrema': first, 'pad': pad}
            if filter_kwargs is not None:
                kw['filter_kwargs'] = dict(filter_kwargs)
            p, t = find_extrema(sig.copy(), fs, f_range, **kw)
            pk, tr = [int(x) for x in p], [int(x) for x in t]
        except Exception as ex:
            raised = type(ex).__name__ + ':' + str(ex)[:80]
        if not raised and len(pk) + len(tr) >= 2 and len(pk) and len(tr):
            zx['seen'] = True
            try:
                r, d = find_zerox(sig.copy(), np.array(pk), np.array(tr))
                zx['rs'], zx['dc'] = [int(x) for x in r], [int(x) for x in d]
            except Exception:
                zx['raised'] = True
    return {
        'op': 'find_extrema', 'kind': case.get('kind', ''), 'n': int(len(sig)), 'sig': [int(x) for x in case['q']],
        'first': first if first is not None else 'none', 'pad': bool(pad), 'B': int(boundary),
        'call': {'fs': frat(fs), 'flo': frat(f_range[0]), 'fhi': frat(f_range[1]), 'pass_type': 'bandpass',
                 'ncyc': frat(fk['n_cycles']) if fk.get('n_cycles') is not None else pj.NAN,
                 'nsec': pj.rat(fk['n_seconds'], D=100000) if fk.get('n_seconds') is not None else pj.NAN},
        'raised': raised, 'filt': _one(rec.ev['filt'], EMPTY['filt']), 'flen': _one(rec.ev['flen'], EMPTY['flen']),
        'ext': {'pk': pk, 'tr': tr}, 'zx': zx,
    }
