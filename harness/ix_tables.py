"""Indexed conformance for MC_Tables: the real epoch_df / limit_df / limit_signal on every small table and window."""
import itertools
import os
from multiprocessing import Pool

import numpy as np
import pandas as pd

import project as pj

PEAK = ['sample_last_zerox_decay', 'sample_last_trough', 'sample_zerox_rise', 'sample_peak', 'sample_zerox_decay', 'sample_next_trough']
TROUGH = ['sample_last_zerox_rise', 'sample_last_peak', 'sample_zerox_decay', 'sample_trough', 'sample_zerox_rise', 'sample_next_peak']


def side_sets(ns):
    out = []
    for r in range(2, ns + 1):
        for s in itertools.combinations(range(ns), r):
            if all(s[k + 1] - s[k] >= 2 for k in range(len(s) - 1)):
                out.append(s)
    return out


def table_of(sides, peak=True):
    cols = PEAK if peak else TROUGH
    rows = []
    for k in range(len(sides) - 1):
        q, nx = sides[k], sides[k + 1]
        rows.append([q, q, q, q + 1, q + 1, nx])
    df = pd.DataFrame(rows, columns=cols)
    df['rowid'] = np.arange(1, len(rows) + 1)
    df['feat'] = 7.0 * np.arange(1, len(rows) + 1) + 1
    df['is_burst'] = False
    return df


def flat(df, peak=True):
    cols = PEAK if peak else TROUGH
    out = []
    for r in df.to_dict('records'):
        out.append(int(r['rowid']))
        out.extend(int(r[c]) for c in cols)
        out.append(int(r['feat']))
    return out


def mask(sides):
    return sum(1 << i for i in sides)


def _chunk(args):
    ns, sets = args
    from bycycle.utils import epoch_df, limit_df, limit_signal
    ep, lim = {}, {}
    lims = [None] + list(range(0, 2 * ns + 1))
    for s in sets:
        m = mask(s)
        for L in [d for d in range(1, ns + 1) if ns % d == 0]:
            try:
                dfs = epoch_df(pj.relabel(table_of(s), m + L), ns, L)
                ep['%d/e%d' % (m, L)] = [flat(d) for d in dfs]
            except Exception:
                ep['%d/e%d' % (m, L)] = [[-1]]
        for a in lims:
            for b in lims:
                if a is not None and b is not None and a > b:
                    continue
                for reset in (True, False):
                    for peak in (True, False):
                        key = '%d/l%s,%s%s%s' % (m, 'N' if a is None else a, 'N' if b is None else b, 'r' if reset else 'k', 'p' if peak else 't')
                        try:
                            st = None if a is None else a / 2.0
                            sp = None if b is None else b / 2.0
                            out = limit_df(pj.relabel(table_of(s, peak), m + (a or 0) + (b or 0) + peak), 1, start=st, stop=sp, reset_indices=reset)
                            sg, tm = limit_signal(np.arange(ns, dtype=float), np.arange(ns), start=st, stop=sp)
                            lim[key] = {'ok': 1, 'rows': flat(out, peak), 'sig': [int(x) for x in sg]}
                        except Exception:
                            lim[key] = {'ok': 0, 'rows': [], 'sig': []}
    return ep, lim


def tables_table(ns):
    sets = side_sets(ns)
    nproc = min(16, os.cpu_count() or 4)
    step = max(1, len(sets) // (nproc * 2))
    with Pool(nproc) as p:
        parts = p.map(_chunk, [(ns, sets[i:i + step]) for i in range(0, len(sets), step)])
    ep, lim = {}, {}
    for a, b in parts:
        ep.update(a)
        lim.update(b)
    ndiv = len([d for d in range(1, ns + 1) if ns % d == 0])
    nl = 2 * ns + 2
    npairs = sum(1 for a in range(-1, 2 * ns + 1) for b in range(-1, 2 * ns + 1) if a == -1 or b == -1 or a <= b)
    n_cases = len(sets) * (ndiv + npairs * 4)
    return {'epoch': ep, 'limit': lim, 'siglim': []}, n_cases
