import os
import re

import ix_tables
import tlc


def run(ctx, pid, ns, which):
    tab, n = ix_tables.tables_table(ns)
    path = os.path.join(ctx.scratch.path, 'impl_tables.json')
    tlc.dump_json(path, tab)
    cfg = tlc.cfg(constants={'NS': ns, 'UseImpl': True}, invariants=['InvPartition', 'InvExactlyOne', 'InvLimitModel'])
    res = tlc.must(tlc.run('MC_Tables', cfg, ctx.scratch, env={'IMPL_FILE': path}, coverage=True, timeout=3400), 'MC_Tables')
    os.remove(path)
    ctx.add_tlc(res, 'MC_Tables(N=%d)' % ns)
    m = re.search(r'Finished computing initial states: (\d+) distinct state', res['text'])
    if not m or int(m.group(1)) != n:
        raise tlc.TLCError('MC_Tables: initial states %s != %d cases' % (m and m.group(1), n))
    if res['violated']:
        ctx.violation('%s.spec.%s' % (pid, res['violated']), 'invariant of the specification violated (design error): ' + res['error_trace'][:1500])
    nd = 0
    for d in res['prints']:
        if d[0] != 'DISAGREE' or not d[2].startswith(which):
            continue
        nd += 1
        if nd <= 8:
            ctx.violation('%s.impl_disagrees.%s' % (pid, d[2].replace('/', '_')), '%s on the table with side extrema %s: %s' % (d[2], d[3], d[4:]),
                          {'kind': 'ix_tables', 'sides': d[3], 'args': d[4:8]})
    ctx.traces += n
    ctx.evaluations += n
    ctx.nontrivial += n
    ctx.parts[-1]['exhaustive_within_bound'] = True        # the bounded part is complete; the run as a whole also samples beyond it
    ctx.parts[-1].update({'cases': n, 'epoch_cases': len(tab['epoch']), 'limit_cases': len(tab['limit']), 'disagreements': nd})
    ctx.sample({'mc_tables_case': {'side_extrema': [0, 3, 5, 8][: max(2, ns // 2)], 'epoch_len': 2, 'window_half_samples': [3, 11], 'reset': True, 'centre': 'trough'},
                'space': 'all side-extremum sets on %d samples x (epoch lengths dividing %d | all windows on the half-sample grid incl. None x reset x centring)' % (ns, ns)})
