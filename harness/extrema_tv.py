"""TV of direct find_extrema / find_zerox calls over first_extrema x pad x boundary x filter options (C02, C03)."""
import numpy as np

import gen
import record
import tv


def run(ctx, n_cases, prefixes, seed_offset=0, max_len=900, kinds=None):
    cases = gen.corpus(ctx.seed * 1000 + 500 + seed_offset, n_cases, max_len=max_len, kinds=kinds)
    rng = np.random.default_rng(ctx.seed * 1000 + 501 + seed_offset)
    recs, meta = [], []
    for i, c in enumerate(cases):
        first = ['peak', 'trough', None][i % 3]
        pad = (i // 3) % 3 != 2
        fs = c['fs']
        boundary = int([0, 1, 5, fs // 4, fs // 2][int(rng.integers(0, 5))])
        fk = [None, {'n_cycles': 3}, {'n_cycles': int(rng.choice([2, 4, 5]))}, {'n_seconds': float(rng.choice([2.0, 3.0])) / c['f_range'][0]}][(i // 2) % 4]
        fk = gen.spell_unused_length(fk, i + 2 * (i % 2))
        if i % 6 == 5 and len(c['q']) and c['q'].max() > c['q'].min():
            # raw converter counts: the same waveform as unsigned 8-bit counts (0 .. 255) or as 16-bit counts reaching the negative rail
            x = (c['q'] - c['q'].min()) / float(c['q'].max() - c['q'].min())
            if (i // 6) % 2 == 0:
                cnt, dt = np.round(x * 255).astype(np.int64), np.uint8
            else:
                cnt, dt = np.round(x * 65535).astype(np.int64) - 32768, np.int16
            c = dict(c, q=cnt, e=0, sig=cnt.astype(dt), kind=c['kind'] + ' as ' + np.dtype(dt).name + ' counts')
            cases[i] = c
        recs.append(record.record_find_extrema(c, first, pad, boundary, fk))
        meta.append({'first': first, 'pad': pad, 'boundary': boundary, 'filter_kwargs': fk})
    verdicts = tv.validate(ctx, 'Trace_Extrema', recs, label='Trace_Extrema')
    nontriv = 0
    for c, r, m, fails in zip(cases, recs, meta, verdicts):
        if len(r['ext']['pk']) >= 3:
            nontriv += 1
        for f in fails:
            if any(f.startswith(p) for p in prefixes):
                ctx.violation(f, 'find_extrema/find_zerox on a %s signal (n=%d, fs=%s, band=%s, %s): failing clauses %s'
                              % (c['kind'], len(c['q']), c['fs'], c['f_range'], m, fails),
                              {'kind': 'extrema', 'q': [int(x) for x in c['q']], 'e': c['e'], 'fs': c['fs'], 'f_range': list(c['f_range']), 'meta': m})
    ctx.traces += len(recs)
    ctx.evaluations += len(recs)
    ctx.nontrivial += nontriv
    ctx.sample({'direct_find_extrema': dict(meta[0], kind=cases[0]['kind'], n=len(cases[0]['q']), peaks=recs[0]['ext']['pk'][:6])})
    ctx.parts.append({'part': 'corpus.find_extrema', 'cases': len(recs), 'raised': sum(1 for r in recs if r['raised']),
                      'zerox_calls': sum(1 for r in recs if r['zx']['seen'])})
    return recs, verdicts


def replay(ctx, payload, prefixes):
    q = np.array(payload['q'], dtype=np.int64)
    c = {'q': q, 'e': payload['e'], 'sig': q.astype(float) * 2.0 ** payload['e'], 'fs': payload['fs'], 'f_range': tuple(payload['f_range']), 'kind': ''}
    m = payload['meta']
    r = record.record_find_extrema(c, m['first'], m['pad'], m['boundary'], m['filter_kwargs'])
    v = tv.validate(ctx, 'Trace_Extrema', [r], jvms=1)
    for f in v[0]:
        if any(f.startswith(p) for p in prefixes):
            ctx.violation(f, 'replayed: %s' % v[0])
