"""Generated-signal corpus G(n): dyadic-grid signals over the waveform classes of the quantifiers, with option sets.

Every random choice derives from the seed given by the caller (VERIF_SEED).  A case is a dict:
  q (int array), e (exponent), sig = q * 2**e (float64), fs, f_range, kind, opts (compute_features options)
"""
import numpy as np

FS_BANDS = [
    (64, (4, 8)), (64, (6, 14)), (100, (8, 12)), (100, (6, 14)), (128, (8, 12)), (128, (13, 30)),
    (250, (8, 12)), (250, (13, 30)), (250, (4, 8)), (500, (8, 12)), (500, (13, 30)), (1000, (13, 30)),
    (62.5, (4, 8)), (187.5, (8, 12)),
    (500, (70, 100)), (1000, (65, 90)),          # high gamma: a cycle of the low band edge is shorter than 1/60 s (absolute time constants show)
]
KINDS = ['sine_bursts', 'asym', 'powerlaw_osc', 'two_osc', 'chirp', 'quantised', 'clipped', 'zeroed', 'dc_offset',
         'noisy_flat']


def _pink(rng, n):
    f = np.fft.rfftfreq(n)
    f[0] = f[1] if n > 1 else 1.0
    spec = (rng.standard_normal(len(f)) + 1j * rng.standard_normal(len(f))) / np.sqrt(f)
    x = np.fft.irfft(spec, n)
    return x / (np.std(x) + 1e-12)


def waveform(rng, kind, n, fs, f_range):
    t = np.arange(n) / fs
    f0 = float(rng.uniform(f_range[0] + 0.2 * (f_range[1] - f_range[0]), f_range[1] - 0.2 * (f_range[1] - f_range[0])))
    ph = rng.uniform(0, 2 * np.pi)
    osc = np.sin(2 * np.pi * f0 * t + ph)
    env = (np.sin(2 * np.pi * rng.uniform(0.3, 1.2) * t + rng.uniform(0, 6)) > rng.uniform(-0.6, 0.3)).astype(float)
    noise = rng.standard_normal(n)
    if kind == 'sine_bursts':
        x = env * osc * rng.uniform(0.7, 1.5) + 0.25 * noise + 0.4 * _pink(rng, n)
    elif kind == 'asym':
        p = (f0 * t + ph / (2 * np.pi)) % 1.0
        rd = rng.uniform(0.15, 0.85)
        saw = np.where(p < rd, p / rd, 1 - (p - rd) / (1 - rd)) * 2 - 1
        x = saw * (0.4 + 0.6 * env) + 0.1 * noise
    elif kind == 'powerlaw_osc':
        x = 1.2 * _pink(rng, n) + rng.uniform(0.3, 1.0) * osc
    elif kind == 'two_osc':
        x = osc + rng.uniform(0.3, 1.0) * np.sin(2 * np.pi * f0 * rng.uniform(1.8, 3.2) * t + 1) + 0.1 * noise
    elif kind == 'chirp':
        fa, fb = f_range[0] * 0.8, f_range[1] * 1.2
        x = np.sin(2 * np.pi * (fa * t + (fb - fa) * t ** 2 / (2 * t[-1] + 1e-9))) + 0.15 * noise
    elif kind == 'quantised':
        x = env * osc + 0.3 * _pink(rng, n) + 0.15 * noise
    elif kind == 'clipped':
        x = np.clip(osc * (0.5 + env) + 0.2 * noise, -rng.uniform(0.3, 0.9), rng.uniform(0.3, 0.9))
    elif kind == 'zeroed':
        x = osc * (0.6 + 0.4 * env) + 0.2 * noise
        for _ in range(int(rng.integers(1, 4))):
            a = int(rng.integers(0, n))
            x[a:a + int(rng.integers(5, max(6, n // 5)))] = 0.0
    elif kind == 'dc_offset':
        x = osc * (0.5 + 0.5 * env) + 0.2 * noise + rng.uniform(-8, 8)
    else:  # noisy_flat: almost no oscillation -> unreliable extrema, inverted flanks
        x = 0.6 * _pink(rng, n) + 0.4 * noise + 0.15 * osc
    return x


def to_grid(rng, x, kind):
    """Round to a dyadic grid  q * 2**e."""
    if kind in ('quantised',):
        bits = int(rng.integers(1, 4))            # 2..8 levels: ties and plateaus everywhere
    elif kind in ('clipped', 'zeroed'):
        bits = int(rng.integers(3, 9))
    else:
        bits = int(rng.integers(6, 13))
    m = float(np.max(np.abs(x))) or 1.0
    q = np.round(x / m * (2 ** bits - 1)).astype(np.int64)
    e = int(rng.integers(-20, 21)) if rng.integers(0, 4) else int(rng.choice([-36, -30, 28, 34]))
    return q, e


def spell_unused_length(filt, k):
    """The same filter length with the unused length option written out as its documented default None (every 5th option set)."""
    if k % 5 != 2:
        return filt
    if filt is None:
        return {'n_seconds': None}
    if filt.get('n_seconds') is not None:
        return dict(filt, n_cycles=None)
    return dict(n_seconds=None, **filt) if k % 2 else dict(filt, n_seconds=None)


def option_set(rng, fs, f_range, k):
    """One documented option combination (cycled so that every cell of the small grids occurs)."""
    center = ('peak', 'trough')[k % 2]
    method = ('cycles', 'amp')[(k // 2) % 2]
    return_samples = (k // 4) % 4 != 3
    fk_choice = (k // 3) % 4
    if fk_choice == 0:
        filt = {'n_cycles': 3}
    elif fk_choice == 1:
        filt = {'n_cycles': int(rng.choice([2, 4, 5]))}
    elif fk_choice == 2:
        filt = {'n_seconds': float(rng.choice([2.0, 3.0, 4.0])) / f_range[0]}
    else:
        filt = None
    filt = spell_unused_length(filt, k)
    boundary = int([0, 1, 5, fs // 4][(k // 5) % 4])
    fek = {}
    if filt is not None:
        fek['filter_kwargs'] = filt
    if boundary or (k % 7 == 0):
        fek['boundary'] = boundary
    if k % 8 == 3:
        fek['pad'] = False
    opts = {'center_extrema': center, 'burst_method': method, 'return_samples': return_samples,
            'find_extrema_kwargs': fek if (fek or k % 11 == 0) else None}
    lat = [0.0, 0.25, 0.5, 0.8, 1.0]
    if method == 'cycles':
        th = {'amp_fraction_threshold': float(rng.choice([0., 0., .25, .5])),
              'amp_consistency_threshold': float(rng.choice(lat[:4])),
              'period_consistency_threshold': float(rng.choice(lat[:4])),
              'monotonicity_threshold': float(rng.choice([0.25, 0.5, 0.6, 0.8])),
              'min_n_cycles': int(rng.integers(0, 5))}
        if k % 6 == 5:
            del th['min_n_cycles']
        opts['threshold_kwargs'] = th
        opts['burst_kwargs'] = None
        if k % 10 == 7:
            # amplitude-detection options left over from a dual-threshold run (they are documented to matter only for burst_method='amp')
            opts['burst_kwargs'] = {'amp_threshes': (1.0, 2.0), 'min_n_cycles': int(rng.integers(0, 7))}
    else:
        route = (k // 4) % 4            # min_n_cycles via thresholds / burst options / both / neither
        th = {'burst_fraction_threshold': float(rng.choice([0.25, 0.5, 0.75, 1.0, 1.0]))}
        bk = {'amp_threshes': [(0.5, 1.0), (1.0, 1.5), (1.0, 2.0)][int(rng.integers(0, 3))]}
        if route in (0, 2):
            th['min_n_cycles'] = int(rng.integers(1, 5))
        if route in (1, 2):
            bk['min_n_cycles'] = int(rng.integers(0, 5))          # 0 is a value like any other: "given" is decided by presence, not by truth
        if k % 9 == 4:
            bk['min_burst_duration'] = float(rng.choice([0.1, 0.25]))
        if k % 13 == 6:
            bk['filter_kwargs'] = {'n_cycles': 4}
        if k % 17 == 8:
            bk = {k_: v_ for k_, v_ in bk.items() if k_ == 'min_n_cycles' and k % 2}          # empty (or nearly empty) burst options: the amplitude thresholds default to (1, 2)
        if k % 19 == 11:
            th = {}                                                                               # empty thresholds: burst_fraction_threshold defaults to 1
        opts['threshold_kwargs'] = th
        opts['burst_kwargs'] = bk
    return opts


def corpus(seed, n_cases, max_len=900, kinds=None, fs_bands=None, min_cycles=8):
    rng = np.random.default_rng(seed)
    kinds = kinds or KINDS
    fs_bands = fs_bands or FS_BANDS
    out = []
    k = int(rng.integers(0, 1000))
    while len(out) < n_cases:
        fs, f_range = fs_bands[int(rng.integers(0, len(fs_bands)))]
        kind = kinds[int(rng.integers(0, len(kinds)))]
        opts = option_set(rng, fs, f_range, k)
        fk = (opts.get('find_extrema_kwargs') or {}).get('filter_kwargs') or {}
        if fk.get('n_seconds') is not None:
            filt_len = fs * fk['n_seconds']
        else:
            filt_len = fs * (fk.get('n_cycles') or 3) / f_range[0]
        bnd = (opts.get('find_extrema_kwargs') or {}).get('boundary', 0)
        n = int(max(min_cycles * fs / f_range[0], 1.6 * filt_len + 10, 2 * bnd + 6 * fs / f_range[0]))
        n = int(n * rng.uniform(1.0, 1.5))
        k += 1
        if n > max_len:
            continue
        x = waveform(rng, kind, n, fs, f_range)
        q, e = to_grid(rng, x, kind)
        out.append({'q': q, 'e': e, 'sig': q.astype(float) * (2.0 ** e), 'fs': fs, 'f_range': f_range, 'kind': kind,
                    'opts': opts, 'k': k})
    return out


LONG_CYCLE_BANDS = [(1000, (4, 8)), (1024, (3, 6)), (2000, (8, 12)), (1000, (2, 5))]      # >= 128 samples per cycle
LONG_RECORDING_BANDS = [(1000, (13, 30)), (500, (8, 12)), (1024, (8, 12))]


def large_cases(seed, n_long_cycles, n_long_recordings, kinds=None):
    """Beyond small scopes: cycles of more than 128 / 256 samples, and recordings of more than 2**15 / 2**16 samples with hundreds to thousands
    of cycles (sample indices, row counts and per-cycle sample counts outgrow 8- and 16-bit integers)."""
    rng = np.random.default_rng(seed)
    kinds = kinds or ['sine_bursts', 'asym', 'powerlaw_osc', 'two_osc', 'quantised']
    cases = []
    for i in range(n_long_cycles + n_long_recordings):
        long_rec = i >= n_long_cycles
        fs, fr = (LONG_RECORDING_BANDS if long_rec else LONG_CYCLE_BANDS)[int(rng.integers(0, 3 if long_rec else 4))]
        n = int(rng.choice([33500, 40000, 66500])) if long_rec else int(rng.integers(9, 14) * fs / fr[0])
        kind = kinds[int(rng.integers(0, len(kinds)))]
        k = int(rng.integers(0, 1000))
        opts = option_set(rng, fs, fr, k)
        if (opts.get('find_extrema_kwargs') or {}).get('boundary', 0) > fs // 4:
            opts['find_extrema_kwargs']['boundary'] = 5
        x = waveform(rng, kind, n, fs, fr)
        q, e = to_grid(rng, x, kind)
        cases.append({'q': q, 'e': e, 'sig': q.astype(float) * (2.0 ** e), 'fs': fs, 'f_range': fr, 'kind': kind, 'opts': opts, 'k': k})
    return cases
