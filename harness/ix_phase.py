"""Indexed exhaustive conformance for MC_Phase: the real extrema_interpolated_phase on every valid cyclepoint placement."""
import itertools
import math
import os
from multiprocessing import Pool

import numpy as np

import project as pj


CONSTS = [-math.pi, -math.pi / 2, 0.0, math.pi / 2, math.pi]


def valid_cases(ns):
    cases = []
    for r in range(2, ns + 1):
        for ext in itertools.combinations(range(ns), r):
            if any(ext[k + 1] - ext[k] < 2 for k in range(len(ext) - 1)):
                continue
            for pf in (0, 1):
                cases.append([list(ext), pf, 0, []])
                ranges = [range(ext[k], ext[k + 1] + 1) for k in range(len(ext) - 1)]
                for mids in itertools.product(*ranges):
                    cases.append([list(ext), pf, 1, list(mids)])
    return cases


def split(case):
    ext, pf, wm, mids = case
    odd, even = ext[0::2], ext[1::2]
    pk, tr = (odd, even) if pf else (even, odd)
    rs, dc = None, None
    if wm:
        rs, dc = [], []
        for k, m in enumerate(mids):
            is_decay = (pf == 1) == (k % 2 == 0)
            (dc if is_decay else rs).append(m)
    return pk, tr, rs, dc


DTYPES = [np.float64, np.int64, np.float32, np.int16]


def phase_entry(ns, case, dtype=np.float64):
    from bycycle.cyclepoints import extrema_interpolated_phase
    pk, tr, rs, dc = split(case)
    try:
        pha = extrema_interpolated_phase(np.zeros(ns, dtype=dtype), np.array(pk, dtype=int), np.array(tr, dtype=int),
                                         None if rs is None else np.array(rs, dtype=int), None if dc is None else np.array(dc, dtype=int))
        if len(pha) != ns:
            return [0, -1] * ns, [-2] * (ns + 5)
        out = []
        for x in pha:
            out.extend(pj.rat(float(x) / (math.pi / 2), D=4 * ns, tol=1e-9))
        codes, kc = pj.rank_codes(list(pha), CONSTS)
        return out, codes + kc
    except Exception:
        return [0, -1] * ns, [-2] * (ns + 5)


def _chunk(args):
    ns, cases = args
    out, codes = [], []
    for k, c in enumerate(cases):
        a, b = phase_entry(ns, c, DTYPES[(k + len(c[0])) % len(DTYPES)])      # the signal only lends its length: its dtype must not matter
        out.extend(a)
        codes.extend(b)
    return [(out, codes)]


def phase_table(ns):
    cases = valid_cases(ns)
    nproc = min(16, os.cpu_count() or 4)
    step = max(1, len(cases) // (nproc * 4))
    with Pool(nproc) as p:
        parts = p.map(_chunk, [(ns, cases[i:i + step]) for i in range(0, len(cases), step)])
    tab, codes = [], []
    for part in parts:
        for a, b in part:
            tab.extend(a)
            codes.extend(b)
    return {'cases': cases, 'table': tab, 'codes': codes}, len(cases)
