"""Driving the REAL process pool along schedules TLC enumerated, and recording what the workers did (C11, C12).

compute_features as seen by every bycycle namespace is replaced (identity scan, interpose.py) by the picklable module-level
function `worker_cf`, which logs Start/Done with a per-process sequence number into <logdir>/<pid>.log, sleeps for the delay
assigned to the task's signal fingerprint, and calls the original.  Forked pool workers inherit the replacement.
"""
import copy
import glob
import hashlib
import itertools
import json
import os
import time
import warnings

import numpy as np

import interpose
import tables_tv as tt

_ORIG = {}
STEP = 0.07


def sig_key(sig):
    return hashlib.sha1(np.ascontiguousarray(np.asarray(sig, dtype=float)).tobytes()).hexdigest()[:16]


def worker_cf(sig, *a, **kw):
    """Replacement of compute_features inside bycycle (runs in the pool workers)."""
    logdir = os.environ.get('BYCVERIF_POOL_LOG')
    key = sig_key(sig)
    delay = 0.0
    seqf = None
    fail = False
    if logdir:
        try:
            tab = json.load(open(os.path.join(logdir, 'delays.json')))
            delay = tab.get(key, 0.0)
            fail = key in tab.get('__fail__', [])
        except Exception:
            delay = 0.0
        seqf = os.path.join(logdir, '%d.log' % os.getpid())
        with open(seqf, 'a') as fh:
            fh.write(json.dumps({'ev': 'start', 'key': key, 't': time.time()}) + '\n')
    try:
        if fail:
            raise ValueError('injected task failure %s' % key)
        return _ORIG['cf'](sig, *a, **kw)
    finally:
        if delay:
            time.sleep(delay)
        if seqf:
            with open(seqf, 'a') as fh:
                fh.write(json.dumps({'ev': 'done', 'key': key, 't': time.time()}) + '\n')


class PoolTimeout(BaseException):
    """Not an Exception: no `except Exception` of the library or of a recorder may mistake the watchdog for an outcome of the code."""


class time_limit:
    """Guard around a real-pool run: a pool that does not come back within `seconds` is a MACHINERY failure (exit 2), never a verdict."""

    def __init__(self, seconds=240):
        self.seconds = seconds

    def _fire(self, *a):
        raise PoolTimeout('real pool run exceeded %d s' % self.seconds)

    def __enter__(self):
        import signal
        import threading
        self.armed = threading.current_thread() is threading.main_thread()
        if self.armed:
            self.old = signal.signal(signal.SIGALRM, self._fire)
            signal.alarm(self.seconds)
        return self

    def __exit__(self, *a):
        import signal
        if self.armed:
            signal.alarm(0)
            signal.signal(signal.SIGALRM, self.old)
        return False


def install():
    from bycycle.features import compute_features
    _ORIG['cf'] = compute_features
    return interpose.replaced({compute_features: worker_cf})


def table_fp(df):
    """Fingerprint of a whole table: column names in order + every value (float limbs)."""
    h = hashlib.sha1(('|'.join('%s:%s' % (c, df[c].dtype) for c in df.columns)).encode()).hexdigest()       # names, order and dtypes of the columns
    vals = []
    for c in df.columns:
        vals.extend(float(x) for x in df[c].values)
    idx = hashlib.sha1(repr(list(df.index)).encode()).hexdigest()          # and its row labels: 'exactly the table'
    return (int(h[:7], 16) + int(idx[:7], 16) + tt.col_fp(vals) + 31 * len(df)) % 1073741789


def make_sigs(rng, shape, fs=64, n=160):
    """Pairwise different short signals with clear 10 Hz bursts."""
    t = np.arange(n) / fs
    out = np.zeros(tuple(shape) + (n,))
    for idx in itertools.product(*[range(s) for s in shape]):
        f = rng.uniform(9, 11)
        x = np.sin(2 * np.pi * f * t + rng.uniform(0, 6)) * (1 + 0.5 * np.sin(2 * np.pi * rng.uniform(0.4, 1.0) * t)) + 0.3 * rng.standard_normal(n)
        out[idx] = np.round(x * 256) / 256
    return out


ARRAY_VARIANTS = ['c_contiguous', 'fortran_order', 'strided_view', 'transposed_view', 'float32', 'int16']


def vary(sigs, v):
    """The same stack of signals as the user may hold it: another memory layout of the same values (Fortran order, a strided view of a larger
    array, a transposed view of an array stored with the first two axes swapped), or another dtype (float32 with values that are not exactly
    representable in fewer bits, int16 counts).  "All arrays" of the quantifiers includes these; every check compares with the per-signal
    reference computed from sigs[i] of the very same array."""
    v = v % len(ARRAY_VARIANTS)
    if v == 1:
        return np.asfortranarray(sigs)
    if v == 2:
        return np.repeat(sigs, 2, axis=-1)[..., ::2]
    if v == 3:
        ax = (1, 0) + tuple(range(2, sigs.ndim))
        return np.ascontiguousarray(sigs.transpose(ax)).transpose(ax)
    if v == 4:
        return (sigs * 1.1).astype(np.float32)
    if v == 5:
        return np.round(sigs * 256).astype(np.int16)
    return sigs


def kw_variant(rng, i):
    th = {'amp_fraction_threshold': [0., .2, .3][i % 3], 'amp_consistency_threshold': [.2, .4, .6, .3][i % 4], 'period_consistency_threshold': [.3, .5, .4][(i // 2) % 3],
          'monotonicity_threshold': [.4, .5, .6][(i // 3) % 3], 'min_n_cycles': 1 + i % 3}
    return {'threshold_kwargs': th, 'center_extrema': ['peak', 'trough'][(i // 2 + i // 3) % 2]}


def with_default_entry(kwlist, k):
    """Every other per-signal option list leaves ONE later position at the library defaults, written as the empty dictionary {} (a falsy value
    that is nevertheless "given"): that signal is analysed with the defaults, not with a neighbour's options."""
    if k % 2 == 0 or not isinstance(kwlist, list):
        return kwlist
    if kwlist and isinstance(kwlist[0], list):
        flat = [(i, j) for i in range(len(kwlist)) for j in range(len(kwlist[i]))][1:]
        if flat:
            i, j = flat[k % len(flat)]
            kwlist[i][j] = {}
    elif len(kwlist) > 1:
        kwlist[1 + k % (len(kwlist) - 1)] = {}
    return kwlist


def simulate(delays, W, base=0.02):
    """Completion order of FIFO list scheduling on W workers (what Pool.imap with chunksize 1 does)."""
    free = [0.0] * W
    done = []
    for k, d in enumerate(delays):
        w = min(range(W), key=lambda i: free[i])
        free[w] = free[w] + base + d
        done.append((free[w], k + 1))
    return tuple(k for _, k in sorted(done))


def delays_for(order, W, rng, tries=4000):
    """Delay vector (multiples of STEP) whose simulated completion order on W workers is `order`, or None."""
    T = len(order)
    if W >= T:
        d = [0.0] * T
        for rank, k in enumerate(order):
            d[k - 1] = rank * STEP
        return d
    for _ in range(tries):
        d = [float(rng.integers(0, 2 * T)) * STEP for _ in range(T)]
        if simulate(d, W) == tuple(order) and len({round(x, 3) for x in np.cumsum(sorted(d))}) >= 1:
            return d
    return None


def read_logs(logdir, keys):
    """Per worker process: the sequence of task indices it executed (per-process order only)."""
    logs, realised = [], []
    for f in sorted(glob.glob(os.path.join(logdir, '*.log'))):
        seq = []
        for line in open(f):
            ev = json.loads(line)
            if ev['key'] in keys:
                if ev['ev'] == 'start':
                    seq.append(keys[ev['key']])
                else:
                    realised.append((ev['t'], keys[ev['key']]))
        if seq:
            logs.append(seq)
        os.remove(f)
    return logs, [k for _, k in sorted(realised)]


def _warm_up(g, sigs, fs, f_range, axis):
    """The group object has been fitted before - to another stack of another shape (not logged): a fit must rebuild everything it exposes."""
    env = os.environ.pop('BYCVERIF_POOL_LOG', None)
    try:
        other = sigs[::-1][:max(1, len(sigs) - 1)] if sigs.ndim == 2 else sigs[::-1, ::-1][:, :max(1, sigs.shape[1] - 1)]
        g.fit(np.ascontiguousarray(other), fs, f_range, axis=axis, n_jobs=1)
    finally:
        if env is not None:
            os.environ['BYCVERIF_POOL_LOG'] = env


def _group_recompute(g, thr, nested):
    """BycycleGroup.recompute_edges(r): every model's table becomes the functional edge recomputation of the table it held, thresholds lowered by r.
    Returns (fingerprints after the call, fingerprints of the functional recomputation), shaped like g.models."""
    from bycycle.burst.utils import recompute_edges
    rows = g.models if nested else [g.models]
    if len(rows[0]) % 2 == 1:
        # a threshold edit by ASSIGNMENT on the fitted group (another dictionary, lax thresholds): the recomputation uses the thresholds the group holds now
        thr = {k: (min(v, 0.125) if k.endswith('_threshold') else 1) for k, v in thr.items()}
        g.thresholds = dict(thr)
    red = 0.1 if min(v for k, v in thr.items() if k.endswith('_threshold')) >= 0.1 else None
    low = {k: (v - (red or 0) if k.endswith('_threshold') else v) for k, v in thr.items()}
    expected = [[table_fp(recompute_edges(m.df_features, dict(low))) for m in row] for row in rows]
    g.recompute_edges(red)
    got = [[table_fp(m.df_features) for m in row] for row in (g.models if nested else [g.models])]
    held = [[table_fp(d) for d in row] for row in (g.df_features if nested else [g.df_features])]      # what the group itself exposes afterwards
    return (got, expected, held) if nested else (got[0], expected[0], held[0])


def retry_on_timeout(fn):
    """A real pool that does not come back (fork under extreme load) is retried ONCE with fresh logs after its workers are terminated;
    a second timeout is a machinery failure (exit 2).  Never a verdict either way."""
    import functools

    @functools.wraps(fn)
    def wrapper(*a, **kw):
        try:
            return fn(*a, **kw)
        except PoolTimeout:
            import multiprocessing
            for ch in multiprocessing.active_children():
                ch.terminate()
            logdir = kw.get('logdir') or next((x for x in a if isinstance(x, str) and os.path.isdir(x)), None)
            if logdir:
                for f in glob.glob(os.path.join(logdir, '*.log')):
                    os.remove(f)
            return fn(*a, **kw)
    return wrapper


@retry_on_timeout
def run_2d(sigs, fs, f_range, kwargs, n_jobs, progress, delays, logdir, via_group=False, return_samples=True):
    """One real compute_features_2d / BycycleGroup.fit call under injected delays. Returns the trace case (without ref)."""
    from bycycle.group import compute_features_2d
    from bycycle import BycycleGroup
    keys = {sig_key(s): i + 1 for i, s in enumerate(sigs)}
    json.dump({sig_key(s): float(d) for s, d in zip(sigs, delays)}, open(os.path.join(logdir, 'delays.json'), 'w'))
    os.environ['BYCVERIF_POOL_LOG'] = logdir
    raised, out, models, rmodels, rexpected, rheld = '', [], [], [], [], []
    try:
        with warnings.catch_warnings():
            warnings.simplefilter('ignore')
            with time_limit(), install():
                if via_group:
                    k0 = kwargs
                    if len(sigs) % 2:
                        g = BycycleGroup(center_extrema=k0.get('center_extrema', 'peak'), thresholds=copy.deepcopy(k0['threshold_kwargs']), return_samples=return_samples)
                    else:
                        # the user constructs the object first and sets its (public) settings afterwards: a fit must use the CURRENT settings
                        g = BycycleGroup(center_extrema='trough' if k0.get('center_extrema', 'peak') == 'peak' else 'peak',
                                         thresholds={'amp_fraction_threshold': .9, 'min_n_cycles': 9}, return_samples=not return_samples)
                        g.center_extrema = k0.get('center_extrema', 'peak')
                        g.thresholds = copy.deepcopy(k0['threshold_kwargs'])
                        g.return_samples = return_samples
                    if len(sigs) % 3 != 1:
                        _warm_up(g, sigs, fs, f_range, 0)
                    g.fit(sigs, fs, f_range, axis=0, n_jobs=n_jobs, progress=progress)
                    out = [table_fp(d) for d in g.df_features]
                    models = [table_fp(m.df_features) if (i < len(sigs) and m.sig is not None and np.array_equal(m.sig, sigs[i])) else -1 for i, m in enumerate(g.models)]
                    if len(g) != len(models) or [table_fp(m.df_features) for m in g] != [table_fp(g[i].df_features) for i in range(len(g))]:
                        models = models + [-2]          # len / iteration / indexing of the group disagree with its models
                    if models == out:
                        rmodels, rexpected, rheld = _group_recompute(g, k0['threshold_kwargs'], False)
                else:
                    dfs = compute_features_2d(sigs, fs, f_range, compute_features_kwargs=kwargs, axis=0, return_samples=return_samples, n_jobs=n_jobs, progress=progress)
                    out = [table_fp(d) for d in dfs]
    except PoolTimeout:
        raise
    except Exception as ex:
        raised = type(ex).__name__ + ':' + str(ex)[:80]
    finally:
        os.environ.pop('BYCVERIF_POOL_LOG', None)
    logs, realised = read_logs(logdir, keys)
    return {'mode': '2d', 'T': len(sigs), 'n0': len(sigs), 'n1': 0, 'out': out, 'models': models, 'rmodels': rmodels, 'rexpected': rexpected, 'rheld': rheld, 'logs': logs or [[]], 'raised': raised,
            'check_schedule': bool(logs) and not raised}, realised


def reference_2d(sigs, fs, f_range, kwargs, return_samples=True):
    """Every row analysed on its own with the options given for that row (original compute_features, in the parent)."""
    from bycycle.features import compute_features
    ref = []
    for i, s in enumerate(sigs):
        kw = copy.deepcopy(kwargs if isinstance(kwargs, dict) else kwargs[i])
        kw.pop('return_samples', None)
        with warnings.catch_warnings():
            warnings.simplefilter('ignore')
            ref.append(table_fp(compute_features(s.copy(), fs, f_range, return_samples=return_samples, **kw)))
    return ref


@retry_on_timeout
def run_3d(sigs, fs, f_range, kwargs, axis, n_jobs, delays, logdir, via_group=False, progress=None):
    """One real compute_features_3d / BycycleGroup.fit call on a 3-D array under injected delays."""
    from bycycle.group import compute_features_3d
    from bycycle import BycycleGroup
    n0, n1 = sigs.shape[0], sigs.shape[1]
    if axis == (0, 1):
        tasks = [sigs[i, j] for i in range(n0) for j in range(n1)]
        mode = '3d01'
    elif axis == 0:
        tasks = [sigs[i].flatten() for i in range(n0)]
        mode = '3d0'
    else:
        tasks = [sigs[:, j].flatten() for j in range(n1)]
        mode = '3d1'
    keys = {sig_key(s): k + 1 for k, s in enumerate(tasks)}
    json.dump({sig_key(s): float(d) for s, d in zip(tasks, delays)}, open(os.path.join(logdir, 'delays.json'), 'w'))
    os.environ['BYCVERIF_POOL_LOG'] = logdir
    raised, out, models, rmodels, rexpected, rheld, container_ok = '', [], [], [], [], [], True
    try:
        with warnings.catch_warnings():
            warnings.simplefilter('ignore')
            with time_limit(), install():
                if via_group:
                    if (n0 + n1) % 2:
                        g = BycycleGroup(center_extrema=kwargs.get('center_extrema', 'peak'), thresholds=copy.deepcopy(kwargs['threshold_kwargs']))
                    else:
                        g = BycycleGroup(center_extrema='trough' if kwargs.get('center_extrema', 'peak') == 'peak' else 'peak', thresholds={'min_n_cycles': 9})
                        g.center_extrema = kwargs.get('center_extrema', 'peak')
                        g.thresholds = copy.deepcopy(kwargs['threshold_kwargs'])
                    if (n0 + 2 * n1) % 3 != 1:
                        _warm_up(g, sigs, fs, f_range, axis)
                    g.fit(sigs, fs, f_range, axis=axis, n_jobs=n_jobs, progress=progress)
                    res = g.df_features
                    models = [[table_fp(m.df_features) if (i < n0 and j < n1 and np.array_equal(m.sig, sigs[i, j])) else -1 for j, m in enumerate(row)] for i, row in enumerate(g.models)]
                    out = [[table_fp(d) for d in row] for row in res]          # what the fit returned, fingerprinted BEFORE anything else is called on the group
                    if models == out:
                        rmodels, rexpected, rheld = _group_recompute(g, kwargs['threshold_kwargs'], True)
                else:
                    res = compute_features_3d(sigs, fs, f_range, compute_features_kwargs=kwargs, axis=axis, n_jobs=n_jobs, progress=progress)
                    out = [[table_fp(d) for d in row] for row in res]
                container_ok = isinstance(res, list) and all(isinstance(r, list) for r in res)
    except PoolTimeout:
        raise
    except Exception as ex:
        raised = type(ex).__name__ + ':' + str(ex)[:80]
    finally:
        os.environ.pop('BYCVERIF_POOL_LOG', None)
    logs, realised = read_logs(logdir, keys)
    return {'mode': mode, 'T': len(tasks), 'n0': n0, 'n1': n1, 'nested_list': bool(container_ok), 'out': out, 'models': models, 'rmodels': rmodels, 'rexpected': rexpected, 'rheld': rheld, 'logs': logs or [[]], 'raised': raised,
            'check_schedule': bool(logs) and not raised}, realised


def reference_3d(sigs, fs, f_range, kwargs, axis):
    """The reference per TASK, in task order; the specification places it (Reshape / Transpose)."""
    from bycycle.features import compute_features
    from bycycle.group import compute_features_2d
    n0, n1 = sigs.shape[0], sigs.shape[1]
    ref = []
    with warnings.catch_warnings():
        warnings.simplefilter('ignore')
        if axis == (0, 1):
            for i in range(n0):
                for j in range(n1):
                    kw = copy.deepcopy(kwargs if isinstance(kwargs, dict) else kwargs[i][j])
                    ref.append(table_fp(compute_features(sigs[i, j].copy(), fs, f_range, **kw)))
        elif axis == 0:
            for i in range(n0):
                kw = copy.deepcopy(kwargs if isinstance(kwargs, dict) else kwargs[i])
                ref.append([table_fp(d) for d in compute_features_2d(sigs[i].copy(), fs, f_range, compute_features_kwargs=kw, axis=None)])
        else:
            for j in range(n1):
                kw = copy.deepcopy(kwargs if isinstance(kwargs, dict) else kwargs[j])
                ref.append([table_fp(d) for d in compute_features_2d(sigs[:, j].copy(), fs, f_range, compute_features_kwargs=kw, axis=None)])
    return ref


@retry_on_timeout
def run_fault(sigs, fs, f_range, kwargs, n_jobs, delays, failing, logdir):
    """compute_features_2d where the tasks in `failing` (1-based) raise in their worker. Returns which task's exception reached the parent."""
    from bycycle.group import compute_features_2d
    keys = {sig_key(s): i + 1 for i, s in enumerate(sigs)}
    tab = {sig_key(s): float(d) for s, d in zip(sigs, delays)}
    tab['__fail__'] = [sig_key(sigs[k - 1]) for k in failing]
    json.dump(tab, open(os.path.join(logdir, 'delays.json'), 'w'))
    os.environ['BYCVERIF_POOL_LOG'] = logdir
    raised_task, raised, n_out = 0, '', -1
    t0 = time.time()
    try:
        with warnings.catch_warnings():
            warnings.simplefilter('ignore')
            with time_limit(), install():
                out = compute_features_2d(sigs, fs, f_range, compute_features_kwargs=kwargs, axis=0, n_jobs=n_jobs)
                n_out = len(out)
    except PoolTimeout:
        raise
    except ValueError as ex:
        raised = 'ValueError'
        for k, i in keys.items():
            if k in str(ex):
                raised_task = i
    except Exception as ex:
        raised = type(ex).__name__
    finally:
        os.environ.pop('BYCVERIF_POOL_LOG', None)
    read_logs(logdir, keys)
    return {'mode': 'fault', 'T': len(sigs), 'failing': sorted(failing), 'raised': raised, 'raised_task': raised_task, 'returned': n_out, 'wall_s': round(time.time() - t0, 2)}
