"""MC + IX runs of MC_Shape / MC_BurstFeat / MC_Detect / MC_Amp (C04-C07, C09)."""
import os
import re

import ix_features as ixf
import tlc


def _init_states(res):
    m = re.search(r'Finished computing initial states: (\d+) distinct state', res['text'])
    return int(m.group(1)) if m else -1


def _run(ctx, pid, module, label, constants, invariants, table, n_cases, describe, timeout=3400):
    path = os.path.join(ctx.scratch.path, 'impl_%s.json' % module)
    tlc.dump_json(path, table)
    cfg = tlc.cfg(constants=dict(constants, UseImpl=True), invariants=invariants)
    res = tlc.must(tlc.run(module, cfg, ctx.scratch, env={'IMPL_FILE': path}, coverage=os.environ.get('VERIF_COVERAGE', '1') == '1', timeout=timeout), module)
    os.remove(path)
    ctx.add_tlc(res, label)
    if _init_states(res) != n_cases:
        raise tlc.TLCError('%s: TLC initial states %d != enumerated inputs %d' % (label, _init_states(res), n_cases))
    if res['violated']:
        ctx.violation('%s.spec.%s' % (pid, res['violated']), 'invariant of the specification violated (design error): ' + res['error_trace'][:1500])
    n_dis = 0
    for d in res['prints']:
        if d[0] != 'DISAGREE':
            continue
        n_dis += 1
        if n_dis <= 8:
            ctx.violation('%s.impl_disagrees.%s' % (pid, d[2].replace('/', '_')), describe(d), {'kind': 'ix_' + module, 'print': d[:12]})
    ctx.traces += n_cases
    ctx.evaluations += n_cases
    ctx.parts[-1].update({'inputs': n_cases, 'disagreements': n_dis})
    return res


def run_shape(ctx, pid, ns, v):
    tab, n = ixf.shape_table(ns, v)
    res = _run(ctx, pid, 'MC_Shape', 'MC_Shape(N=%d,V=%d)' % (ns, v), {'NS': ns, 'V': v},
               ['InvShapeWF', 'InvNegation', 'InvMonoUnit', 'InvMonoMirror'], tab, n,
               lambda d: 'compute_shape_features / compute_monotonicity on signal %s, cyclepoints (lastzx,last,zx1,centre,zx2,next)=%s, peak-centred=%s: specification %s, implementation %s'
               % (d[3], d[4], d[5], d[6], d[7]))
    ctx.nontrivial += n // 2
    ctx.sample({'mc_shape_input': {'sig': [0, 2, 1, 2, 0, 1][:ns], 'cyclepoints': [0, 0, 1, 2, 3, 4], 'centre': 'trough'},
                'space': 'all signals [0..%d -> 0..%d] x all %d valid cyclepoint placements x both centrings' % (ns - 1, v, len(tab['places']))})
    return res


def run_burstfeat(ctx, pid, nr, vlo, vhi, pmax):
    tab, n = ixf.burstfeat_table(nr, vlo, vhi, pmax)
    res = _run(ctx, pid, 'MC_BurstFeat', 'MC_BurstFeat(rows=%d,volt=%d..%d,period<=%d)' % (nr, vlo, vhi, pmax),
               {'NR': nr, 'VLo': vlo if vlo >= 0 else '<- Neg%d' % -vlo, 'VHi': vhi, 'PMax': pmax},
               ['InvUnitRange', 'InvEndsNaN', 'InvBothIsMin', 'InvMirror', 'InvRankScale'], tab, n,
               lambda d: 'burst features of the table volt_rise=%s volt_decay=%s period=%s (peak-centred=%s): specification %s, implementation %s'
               % (d[3], d[4], d[5], d[6], d[7], d[8]))
    ctx.nontrivial += n
    ctx.sample({'mc_burstfeat_input': {'volt_rise': [1, 2, 0, 2][:nr], 'volt_decay': [2, 2, 1, 0][:nr], 'period': [1, 2, 2, 1][:nr], 'centre': 'peak'},
                'space': 'all tables of %d rows, flank voltages %d..%d, periods 1..%d, both centrings, directions both/next/last' % (nr, vlo, vhi, pmax)})
    return res


def run_detect(ctx, pid, nr):
    tab, n = ixf.detect_table(nr)
    res = _run(ctx, pid, 'MC_Detect', 'MC_Detect(rows=%d)' % nr, {'NR': nr},
               ['InvRule', 'InvEnds', 'InvOnlyAllAbove', 'InvMonotone'], tab, n,
               lambda d: 'detect_bursts_cycles on threshold profiles %s (1=all above, 2-5 = one feature equal, 6 = one below, 7 = one NaN, ...), min_n_cycles=%s: specification mask %s, implementation %s'
               % (d[3], d[4], d[5], d[6]))
    ctx.nontrivial += n
    ctx.sample({'mc_detect_input': {'profiles': [1, 1, 3, 1, 7][:nr], 'min_n_cycles': 2},
                'space': 'all tables of %d cycles over %d threshold profiles (values just below / on / just above the threshold, NaN) x min_n_cycles 0..%d' % (nr, len(ixf.PROFILES), nr + 1)})
    return res


def run_amp(ctx, pid, ns, max_m):
    tab, n = ixf.amp_table(ns, max_m)
    res = _run(ctx, pid, 'MC_Amp', 'MC_Amp(N=%d,M=%d)' % (ns, max_m), {'NS': ns, 'MaxM': max_m},
               ['InvUnit', 'InvInclusive', 'InvMonotone'], tab, n,
               lambda d: 'compute_burst_fraction / detect_bursts_amp on sample mask %s, side extrema %s, threshold %s, min_n_cycles %s: specification fractions %s labels %s, implementation %s'
               % ([int(x) for x in d[3]], d[4], d[5], d[6], d[7], d[8], d[9]))
    ctx.nontrivial += n
    ctx.sample({'mc_amp_input': {'mask': [1, 1, 0, 1, 1, 1][:ns], 'side_extrema': [0, 2, 5], 'threshold': '1/2', 'min_n_cycles': 1},
                'space': 'all masks over %d samples x all tilings into cycles x thresholds {0,1/3,1/2,1} x min_n_cycles 0..%d' % (ns, max_m)})
    return res


def run_edges(ctx, pid, nr, pmax=2):
    tab, n = ixf.edges_table(nr, pmax)
    res = _run(ctx, pid, 'MC_Edges', 'MC_Edges(rows=%d,period<=%d)' % (nr, pmax), {'NR': nr, 'PMax': pmax}, ['InvGrow', 'InvOnlyEdges', 'InvOneSidedLarger'], tab, n,
               lambda d: 'recompute_edges on volt_rise=%s volt_decay=%s period=%s blocked=%s, consistency thresholds %s, min_n_cycles=%s, peak-centred=%s: model old labels %s, '
                         'edited amp_consistency %s, period_consistency %s, new labels %s; implementation (ok, old, new, amp.., period..) %s'
               % (d[3], d[4], d[5], [int(x) for x in d[6]], d[7], d[8], d[9], d[10], d[11], d[12], d[13], d[14]))
    ctx.nontrivial += n
    ctx.sample({'mc_edges_input': {'volt_rise': [2, 2, 1, 2][:nr], 'volt_decay': [2, 2, 2, 1][:nr], 'period': [1, 1, 2, 1][:nr], 'thresholds': '1/2', 'min_n_cycles': 1},
                'space': 'all tables of %d cycles (rise, decay, period in 1..2, interior cycles optionally blocked) x thresholds {1/3,1/2} x min_n_cycles {1,2} x centring' % nr})
    return res


def run_pipeline(ctx, pid, ns, v, ne=8):
    tab, n = ixf.pipeline_table(ns, v, ne)
    res = _run(ctx, pid, 'MC_Pipeline', 'MC_Pipeline(N=%d,V=%d,extrema=%d)' % (ns, v, ne), {'NS': ns, 'V': v, 'NE': ne},
               ['InvTableWF', 'InvShapeWF', 'InvEndsNaN', 'InvEndsNotBurst', 'InvMirrorRows'], tab, n,
               lambda d: 'compute_features end to end on signal %s with extrema (peak, trough, ...) at %s, peak-centred=%s: specification (flat table) %s, implementation %s'
               % (d[3], d[4], d[5], d[6], d[7]))
    ctx.nontrivial += n
    ctx.sample({'mc_pipeline_input': {'sig': [0, 1, 0, 1, 1, 0, 1, 0, 1, 0][:ns], 'extrema': list(range(1, 9)), 'centre': 'trough'},
                'space': 'all signals [0..%d -> 0..%d] x all ascending %d-tuples of extrema (peak first) x both centrings, thresholds 1/4, 1/2, 1/2, 1/2, min_n_cycles 1' % (ns - 1, v, ne)})
    return res
