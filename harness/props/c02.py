"""C02 - extrema are raw-signal extremes of narrowband half-waves.

MC/IX: MC_Cyclepoints over all raw signals x sign patterns x boundaries x first_extrema in {peak, trough, None}; the real
       find_extrema (filter stubbed to realise TLC's sign pattern, non-positive samples materialised both as -1.0 and as an
       exact 0.0) must return exactly the specified extrema for every input.
TV   : direct find_extrema calls on the corpus (first_extrema x pad x boundary x filter options) and the find_extrema
       calls inside compute_features: filter arguments, pad length, filter input, extrema.
"""
import extrema_tv
import mc_cyc
import pipeline

PREFIXES = ['C02.']


def run(ctx):
    ctx.rule = ('MC/IX: all raw signals x sign patterns x boundary x first_extrema (non-trivial = extrema defined); TV: direct find_extrema '
                'calls (non-trivial = at least 3 peaks returned) and compute_features runs')
    ctx.assumptions = ['"band-passed" means what neurodsp.filter_signal returns for the documented arguments (arguments are checked, output is an environment input)']
    if ctx.quick:
        mc_cyc.run_cyclepoints(ctx, 'C02', 6, 2, [0, 1, 2], [0, 1, 2], which=('find_extrema',))
        extrema_tv.run(ctx, 240, PREFIXES)
        pipeline.run_corpus(ctx, 80, PREFIXES, seed_offset=2)
        pipeline.run_large(ctx, PREFIXES, 2, 3, 1)          # beyond small scopes: long cycles, long recordings
    else:
        mc_cyc.run_cyclepoints(ctx, 'C02', 7, 2, [0, 1, 2], [0, 1, 2], which=('find_extrema',))
        mc_cyc.run_cyclepoints(ctx, 'C02', 9, 1, [0, 1, 2], [0, 1, 2], which=('find_extrema',))
        extrema_tv.run(ctx, 4000, PREFIXES, max_len=2600)
        pipeline.run_corpus(ctx, 1000, PREFIXES, seed_offset=2, max_len=2600)
        pipeline.run_large(ctx, PREFIXES, 2, 12, 6)          # beyond small scopes: long cycles, long recordings


def replay(ctx, case):
    c = case['case']
    if c.get('kind') == 'pipeline':
        pipeline.replay_pipeline(ctx, c, PREFIXES)
    elif c.get('kind') == 'extrema':
        extrema_tv.replay(ctx, c, PREFIXES)
    else:
        mc_cyc.run_cyclepoints(ctx, 'C02', len(c['sig']), max(max(c['sig']), 1), [c['B']], [0, 1, 2], which=('find_extrema',))
