"""C15 - analysis functions are pure: no input mutation, no call-history dependence.

MC  : Session.tla - heap of caller-owned dictionaries with aliasing, two objects, histories of New / Fit / Recompute / Load / Edit / GetAttr / Call
      to the depth bound: HeapIsIntent, NoStale (INVARIANTs) and OnlyEditsWrite (action property); the named deviation of the pinned tree
      (an amp fit writes min_n_cycles back) must violate them (negative control).
RP  : TLC-generated behaviours (simulation of the same specification) are replayed on REAL Bycycle objects that share real dictionaries.
TV  : Trace_Session binds every recorded event to the Session action of the same name and compares the recorded post-state: every
      dictionary's contents, table after fit == functional compute_features with the settings as the user wrote them, recompute_edges(r)
      == functional recomputation with lowered thresholds, attribute access, load.  Group models are covered by C11 / C12.
"""
import session_check as sc

PREFIXES = ['C15.']


def run(ctx):
    ctx.rule = 'MC: all histories to depth 5 (thorough 6); RP/TV: TLC-simulated behaviours of depth 8 (10) replayed on real objects (non-trivial = contains a Fit and an Edit / Recompute / Call)'
    ctx.assumptions = ['an analysis is abstracted to its effective-parameter vector in the model; in the replay equality of analyses is equality of table fingerprints over float limbs']
    if ctx.quick:
        sc.run_mc(ctx, 'C15', 5)
        sc.run_rp(ctx, PREFIXES, 160, 8)
    else:
        sc.run_mc(ctx, 'C15', 6)
        sc.run_rp(ctx, PREFIXES, 2500, 10)


def replay(ctx, case):
    c = case.get('case') or {}
    if c.get('kind') == 'session':
        sc.replay_one(ctx, c['behaviour'], PREFIXES)
    else:
        sc.run_rp(ctx, PREFIXES, 40, 8)
