"""C03 - flank midpoints sit where the flank crosses its half-height.

MC/IX: MC_Zerox - every alternating extremum placement over every small integer signal; the specification's own invariants
       (one midpoint per flank, inside the flank, sample just before the crossing, floor-median, temporal centre for zero /
       inverted flanks) and agreement of the real find_zerox on every case.
TV   : find_zerox on what find_extrema returns (direct calls, any first_extrema) and inside compute_features.
"""
import extrema_tv
import mc_cyc
import pipeline

PREFIXES = ['C03.']


def run(ctx):
    ctx.rule = ('MC/IX: every signal x every alternating placement of >= 2 extrema x either kind first; TV: find_zerox on find_extrema '
                'output of generated signals (tie-rich classes over-weighted)')
    kinds = ['quantised', 'clipped', 'zeroed', 'noisy_flat', 'sine_bursts', 'asym', 'powerlaw_osc', 'quantised', 'clipped']
    if ctx.quick:
        mc_cyc.run_zerox(ctx, 'C03', 6, 2)
        extrema_tv.run(ctx, 200, PREFIXES, kinds=kinds)
        pipeline.run_corpus(ctx, 80, PREFIXES, seed_offset=3, kinds=kinds)
        pipeline.run_large(ctx, PREFIXES, 3, 3, 1)          # beyond small scopes: long cycles, long recordings
    else:
        mc_cyc.run_zerox(ctx, 'C03', 7, 2)
        mc_cyc.run_zerox(ctx, 'C03', 6, 3)
        extrema_tv.run(ctx, 3000, PREFIXES, kinds=kinds, max_len=2600)
        pipeline.run_corpus(ctx, 1500, PREFIXES, seed_offset=3, kinds=kinds, max_len=2600)
        pipeline.run_large(ctx, PREFIXES, 3, 12, 6)          # beyond small scopes: long cycles, long recordings


def replay(ctx, case):
    c = case['case']
    if c.get('kind') == 'pipeline':
        pipeline.replay_pipeline(ctx, c, PREFIXES)
    elif c.get('kind') == 'extrema':
        extrema_tv.replay(ctx, c, PREFIXES)
    else:
        mc_cyc.run_zerox(ctx, 'C03', len(c['sig']), max(max(c['sig']), 1))
