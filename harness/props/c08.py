"""C08 - the minimum-run filter removes exactly the short bursts.

(1) MC + IX: MC_RunFilter enumerates every boolean array up to length N and every min_n_cycles, runs the
    scanning state machine, checks C08 / agreement of the three definitions on the specification, and
    compares with the table of outputs of the REAL check_min_burst_cycles for the same inputs.
(P) PROOF: RunFilterProof.tla (TLAPS, 137 obligations): for boolean arrays of ANY length the maximal run through an index is unique, a
    whole maximal run is kept exactly when it is long enough (so kept or cleared entirely), nothing turns FALSE -> TRUE, raising
    min_n_cycles only removes labels, and (two inductions: the maximal run around a stretch of TRUEs exists) the filter is monotone in
    the ARRAY - fewer qualifying cycles, fewer kept ones: what C06 / C07 (raising a threshold) and C16 (bursts only grow) rest on.
(2) TV: random long arrays (to 2000 elements, run-length distributions around min_n_cycles) through the
    real function twice; Trace_RunFilter judges every recorded call.
"""
import json
import os
from multiprocessing import Pool

import numpy as np

import tlaps
import tlc

LEVEL = 'model_checking'


def _impl_range(args):
    n, lo, hi, max_m = args
    from bycycle.burst.utils import check_min_burst_cycles
    out = []
    for mask in range(lo, hi):
        b = np.array([(mask >> i) & 1 for i in range(n)], dtype=bool)
        for m in range(max_m + 1):
            wide = np.zeros(2 * n, dtype=bool)
            wide[::2] = b
            ro = b.copy()
            if mask % 3 == 1:
                ro.setflags(write=False)        # a read-only boolean array: what a table column is under pandas copy-on-write (df['is_burst'].values)
            for arg in (ro, np.ascontiguousarray(b[::-1])[::-1], wide[::2]):
                try:
                    r = check_min_burst_cycles(arg, min_n_cycles=m)
                    if not isinstance(r, np.ndarray) or len(r) != n:
                        out.append(-2)
                    else:
                        out.append(int(sum((1 << i) for i in range(n) if bool(r[i]))))
                except Exception:
                    out.append(-1)
    return out


def impl_table(max_n, max_m):
    jobs = []
    for n in range(max_n + 1):
        tot = 1 << n
        step = max(1, tot // 16) if tot > 4096 else tot
        for lo in range(0, tot, step):
            jobs.append((n, lo, min(tot, lo + step), max_m))
    with Pool(min(16, os.cpu_count() or 4)) as p:
        parts = p.map(_impl_range, jobs)
    tab = []
    for x in parts:
        tab.extend(x)
    return tab


def run_mc(ctx, max_n, max_m):
    tab = impl_table(max_n, max_m)
    path = os.path.join(ctx.scratch.path, 'impl_runfilter.json')
    tlc.dump_json(path, tab)
    cfg = tlc.cfg(constants={'MaxN': max_n, 'MaxM': max_m, 'UseImpl': True},
                  invariants=['InvC08', 'InvDefsAgree', 'InvIdempotent', 'InvMonotoneM', 'InvScan', 'InvRunLength'])
    res = tlc.must(tlc.run('MC_RunFilter', cfg, ctx.scratch, env={'IMPL_FILE': path}, coverage=True, timeout=3000),
                   'MC_RunFilter')
    ctx.add_tlc(res, 'MC_RunFilter(N=%d,M=%d)' % (max_n, max_m))
    n_inputs = ((1 << (max_n + 1)) - 1) * (max_m + 1)
    if len(tab) != 3 * n_inputs:
        raise tlc.TLCError('impl table size %d != %d' % (len(tab), n_inputs))
    import re
    m = re.search(r'Finished computing initial states: (\d+) distinct state', res['text'])
    if not m or int(m.group(1)) != n_inputs:
        raise tlc.TLCError('TLC initial states %s != enumerated inputs %d' % (m and m.group(1), n_inputs))
    if res['violated']:
        ctx.violation('C08.spec.' + res['violated'], 'specification-level invariant violated (design error): ' + res['error_trace'][:1500])
    dis = [p for p in res['prints'] if p[0] == 'DISAGREE']
    for d in dis[:20]:
        _, idx, b, m_, want, got = d[:6]
        ctx.violation('C08.impl_disagrees', 'check_min_burst_cycles(%s, min_n_cycles=%d): spec mask %d, implementation %s'
                      % ([int(x) for x in b], m_, want, got), {'kind': 'ix', 'b': [bool(x) for x in b], 'm': m_})
    ctx.traces += n_inputs
    ctx.evaluations += n_inputs
    # non-trivial: inputs with at least one run shorter than m and (for half of them) one at least m long
    nt = 0
    for n in range(max_n + 1):
        for mask in range(1 << n):
            runs = [len(r) for r in bin(mask)[2:].zfill(n).split('0') if r] if n else []
            for m_ in range(max_m + 1):
                if runs and min(runs) < m_:
                    nt += 1
    ctx.nontrivial += nt
    ctx.parts[-1]['exhaustive_within_bound'] = True        # the bounded part is complete; the run as a whole also samples beyond it
    ctx.sample({'input': [1, 1, 0, 1, 1, 1, 0, 1], 'min_n_cycles': 3, 'table_index': 'Index(b,m) = ((2^len-1)+mask)*(MaxM+1)+m'})
    return res


def gen_long(rng, n_cases, max_len):
    cases = []
    for k in range(n_cases):
        n = int(rng.integers(1, max_len + 1))
        m = int(rng.integers(0, 9))
        style = k % 5
        b = np.zeros(n, dtype=bool)
        i = 0
        val = bool(rng.integers(0, 2))
        while i < n:
            if style == 0:
                L = int(rng.integers(1, 2 * max(m, 1) + 2))
            elif style == 1:
                L = int(max(1, m + rng.integers(-1, 2)))          # runs of length m-1, m, m+1
            elif style == 2:
                L = int(rng.geometric(0.3))
            elif style == 4:      # bursts of hundreds of cycles (run lengths around 2^7 and 2^8) between short gaps
                L = int(rng.choice([126, 127, 128, 129, 200, 255, 256, 257, 300])) if val else int(rng.integers(1, 4))
            else:
                L = int(rng.integers(1, 40))
            b[i:i + L] = val
            i += L
            val = not val
        cases.append((b, m))
    return cases


def rle_record(rle, m):
    """One call on an array given in run-length coding (too long to log element by element): TRUE elements of the output inside each input run."""
    from bycycle.burst.utils import check_min_burst_cycles
    b = np.concatenate([np.full(L, v, dtype=bool) for v, L in rle])
    o = np.asarray(check_min_burst_cycles(b.copy(), min_n_cycles=m), dtype=bool)
    o2 = np.asarray(check_min_burst_cycles(o.copy(), min_n_cycles=m), dtype=bool)
    edges = np.cumsum([0] + [L for _, L in rle])

    def per_run(x):
        return [int(np.count_nonzero(x[edges[k]:edges[k + 1]])) if len(x) >= edges[k + 1] else -1 for k in range(len(rle))]
    return {'rle': [[bool(v), int(L)] for v, L in rle], 'm': int(m), 'n_out': int(len(o)), 'kept': per_run(o), 'kept2': per_run(o2), 'b': [], 'out': [], 'out2': []}


def run_tv(ctx, n_cases, max_len):
    from bycycle.burst.utils import check_min_burst_cycles
    rng = np.random.default_rng(ctx.seed + 8)
    recs, nontriv = [], 0
    for b, m in gen_long(rng, n_cases, max_len):
        try:
            arg = b.copy()
            if len(recs) % 3 == 1:
                arg.setflags(write=False)       # a read-only array (a column of a pandas table, a memory-mapped file)
            o = check_min_burst_cycles(arg, min_n_cycles=m)
            o2 = check_min_burst_cycles(np.array(o).copy(), min_n_cycles=m)
            recs.append({'b': [bool(x) for x in b], 'm': m, 'out': [bool(x) for x in o], 'out2': [bool(x) for x in o2]})
        except Exception as e:
            ctx.violation('C08.raises', 'check_min_burst_cycles raised %s for len %d, m=%d' % (type(e).__name__, len(b), m),
                          {'kind': 'tv', 'b': [bool(x) for x in b], 'm': m})
    # run-length coded giants: arrays of 10^5 elements with runs around 2^15 and 2^16 (16-bit run lengths / indices), judged per run
    giants = 0
    for g in range(max(3, n_cases // 100)):
        m = int(rng.choice([0, 3, 5, 40000]))
        val, rle = bool(rng.integers(0, 2)), []
        for _ in range(int(rng.integers(3, 9))):
            L = int(rng.choice([1, 2, m or 1, 32767, 32768, 32769, 65535, 65536, 65537, 40000])) if val else int(rng.choice([1, 2, 7, 33000]))
            rle.append([val, L])
            val = not val
        try:
            recs.append(rle_record(rle, m))
            giants += 1
        except Exception as e:
            ctx.violation('C08.raises', 'check_min_burst_cycles raised %s for a run-length coded array %s, m=%d' % (type(e).__name__, rle, m), {'kind': 'rle', 'rle': rle, 'm': m})
    ctx.parts.append({'part': 'run_length_coded_giants', 'cases': giants})
    path = os.path.join(ctx.scratch.path, 'trace_runfilter.json')
    tlc.dump_json(path, recs)
    res = tlc.must(tlc.run('Trace_RunFilter', tlc.cfg(), ctx.scratch, env={'TRACE_FILE': path}, workers=8, timeout=1800),
                   'Trace_RunFilter')
    ctx.add_tlc(res, 'Trace_RunFilter')
    verdicts = {p[1]: p[2] for p in res['prints'] if p[0] == 'VERDICT'}
    if len(verdicts) != len(recs):
        raise tlc.TLCError('Trace_RunFilter: %d verdicts for %d cases' % (len(verdicts), len(recs)))
    for tid, fails in verdicts.items():
        r = recs[tid - 1]
        if r['b'] != r['out'] or 'rle' in r:
            nontriv += 1
        for f in fails:
            if 'rle' in r:
                ctx.violation(f, 'recorded call on a run-length coded array %s with min_n_cycles=%d: TRUE elements per run %s' % (r['rle'], r['m'], r['kept']), {'kind': 'rle', 'rle': r['rle'], 'm': r['m']})
                continue
            ctx.violation(f, 'recorded call on an array of length %d with min_n_cycles=%d' % (len(r['b']), r['m']),
                          {'kind': 'tv', 'b': r['b'], 'm': r['m']})
    ctx.traces += len(recs)
    ctx.evaluations += len(recs)
    ctx.nontrivial += nontriv
    ctx.sample({'trace_case': {'len': len(recs[0]['b']), 'm': recs[0]['m'], 'first_32': [int(x) for x in recs[0]['b'][:32]]}})


PROOF_THEOREMS = ['NoFalseToTrue', 'RunThroughAnIndexIsUnique', 'WholeRunsShareOneFate', 'KeptIffLongEnough', 'MonotoneInTheMinimum', 'ExtendLeft', 'ExtendRight', 'MaxRunAround', 'MonotoneInTheArray']


def run(ctx):
    ctx.rule = ('MC/IX: every boolean array of length 0..N x every min_n_cycles 0..M (TLC enumerates; the real function '
                'is run on each; non-trivial = has a run shorter than min_n_cycles); TV: random long arrays with run '
                'lengths around min_n_cycles (non-trivial = output differs from input)')
    ctx.assumptions = ['TLC and the projection (bit masks of boolean arrays) are trusted']
    if ctx.quick:
        run_mc(ctx, 11, 12)
        tlaps.run_proof(ctx, 'RunFilterProof', PROOF_THEOREMS)
        run_tv(ctx, 300, 1500)
    else:
        run_mc(ctx, 15, 16)
        tlaps.run_proof(ctx, 'RunFilterProof', PROOF_THEOREMS)
        run_tv(ctx, 3000, 2000)


def replay(ctx, case):
    from bycycle.burst.utils import check_min_burst_cycles
    c = case['case']
    if c.get('kind') == 'rle':
        recs = [rle_record(c['rle'], c['m'])]
    else:
        b = np.array(c['b'], dtype=bool)
        o = check_min_burst_cycles(b.copy(), min_n_cycles=c['m'])
        o2 = check_min_burst_cycles(np.array(o).copy(), min_n_cycles=c['m'])
        recs = [{'b': [bool(x) for x in b], 'm': c['m'], 'out': [bool(x) for x in o], 'out2': [bool(x) for x in o2]}]
    path = os.path.join(ctx.scratch.path, 'trace_runfilter.json')
    tlc.dump_json(path, recs)
    res = tlc.must(tlc.run('Trace_RunFilter', tlc.cfg(), ctx.scratch, env={'TRACE_FILE': path}, workers=1))
    for p in res['prints']:
        if p[0] == 'VERDICT':
            for f in p[2]:
                ctx.violation(f, 'replayed case')
