"""C12 - 3-D group results sit at the position of their signal.

MC  : MC_Pool - the pool invariants as for C11 plus PlacementOK / TransposeOK: the specification's Reshape (index (i-1)*n1 + j) and Transpose
      put the result of signal [i, j] at [i][j] for every shape up to 3 x 3, for every interleaving.
PROOF: PlacementProof.tla (TLAPS): the row-major index (i-1)*n1 + j is in range and injective for ALL extents n0, n1 (and the pinned tree's
      i + j collides as soon as both extents exceed 1) - the one part of C12 that is established without a bound.
RP/TV: every shape (n0, n1) in 1..3 x 1..3 (quick: a covering subset incl. n0 != n1 and size-1 dimensions) x axis in {0, 1, (0, 1)} x
      shared / 1-D / 2-D option lists x n_jobs, on the REAL compute_features_3d / BycycleGroup.fit with pairwise different signals and
      per-slice thresholds under injected worker delays; Trace_Pool places the per-task references with the specification's own Reshape /
      Transpose and compares every [i][j]; worker logs must be a behaviour of the pool specification.
"""
import itertools

import numpy as np

import pool_tv as pt
import tlaps
import tlc
from props import c11

PREFIXES = ['C12.']


def run_rp(ctx, shapes, per_shape_axes, big=()):
    rng = np.random.default_rng(ctx.seed + 12)
    logdir = ctx.scratch.sub('poollog3')
    cases, metas = [], []
    k = 0
    for (n0, n1) in shapes:
        for axis in per_shape_axes:
            for listed in (False, True):
                # the flattening of the first two axes is where memory order can leak: Fortran order / a transposed view whenever both extents exceed 1
                av = ([1, 3][listed] if (axis == (0, 1) and n0 > 1 and n1 > 1) else k + k // 5) % 6
                sigs = pt.vary(pt.make_sigs(rng, (n0, n1), n=128), av)
                if not listed:
                    kwargs = pt.kw_variant(rng, k)
                elif axis == (0, 1):
                    kwargs = pt.with_default_entry([[pt.kw_variant(rng, k + 3 * i + 5 * j) for j in range(n1)] for i in range(n0)], k)
                else:
                    kwargs = pt.with_default_entry([pt.kw_variant(rng, k + 3 * i) for i in range(n0 if axis == 0 else n1)], k)
                    for kw in kwargs:
                        kw['center_extrema'] = kwargs[0]['center_extrema']      # one centring per flattened analysis (documented)
                T = n0 * n1 if axis == (0, 1) else (n0 if axis == 0 else n1)
                n_jobs = [1, 2, 5][k % 3]
                order = tuple(int(x) + 1 for x in rng.permutation(T))
                delays = pt.delays_for(order, max(n_jobs, 1), rng) or [0.0] * T
                via_group = (not listed) and (k // 2) % 2 == 1
                progress = [None, 'tqdm'][(k // 3) % 2]
                case, realised = pt.run_3d(sigs, 64, (8, 12), kwargs, axis, n_jobs, delays, logdir, via_group=via_group, progress=progress)
                case['ref'] = pt.reference_3d(sigs, 64, (8, 12), kwargs, axis)
                case['pid'] = 'C12'
                if axis != (0, 1):
                    case['check_schedule'] = False if not case['logs'][0] else case['check_schedule']
                cases.append(case)
                metas.append({'shape': [n0, n1], 'array': pt.ARRAY_VARIANTS[av], 'axis': str(axis), 'options': ('2-D list' if axis == (0, 1) else '1-D list') if listed else 'shared',
                              'n_jobs': n_jobs, 'progress': progress, 'api': 'BycycleGroup.fit' if via_group else 'compute_features_3d',
                              'realised_completion_order': realised, 'worker_processes_used': len(case['logs'])})
                k += 1
    # beyond small scopes: more than 2^8 signals in one 3-D array (flat positions outgrow 8-bit integers), per-signal option table
    for (n0, n1) in big:
        sigs = pt.vary(pt.make_sigs(rng, (n0, n1), n=80), k)
        listed = k % 2 == 0
        kwargs = pt.with_default_entry([[pt.kw_variant(rng, k + 3 * i + 5 * j) for j in range(n1)] for i in range(n0)], k) if listed else pt.kw_variant(rng, k)
        case, realised = pt.run_3d(sigs, 64, (8, 12), kwargs, (0, 1), 8, [0.0] * (n0 * n1), logdir)
        case['ref'] = pt.reference_3d(sigs, 64, (8, 12), kwargs, (0, 1))
        case['pid'] = 'C12'
        case['check_logs'] = case['check_schedule']
        case['check_schedule'] = False
        cases.append(case)
        metas.append({'shape': [n0, n1], 'array': pt.ARRAY_VARIANTS[k % 6], 'axis': '(0, 1)', 'options': '2-D list' if listed else 'shared', 'n_jobs': 8, 'progress': None,
                      'api': 'compute_features_3d', 'realised_completion_order': [], 'worker_processes_used': len(case['logs'])})
        k += 1
    c11.judge(ctx, cases, metas, 'C12')
    ctx.nontrivial += sum(1 for m in metas if m['shape'][0] != m['shape'][1] or 1 in m['shape'])


def run_proof(ctx):
    """PlacementProof.tla: for ALL extents the row-major flat index of [i, j] lies in the task list and is injective (TLAPS, 34 obligations);
    TLC checks the same arithmetic only for shapes up to 3 x 3."""
    r = tlaps.prove('PlacementProof', ctx.scratch)
    if r is None:
        ctx.notes.append('tlapm not installed: PlacementProof not re-checked')
        return
    ok, n, text = r
    ctx.parts.append({'part': 'TLAPS.PlacementProof', 'obligations_proved': n, 'all_proved': ok,
                      'theorems': ['InRange', 'Injective', 'OldIndexCollides', 'MulMono']})
    if not ok:
        raise tlc.TLCError('TLAPS could not re-check PlacementProof.tla:\n' + text[-1500:])


def run(ctx):
    ctx.rule = ('MC: pool interleavings with the placement arithmetic; RP/TV: real 3-D group analyses over shapes x axis modes x option-list shapes x n_jobs '
                '(non-trivial = n0 != n1 or a size-1 dimension, or out-of-order completion)')
    ctx.assumptions = ['axis 0 / 1 references are the real compute_features_2d(slice, axis=None) (itself covered by C13); axis (0,1) references are solitary compute_features calls']
    axes = [0, 1, (0, 1)]
    if ctx.quick:
        c11.run_mc(ctx, 'C12', [(4, 2), (6, 3)])
        run_proof(ctx)
        run_rp(ctx, [(2, 3), (3, 1), (1, 2), (2, 2)], axes, big=[(9, 32)])
    else:
        c11.run_mc(ctx, 'C12', [(4, 2), (6, 3), (6, 6)])
        run_proof(ctx)
        run_rp(ctx, list(itertools.product([1, 2, 3], [1, 2, 3])) + [(2, 4), (4, 2)], axes, big=[(9, 32), (33, 8), (1, 300), (258, 1)])


def replay(ctx, case):
    run_rp(ctx, [(2, 3), (3, 1)], [0, 1, (0, 1)])
