"""C06 - consistency burst labels follow the threshold-and-run rule.

MC/IX: MC_Detect - every table of 4-5 cycles over ten threshold profiles (values just below / exactly on / just above the
       threshold, NaN) x every min_n_cycles: the rule in the property's words, ends never qualify, monotonicity in every
       threshold and in min_n_cycles; the real detect_bursts_cycles (real floats: nextafter(thr), thr, NaN) agrees everywhere.
TV   : compute_features(burst_method='cycles') on the corpus with thresholds partly taken from the table's own values:
       labels vs the rule on rank codes of the table's own floats (no tolerance near a threshold).
"""
import mc_feat
import pipeline

PREFIXES = ['C06.']


def run(ctx):
    ctx.rule = ('MC/IX: all profile tables x min_n_cycles; TV: generated signals, method cycles, thresholds on a lattice and from the table\'s own '
                'columns (equality occurs); non-trivial = distinct case with >= 3 cycles')

    def cyc(i, c):
        if c['opts']['burst_method'] != 'cycles':
            c['opts']['burst_method'] = 'cycles'
            c['opts']['burst_kwargs'] = None
            c['opts']['threshold_kwargs'] = {'amp_fraction_threshold': [0., .25, .5][i % 3], 'amp_consistency_threshold': [.25, .5, .8][(i // 3) % 3],
                                             'period_consistency_threshold': [.5, .25, .8][(i // 2) % 3], 'monotonicity_threshold': [.5, .6, .8, .25][i % 4],
                                             'min_n_cycles': i % 6}
    if ctx.quick:
        mc_feat.run_detect(ctx, 'C06', 4)
        cases, recs, _ = pipeline.run_corpus(ctx, 150, PREFIXES, seed_offset=6, mutate_opts=cyc)
        pipeline.run_large(ctx, PREFIXES, 6, 3, 1, mutate_opts=cyc)          # beyond small scopes: long cycles, long recordings
        own_values(ctx, 80)
    else:
        mc_feat.run_detect(ctx, 'C06', 5)
        pipeline.run_corpus(ctx, 3000, PREFIXES, seed_offset=6, mutate_opts=cyc, max_len=2600)
        pipeline.run_large(ctx, PREFIXES, 6, 12, 6, mutate_opts=cyc)          # beyond small scopes: long cycles, long recordings
        own_values(ctx, 1500)


def own_values(ctx, n):
    """Second pass: thresholds taken from the analysed table's own feature columns, so that value == threshold occurs."""
    import numpy as np
    import gen
    import warnings
    from bycycle.features import compute_features
    cases = gen.corpus(ctx.seed * 1000 + 66, n, max_len=700, kinds=['quantised', 'clipped', 'sine_bursts', 'asym'])
    rng = np.random.default_rng(ctx.seed + 67)
    for c in cases:
        o = c['opts']
        o['burst_method'], o['burst_kwargs'] = 'cycles', None
        o['threshold_kwargs'] = {'min_n_cycles': int(rng.integers(0, 4))}
        try:
            with warnings.catch_warnings():
                warnings.simplefilter('ignore')
                df = compute_features(c['sig'].copy(), c['fs'], c['f_range'], **{k: v for k, v in o.items()})
            for f in ('amp_fraction', 'amp_consistency', 'period_consistency', 'monotonicity'):
                vals = df[f].values[1:-1]
                vals = vals[np.isfinite(vals) & (vals >= 0) & (vals <= 1)]
                if len(vals):
                    o['threshold_kwargs'][f + '_threshold'] = float(vals[int(rng.integers(0, len(vals)))])
        except Exception:
            pass
    it = iter(cases)
    orig = gen.corpus
    try:
        gen.corpus = lambda *a, **k: cases
        pipeline.run_corpus(ctx, n, PREFIXES, seed_offset=66, label='own_thresholds')
    finally:
        gen.corpus = orig


def replay(ctx, case):
    c = case['case']
    if c.get('kind') == 'pipeline':
        pipeline.replay_pipeline(ctx, c, PREFIXES)
    else:
        mc_feat.run_detect(ctx, 'C06', 4)
