"""C01 - the cycle table is a complete, ordered, gap-free segmentation.

MC/IX: MC_Cyclepoints, peak-first analysis, every raw signal x filtered-sign pattern up to the bound: TableWF and
       one-row-per-cycle are INVARIANTs of the stage machine; the rows are compared with the real compute_cyclepoints.
MC/IX: MC_Pipeline, the whole analysis as ONE stage machine (extrema -> FindZerox -> Assemble -> ComputeShape -> ComputeBurstFeat -> DetectBursts)
       over every signal x every placement of 8 alternating extrema x both centrings, the complete returned table compared with the real
       compute_features (find_extrema replaced by TLC's placement): the glue between the stages (negation / renaming, column routing, labels).
TV   : the generated corpus over the full option grid through compute_features and Bycycle.fit; Trace_Pipeline checks
       totality under the precondition (evaluated on the recorded sign pattern), the rows against Assemble(spec), TableWF
       on the returned sample columns, the column set and return_samples.
"""
import mc_cyc
import mc_feat
import pipeline

PREFIXES = ['C01.']


def run(ctx):
    ctx.rule = ('MC/IX: all raw signals x all filtered-sign patterns (non-trivial = extrema defined); TV: generated signals of 10 waveform '
                'classes on a dyadic grid x option grid (non-trivial = distinct case with a table of >= 3 cycles)')
    ctx.assumptions = ['neurodsp filter output is taken as recorded at the boundary (its arguments are checked)',
                       'TLC, the JSON projection of tables and the harness-side interposition are trusted']
    if ctx.quick:
        mc_cyc.run_cyclepoints(ctx, 'C01', 8, 1, [0, 1], [0])
        mc_feat.run_pipeline(ctx, 'C01', 9, 1)          # the whole analysis as one stage machine, end to end
        pipeline.run_corpus(ctx, 260, PREFIXES, seed_offset=1, via_object_every=4, max_len=900)
        pipeline.run_large(ctx, PREFIXES, 1, 3, 1)          # beyond small scopes: long cycles, long recordings
    else:
        mc_cyc.run_cyclepoints(ctx, 'C01', 9, 1, [0, 1, 2], [0])
        mc_cyc.run_cyclepoints(ctx, 'C01', 7, 2, [0, 1], [0])
        mc_feat.run_pipeline(ctx, 'C01', 10, 1)
        mc_feat.run_pipeline(ctx, 'C01', 8, 2)
        pipeline.run_corpus(ctx, 4000, PREFIXES, seed_offset=1, via_object_every=4, max_len=2600)
        pipeline.run_large(ctx, PREFIXES, 1, 12, 6)          # beyond small scopes: long cycles, long recordings


def replay(ctx, case):
    c = case['case']
    if c.get('kind') == 'pipeline':
        pipeline.replay_pipeline(ctx, c, PREFIXES)
    else:
        mc_cyc.run_cyclepoints(ctx, 'C01', len(c['sig']), max(c['sig']) or 1, [c['B']], [0])
