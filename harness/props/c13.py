"""C13 - the epoched (axis=None) analysis partitions the flattened analysis.

MC/IX: MC_Tables (mode epoch) - every small table x every epoch length: Partition / exactly-one-epoch are INVARIANTs of the model; the
       real epoch_df agrees on every case (closing extremum exactly on an epoch boundary and empty epochs included).
PROOF: EpochProof.tla (TLAPS, 44 obligations): for ALL epoch lengths the intervals ((e-1)L, eL] are pairwise disjoint, cover every positive
       index and stay within the signal - every cycle lands in exactly one epoch, without a bound.
TV   : epoch_df on analysis tables of generated signals with random epoch lengths and lengths chosen so that a closing extremum falls
       exactly on a boundary; compute_features_2d(axis=None) with one option set (labels = those of the flattened analysis) and with a
       per-epoch list (each epoch re-labelled by the rule with its own thresholds, judged on rank codes), both methods and centrings.
"""
import numpy as np

import gen
import mc_tables
import project as pj
import tables_tv as tt
import tlaps

PREFIXES = ['C13.']


def run_tv(ctx, n_tables, n_2d, max_len=800):
    rng = np.random.default_rng(ctx.seed + 13)
    recs, metas = [], []
    for c, df in tt.analysis_tables(ctx, n_tables, 131, max_len=max_len, large=(1, 1) if n_tables < 100 else (4, 4)):
        n = len(c['sig'])
        nxt = df[tt.roles_of(df)[5]].values
        for L in {int(rng.integers(20, max(21, n // 2))), int(nxt[int(rng.integers(0, len(nxt)))]), int(nxt[-1]), max(1, int(nxt[0]) // 2)}:
            if L < 1:
                continue
            recs.append(tt.record_epoch_df(df, n, L, lab=len(recs)))
            metas.append({'kind': c['kind'], 'labels': pj.LABELLINGS[(len(recs) - 1) % 4], 'n': n, 'epoch_len': L, 'cycles': len(df), 'closing_extremum_on_boundary': bool(np.any(nxt % L == 0)),
                          'centre': c['opts']['center_extrema']})
    nontriv = sum(1 for m in metas if m['closing_extremum_on_boundary'])
    tt.judge(ctx, recs, metas, PREFIXES, 'epoch_df')
    recs2, metas2 = [], []
    cases = gen.corpus(ctx.seed * 1000 + 132, n_2d, max_len=max_len)
    for i, c in enumerate(cases):
        n = len(c['sig'])
        per_epoch = i % 2 == 1
        L = int([n // 2, n // 3, n // 5, max(8, n // 12), n][i % 5])
        r = tt.record_epochs2d(c, L, per_epoch, rng, layout=i // 2, same_object=(i % 6 == 5))
        if r is None:
            continue
        recs2.append(r)
        metas2.append({'kind': c['kind'], 'array': ['c_contiguous', 'fortran_order', 'strided_view', 'transposed_view'][(i // 2) % 4], 'n': n, 'epoch_len': L, 'epochs': n // L, 'per_epoch_options': per_epoch, 'one_dictionary_object_repeated': bool(per_epoch and i % 6 == 5), 'method': c['opts']['burst_method'],
                       'centre': c['opts']['center_extrema'], 'empty_epochs': sum(1 for t in r['out'] if not t)})
    tt.judge(ctx, recs2, metas2, PREFIXES, 'axis_none')
    ctx.nontrivial += nontriv + sum(1 for m in metas2 if m['epochs'] >= 2)
    if metas:
        ctx.sample({'epoch_df_case': metas[0]})
    if metas2:
        ctx.sample({'axis_none_case': metas2[0]})
    ctx.parts.append({'part': 'corpus.epochs', 'epoch_df_calls': len(recs), 'on_boundary': nontriv, 'axis_none_calls': len(recs2),
                      'per_epoch_lists': sum(1 for m in metas2 if m['per_epoch_options']), 'with_empty_epochs': sum(1 for m in metas2 if m['empty_epochs'])})


def run(ctx):
    ctx.rule = ('MC/IX: all small tables x epoch lengths; TV: epoch_df on analysis tables (non-trivial = a closing extremum exactly on an epoch boundary) and '
                'compute_features_2d(axis=None) runs with >= 2 epochs, single and per-epoch option sets')
    if ctx.quick:
        mc_tables.run(ctx, 'C13', 8, 'epoch_df')
        tlaps.run_proof(ctx, 'EpochProof', ['AtMostOneEpoch', 'SomeEpoch', 'WithinTheSignal', 'MulMono'])
        run_tv(ctx, 40, 60)
    else:
        mc_tables.run(ctx, 'C13', 10, 'epoch_df')
        tlaps.run_proof(ctx, 'EpochProof', ['AtMostOneEpoch', 'SomeEpoch', 'WithinTheSignal', 'MulMono'])
        run_tv(ctx, 600, 800, max_len=2600)


def replay(ctx, case):
    run_tv(ctx, 20, 30)
