"""C10 - results are covariant with amplitude and sampling-rate units.

MC  : design level - the specification mentions voltages only through order, sums and ratios (MC_BurstFeat InvRankScale; the Pipeline
      operators take no fs), checked on all small inputs together with the real functions.
TV  : triples from the corpus: the analysis of s, of 2**k * s (k in -20..20) and of (s, c*fs, c*f_range) for c in {1/2, 2, 4}
      (filter length in cycles): Trace_Relations requires identical indices / durations / ratios / labels, voltages and band_amp
      scaled by exactly 2**k, and a bit-identical table under the unit change of fs.  The recorded environment outputs (sign pattern,
      detector mask, filter length) must coincide - an assumption about neurodsp that is checked, not trusted.
"""
import mc_feat
import relations

PREFIXES = ['C10.']


def run(ctx):
    ctx.rule = 'pairs of recorded runs on generated signals, power-of-two factors (non-trivial = table with >= 3 cycles)'
    ctx.assumptions = ['scale factors are powers of two so that IEEE arithmetic commutes exactly with the scaling (stated in the property)']
    if ctx.quick:
        mc_feat.run_burstfeat(ctx, 'C10', 3, 0, 2, 2)
        relations.run(ctx, 'C10.amp', 90, PREFIXES, 10)
        relations.run(ctx, 'C10.fs', 90, PREFIXES, 11)
    else:
        mc_feat.run_burstfeat(ctx, 'C10', 4, 0, 2, 2)
        relations.run(ctx, 'C10.amp', 2000, PREFIXES, 10, max_len=2600)
        relations.run(ctx, 'C10.fs', 2000, PREFIXES, 11, max_len=2600)


def replay(ctx, case):
    import pipeline, tv
    import numpy as np
    rel = case['case'].get('rel', 'C10.amp')
    for seed in range(4):
        c = pipeline.case_from_payload(case['case'])
        b, _ = relations._variant(c, rel, np.random.default_rng(seed))
        ra, sa = relations._rec(c)
        rb, sb = relations._rec(b)
        v = tv.validate(ctx, 'Trace_Relations', [{'rel': rel, 'A': sa, 'B': sb}], jvms=1)
        for f in v[0]:
            if f.startswith('C10.') and '.env.' not in f:
                ctx.violation(f, 'replayed: %s' % v[0])
