"""C20 - plots draw the analysis they are given.

TV  : Trace_Plots - plot_cyclepoints_df / _array, plot_burst_detect_param, plot_burst_detect_summary and Bycycle.plot are called under the Agg
      backend on analysis tables of generated signals (both centrings, both burst methods) with no x-limits and with x-limits on the sample grid
      (random windows, windows exactly on cycle boundaries, windows without a complete cycle), plot_only_result / interp and the cyclepoint-kind
      switches; the artists' data are mapped back to samples and TLC evaluates the bounds of Plots.tla:
      drawn markers are genuine cyclepoints of their kind, at the plotted signal's value, every cyclepoint strictly inside the view is drawn;
      the highlighted samples lie in burst cycles and cover every completely displayed burst cycle; panel vertices are genuine (centre | side,
      value) pairs, every cycle completely in view is shown, and the threshold line is at the threshold.
MC/IX: MC_Plots - TLC enumerates every side-extremum set on N samples x centring x every window on the sample grid (and none) x five plot
      modes (summary interp/step, cyclepoints_df, param interp/step) and judges, for each point, the drawing recorded from the real function
      (looked up by a key built from the point; the recorded table must be the one TLC builds).
"""
import itertools

import numpy as np

import plots_tv as pv
import tables_tv as tt
import tv
import ix_tables

PREFIXES = ['C20.']
CYC_THR = {'amp_fraction_threshold': .2, 'amp_consistency_threshold': .4, 'period_consistency_threshold': .5, 'monotonicity_threshold': .6}       # pairwise different: a mixed-up line shows
AMP_THR = {'burst_fraction_threshold': .5}


def windows_for(df, n, rng, k, fs=None):
    roles = tt.roles_of(df)
    last, nxt = df[roles[1]].values, df[roles[5]].values
    m = len(df)
    cands = [(None, None),
             (int(last[m // 3]), int(nxt[min(m - 1, m // 3 + 3)])),            # exactly on cycle boundaries
             (int(last[1]) + 1, int(nxt[-2]) - 1),
             (int(rng.integers(1, n // 2)), int(rng.integers(n // 2 + 2, n + 1))),
             (0, int(nxt[m // 2])),
             (int(last[m // 2]) + 1, int(last[m // 2]) + 3),                    # no complete cycle
             (int(rng.integers(0, n // 3)), None), (None, int(rng.integers(n // 2, n)))]
    out = [cands[(k + j) % len(cands)] for j in range(3)]
    if fs is not None and k % 2 == 0:
        # a start s whose time s/fs multiplies back to a hair ABOVE s (fs not a power of two) and that is not an extremum itself: everything the
        # property demands is still decidable there (no cycle boundary on the limit), a one-sample slip of the shifted indices is not
        sides = set(int(x) for x in last) | set(int(x) for x in nxt)
        s_above = next((s_ for s_ in range(int(last[0]) + 1, max(int(last[0]) + 2, n // 2)) if fs * (s_ / fs) > s_ and int(fs * (s_ / fs)) == s_ and s_ not in sides), None)
        if s_above is not None:
            out[-1] = (s_above, None)
    return out


def run_tv(ctx, n_tables, max_len=640):
    rng = np.random.default_rng(ctx.seed + 20)
    tabs = tt.analysis_tables(ctx, n_tables, 201, max_len=max_len)
    recs, metas = [], []
    k = 0
    for c, df in tabs:
        df = df.drop(columns=['rowid'])
        method = c['opts']['burst_method']
        base = list((CYC_THR if method == 'cycles' else AMP_THR).items())
        rot = (k // 9) % len(base)
        base = base[rot:] + base[:rot]          # the thresholds written in another order: a dictionary's order carries no meaning
        at = [len(base), 0, len(base) // 2][(k // 3) % 3]        # min_n_cycles written last, first or in the middle of the dictionary
        thr = dict(base[:at] + [('min_n_cycles', 2)] + base[at:])
        n = len(c['sig'])
        for (a, b) in windows_for(df, n, rng, k, c['fs']):
            ops = [('summary', {'interp': bool(k % 2), 'only_result': k % 5 == 0}), ('cyclepoints_df', {'plot_zerox': k % 3 != 0, 'plot_extrema': k % 4 != 1, 'plot_sig': k % 2 == 0}),
                   ('param', {'interp': bool((k // 2) % 2), 'param_index': k}), ('cyclepoints_array', {'rise': k % 2 == 0, 'decay': k % 3 != 1, 'plot_sig': True}),
                   ('object', {'interp': bool(k % 2), 'only_result': k % 7 == 0})]
            op, flags = ops[k % len(ops)]
            if op in ('cyclepoints_df', 'cyclepoints_array') and not (flags.get('plot_extrema', True) or flags.get('plot_zerox', True)):
                flags['plot_extrema'] = True
            recs.append((op, df, c['sig'], c['fs'], thr, a, b, flags))
            metas.append({'op': op, 'kind': c['kind'], 'n': n, 'fs': c['fs'], 'centre': c['opts']['center_extrema'], 'method': method, 'window_samples': [a, b],
                          'flags': flags, 'cycles': len(df)})
            k += 1
    judge(ctx, recs, metas, 'corpus')


def classify(m, f, raised):
    """Stable key: clause + call site class + window class (used to match known findings)."""
    a, b = m['window_samples']
    wclass = 'no_xlim' if a is None and b is None else ('window_from_0' if not a else 'window_not_from_0')
    exact = pv.exact_window(m['n'], m['fs'], a, b)
    return '%s.%s.%s%s' % (f, m['op'], wclass, '' if exact else '.fs_times_limit_inexact_' + pv.inexact_direction(m['n'], m['fs'], a, b))


def _rec(job):
    return pv.record_plot(*job)


def record_all(jobs):
    import concurrent.futures as cf
    import os
    if len(jobs) < 12:
        return [_rec(j) for j in jobs]
    with cf.ProcessPoolExecutor(max_workers=min(14, os.cpu_count() or 4)) as ex:
        return list(ex.map(_rec, jobs, chunksize=4))


def judge(ctx, recs, metas, label):
    recs = record_all(recs)
    verdicts = tv.validate(ctx, 'Trace_Plots', recs, label='Trace_Plots.' + label)
    for r, m, fails in zip(recs, metas, verdicts):
        for f in fails:
            ctx.violation(classify(m, f, r['raised']), '%s (raised=%r)' % (m, r['raised']), {'kind': 'plot', 'meta': m})
    ctx.traces += len(recs)
    ctx.evaluations += len(recs)
    ctx.nontrivial += sum(1 for m in metas if m['window_samples'] != [None, None] and m['window_samples'] != (None, None))
    if metas:
        ctx.sample({'plot_case': metas[0]})
    ctx.parts.append({'part': 'plots.' + label, 'calls': len(recs), 'by_op': {op: sum(1 for m in metas if m['op'] == op) for op in {m['op'] for m in metas}},
                      'raised': sum(1 for r in recs if r['raised'])})


def run_small(ctx, ns):
    """MC_Plots: TLC enumerates every side-extremum set on ns samples x centring x window on the sample grid (and none) x plotting function /
    mode, and judges the drawing recorded from the real function for each point (looked up by key)."""
    import os
    import re
    import tlc
    sig = np.round(np.sin(np.arange(ns) * 1.3) * 8) / 8 + np.arange(ns) * 0.125
    thr = dict(CYC_THR, min_n_cycles=1)
    jobs, keys = [], []
    wins = [(None, None)] + [(a, b) for a in range(0, ns + 1) for b in range(0, ns + 1) if b >= a + 2]
    for sides in ix_tables.side_sets(ns):
        if len(sides) < 3:
            continue
        mask = sum(1 << i for i in sides)
        for peak in (True, False):
            df = ix_tables.table_of(sides, peak).drop(columns=['rowid', 'feat'])
            m = len(df)
            for j, col in enumerate(['amp_fraction', 'amp_consistency', 'period_consistency', 'monotonicity']):
                df[col] = [((i * 7 + j * 3) % 10) / 10.0 for i in range(m)]
            df['is_burst'] = [(i + len(sides)) % 3 != 0 for i in range(m)]
            for (a, b) in wins:
                for opname, op, flags in (('summary_interp', 'summary', {'interp': True}), ('summary_step', 'summary', {'interp': False}), ('cyclepoints_df', 'cyclepoints_df', {}),
                                          ('param_interp', 'param', {'interp': True, 'param_index': len(sides) + (a or 0)}),
                                          ('param_step', 'param', {'interp': False, 'param_index': len(sides) + (b or 0)})):
                    jobs.append((op, df, sig, 64, thr, a, b, flags))
                    keys.append('%d%s/%s/%s' % (mask, 'p' if peak else 't', 'N' if a is None else '%d-%d' % (a, b), opname))
    recs = record_all(jobs)
    path = os.path.join(ctx.scratch.path, 'impl_plots.json')
    tlc.dump_json(path, dict(zip(keys, recs)))
    cfg = tlc.cfg(constants={'NS': ns, 'UseImpl': True}, invariants=['InvBoundsConsistent'])
    res = tlc.must(tlc.run('MC_Plots', cfg, ctx.scratch, env={'IMPL_FILE': path}, coverage=True, timeout=3000, workers=8), 'MC_Plots')
    os.remove(path)
    ctx.add_tlc(res, 'MC_Plots(N=%d)' % ns)
    mm = re.search(r'Finished computing initial states: (\d+) distinct state', res['text'])
    if not mm or int(mm.group(1)) != len(keys):
        raise tlc.TLCError('MC_Plots: initial states %s != %d recorded drawings' % (mm and mm.group(1), len(keys)))
    if res['violated']:
        ctx.violation('C20.spec.' + res['violated'], res['error_trace'][:1200])
    nd = 0
    for d in res['prints']:
        if d[0] != 'DISAGREE':
            continue
        nd += 1
        if nd <= 10:
            _, _, opname, sides_, peak_, win_, clauses = d
            a_, b_ = (None, None) if win_[0] == -1 else (win_[0], win_[1])
            mmeta = {'op': opname, 'sides': sides_, 'n': ns, 'fs': 64, 'centre': 'peak' if peak_ else 'trough', 'window_samples': [a_, b_]}
            for f in clauses[:3]:
                ctx.violation(classify(mmeta, f, ''), 'small-scope table %s' % mmeta, {'kind': 'mc_plots', 'meta': mmeta})
    ctx.traces += len(keys)
    ctx.evaluations += len(keys)
    ctx.nontrivial += sum(1 for k in keys if '/N/' not in k)
    ctx.parts[-1].update({'drawings': len(keys), 'violating': nd, 'exhaustive_within_bound': True})
    ctx.sample({'mc_plots_point': {'sides': [0, 2, 5], 'centre': 'trough', 'window': [1, 6], 'op': 'summary_step'},
                'space': 'every side-extremum set (>= 2 cycles) on %d samples x centring x every window on the sample grid (and none) x 5 plot modes' % ns})


def run(ctx):
    ctx.rule = ('TV: plotting calls on analysis tables of generated signals x windows on the sample grid x flags (non-trivial = with x-limits); '
                'small scope: every side-extremum set on N samples x every window (one plotting function per case, rotating)')
    ctx.assumptions = ['artist data under the Agg backend are inspected, not pixels', 'x-limits are taken from the plotted time vector, so they fall on sample times by construction']
    if ctx.quick:
        run_tv(ctx, 36)
        run_small(ctx, 7)
    else:
        run_tv(ctx, 500, max_len=1500)
        run_small(ctx, 9)


def replay(ctx, case):
    run_tv(ctx, 20)
