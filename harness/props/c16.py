"""C16 - edge recomputation touches only burst edges and only grows bursts.

MC/IX: MC_Edges - every small consistency table x thresholds on {1/3, 1/2} x min_n_cycles x centring, as a stage machine
       features -> Label -> Recompute -> Relabel: Grows(old, new), only-edges-changed and one-sided >= two-sided are INVARIANTs;
       the real compute_*_consistency -> detect_bursts_cycles -> recompute_edges chain is compared on every input (edge values
       as exact rationals, a one-cycle gap may carry either one-sided value).
TV   : recompute_edges and Bycycle.recompute_edges(reduction) on consistency-labelled tables of generated signals (both
       centrings, same / lowered / otherwise changed thresholds): untouched input, unchanged other columns and non-edge cycles
       (bit identity), edge values = one-sided definitions on the table's own volt/period columns, labels = rule on rank codes
       of the OUTPUT table, bursts only grow.
"""
import copy
import warnings

import numpy as np

import gen
import mc_feat
import project as pj
import record
import tables_tv as tt
import tv

PREFIXES = ['C16.']
OTHER_EXCL = ('amp_consistency', 'period_consistency', 'is_burst')


def _int(x):
    """total projection: a value that is not an integer (a NaN in a row the function invented) becomes the off-grid token"""
    try:
        return int(x) if float(x) == int(x) else 999999999
    except (TypeError, ValueError, OverflowError):
        return 999999999


def project(df, e, thr=None):
    rows = []
    recs = df.to_dict('records')
    others = [c for c in df.columns if c not in OTHER_EXCL]
    for r in recs:
        row = {'R': pj.dyadic(r['volt_rise'], e), 'D': pj.dyadic(r['volt_decay'], e), 'P': _int(r['period']),
               'ac': pj.rat(r['amp_consistency'], D=1000000), 'pc': pj.rat(r['period_consistency'], D=1000000),
               'ac_l': pj.limbs(r['amp_consistency']), 'pc_l': pj.limbs(r['period_consistency']),
               'lab': bool(r['is_burst']) if r['is_burst'] == r['is_burst'] else False, 'fp': tt.col_fp([float(r[c]) for c in others])}
        if row['R'] is None or row['D'] is None:
            row['R'] = row['D'] = 999999999
        rows.append(row)
    tcodes = []
    if thr is not None:
        for c in record.FEAT4:
            codes, tc = pj.rank_codes(df[c].values, [thr.get(c + '_threshold', record.DEFAULT_THR[c + '_threshold'])])
            tcodes.append(tc[0])
            for i in range(len(rows)):
                rows[i].setdefault('codes', []).append(codes[i])
    return rows, tcodes


def run_tv(ctx, n_cases, max_len=800):
    from bycycle.features import compute_features
    from bycycle.burst.utils import recompute_edges
    from bycycle import Bycycle
    cases = gen.corpus(ctx.seed * 1000 + 16, n_cases, max_len=max_len, kinds=['sine_bursts', 'asym', 'powerlaw_osc', 'two_osc', 'quantised', 'clipped', 'zeroed', 'noisy_flat'])
    cases += gen.large_cases(ctx.seed * 1000 + 716, 1 if n_cases < 1000 else 4, 1 if n_cases < 1000 else 4)      # tables of hundreds / thousands of cycles
    rng = np.random.default_rng(ctx.seed + 161)
    recs, metas = [], []
    for i, c in enumerate(cases):
        o = copy.deepcopy(c['opts'])
        o['burst_method'], o['burst_kwargs'] = 'cycles', None
        th = {'amp_fraction_threshold': float(rng.choice([0., .2, .4])), 'amp_consistency_threshold': float(rng.choice([.3, .5, .7])),
              'period_consistency_threshold': float(rng.choice([.3, .5, .7])), 'monotonicity_threshold': float(rng.choice([.3, .5, .7])),
              'min_n_cycles': int(rng.integers(1, 4))}
        o['threshold_kwargs'] = th
        o['return_samples'] = i % 5 != 4
        mode = ['same', 'lowered', 'changed', 'object'][i % 4]
        inexact = mode == 'object' and i % 8 == 7      # a reduction whose result is not a short decimal (.7 - .2 = 0.49999999999999994), with feature values exactly .5
        if inexact:
            th.update({'amp_fraction_threshold': .7, 'amp_consistency_threshold': .3, 'period_consistency_threshold': .3, 'monotonicity_threshold': .3, 'min_n_cycles': 1})
        with warnings.catch_warnings():
            warnings.simplefilter('ignore')
            try:
                df = compute_features(c['sig'].copy(), c['fs'], c['f_range'], **copy.deepcopy(o))
            except Exception:
                continue
            if len(df) < 4:
                continue
            df = pj.relabel(df, i // 4)          # the user's table: its row labels are not part of the abstract table
            if mode == 'object' and i % 16 == 11:
                # thresholds with three and more decimals, placed just below the value of a cycle that is part of a burst: lowering "by r" must not
                # round the result (and the settings may be numpy scalars)
                lab = df['is_burst'].values
                inside = [j for j in range(1, len(df) - 1) if lab[j]]
                if inside:
                    j = inside[len(inside) // 2]
                    for col in ('monotonicity', 'period_consistency', 'amp_consistency'):
                        v_j = float(df[col].values[j])
                        t = next((v_j - d for d in (0.001, 0.002, 0.004) if 0 < v_j - d and round(v_j - d, 2) >= v_j), None)
                        if t is not None:
                            th[col + '_threshold'] = t
                    th = {k: (np.float64(v) if isinstance(v, float) else v) for k, v in th.items()}
                    o['threshold_kwargs'] = th
                    df = pj.relabel(compute_features(c['sig'].copy(), c['fs'], c['f_range'], **copy.deepcopy(o)), i // 4)
            th2 = dict(th)
            red = 0.0
            if mode == 'lowered':
                red = float(rng.choice([0.1, 0.2]))
                for k in th2:
                    if k.endswith('_threshold'):
                        th2[k] = th2[k] - red
                if min(v for k, v in th2.items() if k.endswith('_threshold')) < 0:
                    th2, mode = dict(th), 'same'
            elif mode == 'changed':
                th2['amp_consistency_threshold'] = float(rng.choice([0.0, 0.9]))
                th2['min_n_cycles'] = int(rng.integers(0, 5))
            pre = tt.snapshot(df)
            raised, out = '', None
            try:
                if mode == 'object':
                    red = 0.2 if inexact else float(rng.choice([0.0, 0.1]))
                    if min(v - red for k, v in th.items() if k.endswith('_threshold')) < 0:
                        red = 0.0            # a reduction below zero is an invalid setting (C19), not a case of C16
                    b = Bycycle(center_extrema=o['center_extrema'], burst_method='cycles', thresholds=copy.deepcopy(th),
                                find_extrema_kwargs=copy.deepcopy(o['find_extrema_kwargs']), return_samples=o['return_samples'])
                    if (i // 4) % 2 == 0:
                        # the object has a history: it was fitted to another recording before the user's table was loaded - the table HELD is recomputed
                        with warnings.catch_warnings():
                            warnings.simplefilter('ignore')
                            try:
                                b.fit(c['sig'][::-1].copy(), c['fs'], c['f_range'])
                            except Exception:
                                pass
                    b.load(df, c['sig'], c['fs'], c['f_range'])
                    b.recompute_edges(red if red else None)
                    if i % 8 == 3:
                        # the user recomputes a second time on the same object: the SECOND call is judged (input = table after the first call,
                        # thresholds = the object's thresholds lowered by r once, not twice)
                        df = b.df_features
                        pre = tt.snapshot(df)
                        b.recompute_edges(red if red else None)
                    out = b.df_features
                    th2 = {k: (v - red if k.endswith('_threshold') else v) for k, v in th.items()}
                    if min(v for k, v in th2.items() if k.endswith('_threshold')) < 0:
                        continue
                else:
                    out = recompute_edges(df, dict(th2))
            except Exception as ex:
                raised = type(ex).__name__ + ':' + str(ex)[:60]
        inp, _ = project(df, c['e'])
        outp, tcodes = project(out, c['e'], th2) if out is not None else ([], [0, 0, 0, 0])
        recs.append({'peakC': o['center_extrema'] == 'peak', 'inp': inp, 'out': outp, 'thr': tcodes, 'm': int(th2.get('min_n_cycles', 3)),
                     'same_thr': th2 == th, 'lowered': all(th2[k] <= th[k] for k in th if k.endswith('_threshold')) and th2.get('min_n_cycles') == th.get('min_n_cycles'),
                     'pre': pre, 'post': tt.snapshot(df), 'raised': raised})
        lab = [r['lab'] for r in inp]
        metas.append({'kind': c['kind'], 'labels': pj.LABELLINGS[(i // 4) % 4], 'centre': o['center_extrema'], 'return_samples': o['return_samples'], 'mode': mode, 'reduction': red,
                      'cycles': len(df), 'bursting': int(sum(lab)), 'thresholds': th, 'n': len(c['sig']), 'fs': c['fs']})
    verdicts = tv.validate(ctx, 'Trace_Edges', recs, label='Trace_Edges')
    for r, m, fails in zip(recs, metas, verdicts):
        for f in fails:
            key = f
            if not m['return_samples'] and m['centre'] == 'peak' and f in ('C16.edge_amp_consistency', 'C16.labels_not_rule_on_edited_table', 'C16.bursts_do_not_only_grow'):
                key = f + '.peak_table_without_sample_columns'
            ctx.violation(key, 'recompute_edges (%s)' % m, {'kind': 'edges', 'meta': m})
    ctx.traces += len(recs)
    ctx.evaluations += len(recs)
    ctx.nontrivial += sum(1 for m in metas if m['bursting'] > 0)
    if metas:
        ctx.sample({'recompute_edges_case': metas[0]})
    ctx.parts.append({'part': 'corpus.recompute_edges', 'calls': len(recs), 'with_bursts': sum(1 for m in metas if m['bursting'] > 0),
                      'modes': {k: sum(1 for m in metas if m['mode'] == k) for k in ('same', 'lowered', 'changed', 'object')}})


def run(ctx):
    ctx.rule = ('MC/IX: all small consistency tables x thresholds x min_n_cycles x centring; TV: recompute_edges on labelled tables of generated signals '
                '(non-trivial = table with at least one burst)')
    if ctx.quick:
        mc_feat.run_edges(ctx, 'C16', 4, 1)
        run_tv(ctx, 160)
        from props import c14
        c14.run_group_models(ctx, 1, pid='C16')          # BycycleGroup.recompute_edges: every model's table, 2-D and 3-D (n0 != n1)
    else:
        mc_feat.run_edges(ctx, 'C16', 4, 2)
        mc_feat.run_edges(ctx, 'C16', 5, 1)
        run_tv(ctx, 3000, max_len=2600)
        from props import c14
        c14.run_group_models(ctx, 4, pid='C16')


def replay(ctx, case):
    run_tv(ctx, 60)
