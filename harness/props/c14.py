"""C14 - Bycycle objects reproduce the functional API and hold no stale state.

MC  : Session.tla - heap of caller-owned dictionaries with aliasing, two objects, histories of New / Fit / Recompute / Load / Edit / GetAttr / Call
      to the depth bound: HeapIsIntent, NoStale (INVARIANTs) and OnlyEditsWrite (action property); the named deviation of the pinned tree
      (an amp fit writes min_n_cycles back) must violate them (negative control).
RP  : TLC-generated behaviours (simulation of the same specification) are replayed on REAL Bycycle objects that share real dictionaries.
TV  : Trace_Session binds every recorded event to the Session action of the same name and compares the recorded post-state: every
      dictionary's contents, table after fit == functional compute_features with the settings as the user wrote them, recompute_edges(r)
      == functional recomputation with lowered thresholds, attribute access, load.  Group models are covered by C11 / C12.
"""
import session_check as sc

PREFIXES = ['C14.']


def run_group_models(ctx, n, pid='C14'):
    """BycycleGroup.models mirror df_features and sigs position by position (2-D and 3-D, all axis modes), judged by Trace_Pool."""
    import numpy as np
    import pool_tv as pt
    from props import c11
    rng = np.random.default_rng(ctx.seed + 14)
    logdir = ctx.scratch.sub('poollog14')
    cases, metas = [], []
    k = 0
    for (n0, n1) in [(2, 3), (3, 2), (2, 2), (1, 3)][:n]:
        for axis in (0, 1, (0, 1)):
            sigs = pt.make_sigs(rng, (n0, n1), n=128)
            kw = pt.kw_variant(rng, k)
            T = n0 * n1 if axis == (0, 1) else (n0 if axis == 0 else n1)
            case, realised = pt.run_3d(sigs, 64, (8, 12), kw, axis, [1, 2, 4][k % 3], [0.0] * T, logdir, via_group=True)
            case['ref'] = pt.reference_3d(sigs, 64, (8, 12), kw, axis)
            case['pid'] = pid
            cases.append(case)
            metas.append({'shape': [n0, n1], 'axis': str(axis), 'api': 'BycycleGroup.fit (3-D)', 'realised_completion_order': realised})
            k += 1
        sigs = pt.make_sigs(rng, (n0 + 1,))
        kw = pt.kw_variant(rng, k)
        case, realised = pt.run_2d(sigs, 64, (8, 12), kw, 2, None, [0.0] * (n0 + 1), logdir, via_group=True)
        case['ref'] = pt.reference_2d(sigs, 64, (8, 12), kw)
        case['pid'] = pid
        cases.append(case)
        metas.append({'T': n0 + 1, 'api': 'BycycleGroup.fit (2-D)', 'realised_completion_order': realised})
        k += 1
    c11.judge(ctx, cases, metas, pid)


def run(ctx):
    ctx.rule = 'MC: all histories to depth 5 (thorough 6); RP/TV: TLC-simulated behaviours of depth 8 (10) replayed on real objects (non-trivial = contains a Fit and an Edit / Recompute / Call)'
    ctx.assumptions = ['an analysis is abstracted to its effective-parameter vector in the model; in the replay equality of analyses is equality of table fingerprints over float limbs']
    import group_rp
    if ctx.quick:
        sc.run_mc(ctx, 'C14', 5)
        sc.run_rp(ctx, PREFIXES, 160, 8)
        run_group_models(ctx, 2)
        group_rp.run_mc(ctx, 'C14', 6)
        group_rp.run_rp(ctx, PREFIXES, 36, 8)
    else:
        sc.run_mc(ctx, 'C14', 6)
        sc.run_rp(ctx, PREFIXES, 2500, 10)
        run_group_models(ctx, 4)
        group_rp.run_mc(ctx, 'C14', 8)
        group_rp.run_rp(ctx, PREFIXES, 400, 10)


def replay(ctx, case):
    c = case.get('case') or {}
    if c.get('kind') == 'session':
        sc.replay_one(ctx, c['behaviour'], PREFIXES)
    elif c.get('kind') == 'group_session':
        import group_rp
        group_rp.replay_one(ctx, c['behaviour'], PREFIXES)
    else:
        sc.run_rp(ctx, PREFIXES, 40, 8)
