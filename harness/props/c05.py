"""C05 - burst features equal their documented definitions.

MC/IX: MC_BurstFeat - every small cycle table (flank voltages incl. zero and negative, periods), both centrings, directions
       both/next/last: unit range for positive flanks, NaN ends, both = min(next, last), mirror consistency; the real
       compute_amp_fraction / compute_amp_consistency / compute_period_consistency agree on every table.
       MC_Shape supplies monotonicity on every small signal x placement x centring against the real compute_monotonicity.
TV   : compute_features(burst_method='cycles') on the corpus with the tie-rich classes over-weighted.
"""
import mc_feat
import pipeline

PREFIXES = ['C05.']


def run(ctx):
    ctx.rule = ('MC/IX: all tables of 3-5 rows over small voltage/period domains x centring x direction, all small signals for monotonicity; '
                'TV: generated signals (quantised/clipped over-weighted), features as exact rationals')
    kinds = ['quantised', 'clipped', 'zeroed', 'quantised', 'sine_bursts', 'asym', 'noisy_flat', 'powerlaw_osc', 'dc_offset', 'two_osc']

    def cyc(i, c):
        if c['opts']['burst_method'] != 'cycles' and i % 4:
            c['opts']['burst_method'] = 'cycles'
            c['opts']['burst_kwargs'] = None
            c['opts']['threshold_kwargs'] = {'amp_fraction_threshold': 0.25, 'amp_consistency_threshold': 0.5,
                                             'period_consistency_threshold': 0.5, 'monotonicity_threshold': 0.6, 'min_n_cycles': 2}
    if ctx.quick:
        mc_feat.run_burstfeat(ctx, 'C05', 3, -1, 2, 2)
        mc_feat.run_burstfeat(ctx, 'C05', 4, 1, 2, 2)
        mc_feat.run_shape(ctx, 'C05', 4, 2)
        pipeline.run_corpus(ctx, 200, PREFIXES, seed_offset=5, kinds=kinds, mutate_opts=cyc)
        pipeline.run_large(ctx, PREFIXES, 5, 3, 1, mutate_opts=cyc)          # beyond small scopes: long cycles, long recordings
    else:
        mc_feat.run_burstfeat(ctx, 'C05', 4, 0, 2, 2)
        mc_feat.run_burstfeat(ctx, 'C05', 4, -1, 1, 2)
        mc_feat.run_burstfeat(ctx, 'C05', 5, 1, 2, 2)
        mc_feat.run_shape(ctx, 'C05', 6, 2)
        pipeline.run_corpus(ctx, 4000, PREFIXES, seed_offset=5, kinds=kinds, mutate_opts=cyc, max_len=2600)
        pipeline.run_large(ctx, PREFIXES, 5, 12, 6, mutate_opts=cyc)          # beyond small scopes: long cycles, long recordings


def replay(ctx, case):
    c = case['case']
    if c.get('kind') == 'pipeline':
        pipeline.replay_pipeline(ctx, c, PREFIXES)
    else:
        mc_feat.run_burstfeat(ctx, 'C05', 3, -1, 2, 2)
