"""C18 - table and signal windowing utilities are lossless selections.

MC/IX: MC_Tables (mode limit) - every small table x every window on the half-sample grid (either limit missing) x reset x centring:
       the model satisfies LimitOK; the real limit_df is judged by the stated bounds (everything entirely inside, nothing entirely outside,
       order and feature values preserved, one common offset), the real limit_signal by start <= t < stop.
TV   : limit_df / limit_signal / split_samples_df / drop_samples_df / flatten_dfs (1-D and 2-D lists) on analysis tables of generated
       signals of both centrings, windows on and off cycle boundaries, missing limits, windows without any cycle.
"""
import numpy as np

import mc_tables
import plots_tv as pv
import project as pj
import tables_tv as tt

PREFIXES = ['C18.']


def run_tv(ctx, n_tables, max_len=800):
    rng = np.random.default_rng(ctx.seed + 18)
    recs, metas = [], []
    tabs = tt.analysis_tables(ctx, n_tables, 181, max_len=max_len, large=(1, 1) if n_tables < 100 else (4, 4))
    for c, df in tabs:
        n = len(c['sig'])
        roles = tt.roles_of(df)
        last, nxt = df[roles[1]].values, df[roles[5]].values
        fs = [1, 64, 128, 0.5, 600, 1200, 250, 1000 / 3, 100][int(rng.integers(0, 9))]
        dyadic_fs = fs in (1, 64, 128, 0.5)
        wins = [(None, None), (None, 2 * int(nxt[len(nxt) // 2])), (2 * int(last[len(last) // 3]), None),
                (2 * int(last[1]), 2 * int(nxt[-2])), (2 * int(last[1]) + 1, 2 * int(nxt[-2]) - 1),
                (2 * int(rng.integers(0, n // 2)), 2 * int(rng.integers(n // 2, n))), (2 * int(last[0]) + 2, 2 * int(last[0]) + 4), (0, 0)]
        if not dyadic_fs:
            # ... and limits ON sample times s / fs (the property's wording) at these rates: judged like every other window when fs * (s / fs) == s for both
            # limits; otherwise the case carries the class of the rounding (open finding F15: limit_df compares samples with the product fs * limit)
            for a, b in ((int(last[1]), int(nxt[-2])), (int(last[len(last) // 2]), None), (None, int(nxt[len(nxt) // 2])), (int(last[2 % len(last)]), int(nxt[-1]))):
                reset = bool(rng.integers(0, 2))
                exact = pv.exact_window(n, fs, a, b)
                recs.append(tt.record_limit(df, fs, None if a is None else 2 * a, None if b is None else 2 * b, reset, lab=len(recs) // 2))
                metas.append({'kind': c['kind'], 'centre': c['opts']['center_extrema'], 'fs': fs, 'a2': None if a is None else 2 * a, 'b2': None if b is None else 2 * b, 'reset': reset, 'cycles': len(df),
                              'on_grid': True, 'key_suffix': '' if exact else '.fs_times_limit_inexact_' + pv.inexact_direction(n, fs, a, b)})
        for a2, b2 in wins:
            if not dyadic_fs:
                # sampling rates for which fs * (s / fs) need not equal s: limits are given half a sample off the grid (odd half-sample units), so that
                # the documented selection does not hinge on the rounding of start * fs; an OMITTED limit must still keep every cycle on that side
                a2 = None if a2 is None else a2 | 1
                b2 = None if b2 is None else b2 | 1
            reset = bool(rng.integers(0, 2))
            recs.append(tt.record_limit(df, fs, a2, b2, reset, lab=len(recs) // 2))
            metas.append({'kind': c['kind'], 'labels': pj.LABELLINGS[((len(recs) - 1) // 2) % 4], 'centre': c['opts']['center_extrema'], 'fs': fs, 'a2': a2, 'b2': b2, 'reset': reset, 'cycles': len(df)})
            recs.append(tt.record_limit_signal(n, fs, a2, b2))
            metas.append({'n': n, 'fs': fs, 'a2': a2, 'b2': b2})
        for r in tt.record_split_drop(df, lab=len(recs) // 3):
            recs.append(r)
            metas.append({'kind': c['kind'], 'centre': c['opts']['center_extrema'], 'columns': len(df.columns)})
    dfs = [d for _, d in tabs]
    for k in range(0, max(0, len(dfs) - 6), 3):
        recs.append(tt.record_flatten(dfs[k:k + 3], [5, 9, 2], False))
        metas.append({'list': '1-D of 3'})
        recs.append(tt.record_flatten([dfs[k:k + 3], dfs[k + 3:k + 6]], [11, 12, 13, 21, 22, 23], True))
        metas.append({'list': '2-D 2x3'})
        recs.append(tt.record_flatten([[dfs[k]], [dfs[k + 1]], [dfs[k + 2]]], [7, 8, 9], True))
        metas.append({'list': '2-D 3x1'})
        recs.append(tt.record_flatten([dfs[k], dfs[k + 1], dfs[k]], [31, 32, 33], False))
        metas.append({'list': '1-D of 3, the same table object at positions 0 and 2'})
        recs.append(tt.record_flatten([[dfs[k], dfs[k + 1]], [dfs[k + 1], dfs[k]]], [41, 42, 43, 44], True))
        metas.append({'list': '2-D 2x2, every table object twice'})
        recs.append(tt.record_flatten([dfs[k]], [4], False))
        metas.append({'list': '1-D of 1'})
        recs.append(tt.record_flatten([[dfs[k + 1]]], [6], True))
        metas.append({'list': '2-D 1x1'})
        empty = dfs[k + 1].iloc[0:0]
        recs.append(tt.record_flatten([dfs[k], empty, dfs[k + 2], empty, dfs[k + 1]], [3, 4, 5, 6, 7], False))
        metas.append({'list': '1-D of 5 with two empty tables (epochs without cycles)'})
        recs.append(tt.record_flatten([[empty, dfs[k]], [dfs[k + 1], empty]], [11, 12, 21, 22], True))
        metas.append({'list': '2-D 2x2 with empty tables'})
    tt.judge(ctx, recs, metas, PREFIXES, 'utilities')
    ctx.nontrivial += len(recs)
    ctx.sample({'limit_df_case': metas[0]})
    ctx.parts.append({'part': 'corpus.table_utilities', 'calls': len(recs), 'by_op': {op: sum(1 for r in recs if r['op'] == op) for op in {r['op'] for r in recs}}})


def run(ctx):
    ctx.rule = 'MC/IX: all small tables x windows x reset x centring (exhaustive); TV: utilities on analysis tables of generated signals'
    ctx.assumptions = ['cycles partly inside a window may or may not be returned (bounds Inside <= result <= NotOutside); the reset offset may be floor or ceil of start*fs']
    if ctx.quick:
        mc_tables.run(ctx, 'C18', 8, 'limit_df')
        run_tv(ctx, 40)
    else:
        mc_tables.run(ctx, 'C18', 10, 'limit_df')
        run_tv(ctx, 600, max_len=2600)


def replay(ctx, case):
    run_tv(ctx, 20)
