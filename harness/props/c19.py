"""C19 - invalid settings are rejected, never silently analysed.

MC/IX (exhaustive): MC_Kwargs enumerates (1) the full grid array shape (2-D / 3-D, extents 1..3) x axis in {0, 1, (0,1), None, 2, (1,0), 'x'}
       x option-list shape (None, dict, 1-D, 2-D, 3-D with extents 1..3) and (2) every documented parameter at / just inside / just outside
       its range and every enumerated option valid / unknown, at every public entry point that takes the setting; the documented decision
       tables (KwargsShape.tla) say accept or reject, and the real entry point must return where accepted and raise ValueError where rejected.
"""
import os
import re

import ix_kwargs
import tlc

PREFIXES = ['C19.']
LEVEL = 'model_checking'


def run(ctx):
    max_ext = 3 if ctx.quick else 4
    ctx.rule = 'the full shape x axis x list-shape grid and the full parameter-position grid, enumerated by TLC (exhaustive; every point is a distinct case)'
    shape, n_accept = ix_kwargs.shape_table(max_ext)
    params = ix_kwargs.param_probes()
    path = os.path.join(ctx.scratch.path, 'impl_kwargs.json')
    tlc.dump_json(path, {'shape': shape, 'param': params})
    cfg = tlc.cfg(constants={'MaxExt': max_ext, 'UseImpl': True}, invariants=['InvSomeValid'])
    res = tlc.must(tlc.run('MC_Kwargs', cfg, ctx.scratch, env={'IMPL_FILE': path}, coverage=True, timeout=1800), 'MC_Kwargs')
    ctx.add_tlc(res, 'MC_Kwargs(MaxExt=%d)' % max_ext)
    m = re.search(r'Finished computing initial states: (\d+) distinct state', res['text'])
    n = len(shape) + len(params)
    if not m or int(m.group(1)) != n:
        raise tlc.TLCError('MC_Kwargs: initial states %s != %d probed points' % (m and m.group(1), n))
    if res['violated']:
        ctx.violation('C19.spec.' + res['violated'], res['error_trace'][:1500])
    names = {0: 'returns', 1: 'ValueError', 2: 'other exception', -1: 'not probed'}
    for d in res['prints']:
        if d[0] != 'DISAGREE':
            continue
        if d[2] == 'shape_axis_list':
            _, _, _, ndim, n0, n1, axis, ls, want, got = d
            which = [w for w, (a, b) in zip(('check_kwargs_shape', 'compute_features_%dd' % ndim, 'BycycleGroup.fit'), zip(list(want) + [want[1]], got)) if a != b]
            ctx.violation('C19.shape.%dD.axis_%s.list_%s.%s' % (ndim, axis, 'x'.join(str(v) for v in ls) or 'None', '+'.join(which)),
                          '%d-D array (n0=%d, n1=%d), axis %s, option-list shape %s: documented outcome (checker, analysis) = %s, observed (checker, analysis, group) = %s'
                          % (ndim, n0, n1, axis, ls, [names[w] for w in want], [names.get(g, g) for g in got]),
                          {'kind': 'shape', 'ndim': ndim, 'n0': n0, 'n1': n1, 'axis': axis, 'ls': ls})
        else:
            _, pi, _, kind, name, entry, pos, want, got = d
            ctx.violation('C19.param.%s.%s.%s' % (name, entry, pos), '%s %s at position %s through %s: documented outcome %s, observed %s'
                          % (kind, name, pos, entry, names[want], names.get(got, got)), {'kind': 'param', 'name': name, 'entry': entry, 'pos': pos})
    ctx.traces += n
    ctx.evaluations += n
    ctx.nontrivial += n
    ctx.exhaustive = True
    ctx.parts[-1].update({'shape_points': len(shape), 'shape_points_accepted_and_analysed': n_accept, 'parameter_points': len(params),
                          'entry_points': sorted({p['entry'] for p in params})})
    ctx.sample({'shape_point': {'ndim': 3, 'n0': 2, 'n1': 3, 'axis': '(0, 1)', 'list': '2-D 2x3', 'documented': 'accept'}})
    ctx.sample({'parameter_point': params[1]})


def replay(ctx, case):
    run(ctx)
