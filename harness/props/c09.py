"""C09 - peak- and trough-centred analyses are mirror images.

MC  : design level - on all small inputs the specification's own trough-centred definitions equal the peak-centred ones on the
      negated signal (MC_Shape: InvNegation, InvMonoMirror; MC_BurstFeat: InvMirror), with the real functions compared on each input.
TV  : pairs (trough-centred analysis of s, peak-centred analysis of -s) from the corpus, both burst methods: each run validated
      by Trace_Pipeline, the pair by Trace_Relations (name swap, negated extremum voltages, 1 - symmetry as exact rationals,
      bit-identical burst features, identical labels).
"""
import mc_feat
import relations
import tables_tv

PREFIXES = ['C09.']


def run(ctx):
    ctx.rule = 'pairs of recorded runs on generated signals (non-trivial = table with >= 3 cycles); small-scope mirror invariants of the specification'
    if ctx.quick:
        mc_feat.run_shape(ctx, 'C09', 4, 2)
        mc_feat.run_burstfeat(ctx, 'C09', 3, 0, 2, 2)
        relations.run(ctx, 'C09.mirror', 150, PREFIXES, 9)
        tables_tv.run_rename(ctx, PREFIXES, 30, 91)
    else:
        mc_feat.run_shape(ctx, 'C09', 6, 2)
        mc_feat.run_burstfeat(ctx, 'C09', 4, -1, 1, 2)
        relations.run(ctx, 'C09.mirror', 3000, PREFIXES, 9, max_len=2600)
        tables_tv.run_rename(ctx, PREFIXES, 400, 91)


def replay(ctx, case):
    import pipeline, tv
    c = pipeline.case_from_payload(case['case'])
    import numpy as np
    rng = np.random.default_rng(0)
    b, _ = relations._variant(c, 'C09.mirror', rng)
    ra, sa = relations._rec(c)
    rb, sb = relations._rec(b)
    v = tv.validate(ctx, 'Trace_Relations', [{'rel': 'C09.mirror', 'A': sa, 'B': sb}], jvms=1)
    for f in v[0]:
        if f.startswith('C09.'):
            ctx.violation(f, 'replayed: %s' % v[0])
