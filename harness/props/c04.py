"""C04 - shape features equal their documented definitions.

MC/IX: MC_Shape - every small signal x every placement of a cycle's cyclepoints x both centrings: ShapeWF (identities and
       ranges of C04), negate-and-rename == direct definition on the un-negated signal, and the real compute_shape_features
       (cyclepoint stage and amp_by_time replaced by TLC's inputs) agrees on every input.
TV   : compute_features on the corpus, both centrings, with and without sample columns: every shape column of every row
       against ShapeOf(original signal, recorded amplitude, the row's own cyclepoints); arguments of amp_by_time checked.
"""
import mc_feat
import pipeline
import tables_tv

PREFIXES = ['C04.']


def run(ctx):
    ctx.rule = ('MC/IX: all small signals x valid cyclepoint placements x centring; TV: generated signals x option grid '
                '(non-trivial = distinct case with >= 3 cycles); ratios compared as exact rationals, voltages as dyadic integers')
    ctx.assumptions = ['amp_by_time output is rounded to the run\'s dyadic grid at the boundary so band_amp is an exact rational of logged integers']
    if ctx.quick:
        mc_feat.run_shape(ctx, 'C04', 5, 2)
        pipeline.run_corpus(ctx, 220, PREFIXES, seed_offset=4)
        pipeline.run_large(ctx, PREFIXES, 4, 3, 1)          # beyond small scopes: long cycles, long recordings
        tables_tv.run_rename(ctx, PREFIXES, 30, 41)
    else:
        mc_feat.run_shape(ctx, 'C04', 6, 2)
        mc_feat.run_shape(ctx, 'C04', 7, 1)
        pipeline.run_corpus(ctx, 4000, PREFIXES, seed_offset=4, max_len=2600)
        pipeline.run_large(ctx, PREFIXES, 4, 12, 6)          # beyond small scopes: long cycles, long recordings
        tables_tv.run_rename(ctx, PREFIXES, 400, 41)


def replay(ctx, case):
    c = case['case']
    if c.get('kind') == 'pipeline':
        pipeline.replay_pipeline(ctx, c, PREFIXES)
    else:
        mc_feat.run_shape(ctx, 'C04', 5, 2)
