"""C07 - amplitude burst labels follow the dual-threshold rule.

MC/IX: MC_Amp - every sample mask x every tiling into cycles x thresholds {0, 1/3, 1/2, 1} x min_n_cycles: burst_fraction over the
       INCLUSIVE window as an exact rational, labels = run filter of (fraction >= threshold), monotone in the threshold; the real
       compute_burst_fraction (sample-wise detector stubbed to TLC's mask) and detect_bursts_amp agree on every case.
TV   : compute_features(burst_method='amp') on the corpus, both centrings, the four routings of min_n_cycles (thresholds / burst
       options / both / neither), min_burst_duration: the arguments reaching the sample-wise detector (one and the same
       minimum-cycle count), fractions from the recorded mask, labels from rank codes.
"""
import mc_feat
import pipeline

PREFIXES = ['C07.']


def run(ctx):
    ctx.rule = ('MC/IX: all masks x tilings x thresholds x min_n_cycles; TV: generated signals, method amp, 4 routings of min_n_cycles '
                '(non-trivial = distinct case with >= 3 cycles)')
    ctx.assumptions = ['the sample-wise detector is neurodsp\'s detect_bursts_dual_threshold; its mask is taken as recorded, its arguments are checked']

    def amp(i, c):
        o = c['opts']
        if o['burst_method'] != 'amp':
            route = i % 4
            o['burst_method'] = 'amp'
            th = {'burst_fraction_threshold': [0.25, 0.5, 0.75, 1.0, 0.0][i % 5]}
            bk = {'amp_threshes': [(0.5, 1.0), (1.0, 1.5), (1.0, 2.0)][i % 3]}
            if route in (0, 2):
                th['min_n_cycles'] = 1 + i % 4
            if route in (1, 2):
                bk['min_n_cycles'] = 1 + (i // 2) % 4
            if i % 9 == 4:
                bk['min_burst_duration'] = 0.25
            o['threshold_kwargs'], o['burst_kwargs'] = th, bk
    if ctx.quick:
        mc_feat.run_amp(ctx, 'C07', 7, 3)
        pipeline.run_corpus(ctx, 220, PREFIXES, seed_offset=7, mutate_opts=amp, kinds=['sine_bursts', 'asym', 'powerlaw_osc', 'two_osc', 'clipped', 'zeroed', 'dc_offset', 'quantised'])
        pipeline.run_large(ctx, PREFIXES, 7, 3, 1, mutate_opts=amp)          # beyond small scopes: long cycles, long recordings
    else:
        mc_feat.run_amp(ctx, 'C07', 8, 4)
        pipeline.run_corpus(ctx, 4000, PREFIXES, seed_offset=7, mutate_opts=amp, max_len=2600)
        pipeline.run_large(ctx, PREFIXES, 7, 12, 6, mutate_opts=amp)          # beyond small scopes: long cycles, long recordings


def replay(ctx, case):
    c = case['case']
    if c.get('kind') == 'pipeline':
        pipeline.replay_pipeline(ctx, c, PREFIXES)
    else:
        mc_feat.run_amp(ctx, 'C07', 6, 2)
