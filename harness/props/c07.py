"""C07 - amplitude burst labels follow the dual-threshold rule.

MC/IX: MC_Amp - every sample mask x every tiling into cycles x thresholds {0, 1/3, 1/2, 1} x min_n_cycles: burst_fraction over the
       INCLUSIVE window as an exact rational, labels = run filter of (fraction >= threshold), monotone in the threshold; the real
       compute_burst_fraction (sample-wise detector stubbed to TLC's mask) and detect_bursts_amp agree on every case.
TV   : compute_features(burst_method='amp') on the corpus, both centrings, the four routings of min_n_cycles (thresholds / burst
       options / both / neither), min_burst_duration: the arguments reaching the sample-wise detector (one and the same
       minimum-cycle count), fractions from the recorded mask, labels from rank codes.
"""
import mc_feat
import numpy as np

import pipeline

PREFIXES = ['C07.']


def run(ctx):
    ctx.rule = ('MC/IX: all masks x tilings x thresholds x min_n_cycles; TV: generated signals, method amp, 4 routings of min_n_cycles '
                '(non-trivial = distinct case with >= 3 cycles)')
    ctx.assumptions = ['the sample-wise detector is neurodsp\'s detect_bursts_dual_threshold; its mask is taken as recorded, its arguments are checked']

    def amp(i, c):
        o = c['opts']
        if o['burst_method'] != 'amp':
            route = i % 4
            o['burst_method'] = 'amp'
            th = {'burst_fraction_threshold': [0.25, 0.5, 0.75, 1.0, 0.0][i % 5]}
            bk = {'amp_threshes': [(0.5, 1.0), (1.0, 1.5), (1.0, 2.0)][i % 3]}
            if route in (0, 2):
                th['min_n_cycles'] = 1 + i % 4
            if route in (1, 2):
                bk['min_n_cycles'] = 1 + (i // 2) % 4
            if i % 9 == 4:
                bk['min_burst_duration'] = 0.25
            o['threshold_kwargs'], o['burst_kwargs'] = th, bk
    if ctx.quick:
        mc_feat.run_amp(ctx, 'C07', 7, 3)
        pipeline.run_corpus(ctx, 220, PREFIXES, seed_offset=7, mutate_opts=amp, kinds=['sine_bursts', 'asym', 'powerlaw_osc', 'two_osc', 'clipped', 'zeroed', 'dc_offset', 'quantised'])
        pipeline.run_large(ctx, PREFIXES, 7, 3, 1, mutate_opts=amp)          # beyond small scopes: long cycles, long recordings
        exact_thresholds(ctx, 60)
        awkward_window_lengths(ctx)
    else:
        mc_feat.run_amp(ctx, 'C07', 8, 4)
        pipeline.run_corpus(ctx, 4000, PREFIXES, seed_offset=7, mutate_opts=amp, max_len=2600)
        pipeline.run_large(ctx, PREFIXES, 7, 12, 6, mutate_opts=amp)          # beyond small scopes: long cycles, long recordings
        exact_thresholds(ctx, 800)
        awkward_window_lengths(ctx)


def exact_thresholds(ctx, n):
    """Second pass: burst_fraction_threshold set to the EXACT fraction k/n of a partially bursting cycle (computed by the harness from the
    logged detector mask of a first run, never from the library's own quotient), so that "fraction equals the threshold" occurs for
    fractions like 75/101 whose quotient is not a short binary number; judged by the exact-fraction label clause of Trace_Pipeline."""
    import gen
    import record
    cases = gen.corpus(ctx.seed * 1000 + 77, n, max_len=900, kinds=['sine_bursts', 'asym', 'two_osc', 'powerlaw_osc'],
                       fs_bands=[(250, (8, 12)), (500, (8, 12)), (1000, (13, 30)), (100, (6, 14)), (187.5, (8, 12))])
    chosen = []
    for i, c in enumerate(cases):
        o = c['opts']
        o['burst_method'] = 'amp'
        o['threshold_kwargs'] = {'burst_fraction_threshold': 0.5, 'min_n_cycles': 1 + i % 3}
        o['burst_kwargs'] = {'amp_threshes': [(0.5, 1.0), (1.0, 1.5), (1.0, 2.0)][i % 3]}
        try:
            rec, _ = record.record_compute_features(c)
        except Exception:
            continue
        mask = rec['dt']['mask']
        fracs = [(sum(mask[r['last']:r['next'] + 1]), r['next'] - r['last'] + 1) for r in rec['rows'] if 0 <= r['last'] < r['next'] < len(mask)]
        partial = [(k_, n_) for k_, n_ in fracs if 0 < k_ < n_]
        if not partial:
            continue
        # prefer a fraction for which other ways of writing the quotient differ from k / n in the last bit (in seconds: (k / fs) / (n / fs);
        # with a reciprocal: k * (1 / n)) - a property of the numbers, found by the harness' own arithmetic
        fs_ = float(c['fs'])
        delicate = [(k_, n_) for k_, n_ in partial if (k_ / fs_) / (n_ / fs_) != k_ / n_ or k_ * (1.0 / n_) != k_ / n_]
        pool_ = delicate if delicate and i % 4 != 3 else partial
        k_, n_ = pool_[(i * 7) % len(pool_)]
        o['threshold_kwargs']['burst_fraction_threshold'] = k_ / n_          # the correctly rounded quotient of the exact fraction
        chosen.append(c)
    if chosen:
        pipeline.run_corpus(ctx, len(chosen), PREFIXES, label='threshold_equals_an_exact_fraction', cases=chosen)


def awkward_window_lengths(ctx):
    """Fully bursting cycles whose inclusive window has n samples with n * (1 / n) != 1 in binary floating point (49, 98, 103, 107, 161, 187, ...):
    a fraction computed as count * (1 / n) instead of count / n falls a hair below 1 there and fails burst_fraction_threshold = 1.  Steady
    oscillations of exactly n - 1 samples per cycle, the real detector (everything above the lower threshold), judged by the exact-fraction clause."""
    cases = []
    for j, n_win in enumerate([49, 98, 103, 107, 161, 187, 196, 197]):
        per = n_win - 1
        fs = 1000
        f0 = fs / per
        t = np.arange(14 * per)
        x = np.sin(2 * np.pi * t / per + 0.3) + 0.05 * np.sin(2 * np.pi * t / (per * 0.5) + 1.0)
        q = np.round(x * 1024).astype(np.int64)
        opts = {'center_extrema': ('peak', 'trough')[j % 2], 'burst_method': 'amp', 'return_samples': True, 'find_extrema_kwargs': None,
                'threshold_kwargs': {'burst_fraction_threshold': 1.0 if j % 3 else 1, 'min_n_cycles': 1 + j % 3},
                'burst_kwargs': {'amp_threshes': (0.25, 0.5)}}
        cases.append({'q': q, 'e': -10, 'sig': q.astype(float) * 2.0 ** -10, 'fs': fs, 'f_range': (round(0.7 * f0, 3), round(1.4 * f0, 3)),
                      'kind': 'steady oscillation, %d samples per inclusive cycle window' % n_win, 'opts': opts, 'k': 28})
    pipeline.run_corpus(ctx, len(cases), PREFIXES, label='window_lengths_n_with_n_times_1_over_n_below_1', cases=cases)


def replay(ctx, case):
    c = case['case']
    if c.get('kind') == 'pipeline':
        pipeline.replay_pipeline(ctx, c, PREFIXES)
    else:
        mc_feat.run_amp(ctx, 'C07', 6, 2)
