"""C11 - 2-D group analysis equals per-signal analysis, in order.

MC  : MC_Pool - every interleaving of Submit / Take / Finish / Handle / Consume for T tasks on W workers: Prefix (the parent always holds a
      prefix of <<R(1..T)>>), AtMostOnce, NothingLost are INVARIANTs, Termination (<>Done) holds under weak fairness; the named deviation
      HandleUnordered (imap_unordered) must violate Prefix (negative control, reported in the evidence).
RP  : the completion orders TLC reaches are realised on the REAL pool by per-task delays injected in the workers (n_jobs = W, also 1 and
      T+2; shared option set and per-row lists; progress None / 'tqdm'; compute_features_2d and BycycleGroup.fit).
TV  : Trace_Pool - the tables the parent received must be, position by position, the solitary analysis of row i with the options of row i
      (table fingerprints over float limbs); the per-process worker logs must be explainable as a behaviour of the Pool specification
      (TLC searches the interleavings; no wall-clock ordering across processes is used).
"""
import os

import numpy as np

import pool_tv as pt
import tlc
import tv

PREFIXES = ['C11.']


def cfg_pool(T, W, view=True, unordered=False, orders=False):
    s = 'SPECIFICATION %s\nCONSTANTS\n  T = %d\n  W = %d\n  MaxN = 3\n' % ('SpecUnordered' if unordered else 'Spec', T, W)
    s += 'INVARIANT Prefix\n'
    if not unordered:
        s += 'INVARIANT AtMostOnce\nINVARIANT NothingLost\nINVARIANT ParkedAhead\nINVARIANT PlacementOK\nINVARIANT TransposeOK\n'
        if orders:
            s += 'INVARIANT PrintOrders\n'
        if view:
            s += 'PROPERTY Termination\nVIEW StateView\n'
    return s + 'CHECK_DEADLOCK FALSE\n'


def run_mc(ctx, pid, configs):
    for T, W in configs:
        res = tlc.must(tlc.run('MC_Pool', cfg_pool(T, W), ctx.scratch, coverage=True, timeout=1800), 'MC_Pool')
        ctx.add_tlc(res, 'MC_Pool(T=%d,W=%d)' % (T, W))
        if res['violated']:
            ctx.violation('%s.spec.%s' % (pid, res['violated']), 'the pool specification violates %s: %s' % (res['violated'], res['error_trace'][:1200]))
    T, W = configs[0]
    neg = tlc.must(tlc.run('MC_Pool', cfg_pool(T, W, unordered=True), ctx.scratch, timeout=600), 'MC_PoolUnordered')
    ctx.parts.append({'part': 'negative_control.imap_unordered', 'violates': neg['violated']})
    if neg['violated'] != 'Prefix':
        raise tlc.TLCError('negative control: the unordered pool should violate Prefix, got %r' % neg['violated'])


def orders_from_tlc(ctx, T, W):
    res = tlc.must(tlc.run('MC_Pool', cfg_pool(T, W, view=False, orders=True), ctx.scratch, timeout=1800), 'MC_Pool.orders')
    ctx.add_tlc(res, 'MC_Pool.orders(T=%d,W=%d)' % (T, W))
    return sorted({tuple(p[2]) for p in res['prints'] if p[0] == 'ORDER'})


def run_rp(ctx, plans, per_plan, large=()):
    rng = np.random.default_rng(ctx.seed + 11)
    logdir = ctx.scratch.sub('poollog')
    cases, metas = [], []
    k = 0
    for T, W in plans:
        orders = orders_from_tlc(ctx, T, W)
        pick = orders if len(orders) <= per_plan else [orders[i] for i in sorted(rng.choice(len(orders), per_plan, replace=False))]
        for order in pick:
            delays = pt.delays_for(order, W, rng)
            if delays is None:
                continue
            sigs = pt.vary(pt.make_sigs(rng, (T,)), k + k // 4)
            shared = k % 2 == 0
            kwargs = pt.kw_variant(rng, k) if shared else pt.with_default_entry([pt.kw_variant(rng, k + 7 * i) for i in range(T)], k)
            if not shared:
                for i, kw_i in enumerate(kwargs):
                    if i % 3 == 1:
                        kw_i.pop('center_extrema', None)          # rows need not name the same settings: what a row leaves out is the library default, not its neighbour's value
            via_group = shared and k % 4 == 2
            rs = k % 3 != 1          # without sample columns also for n_jobs = 1 (k = 7, 22, ...) and for more workers than rows
            n_jobs = [W, W, 1, T + 2, -1][k % 5] if W >= T or k % 5 < 2 else W
            progress = [None, 'tqdm'][(k // 2) % 2]
            case, realised = pt.run_2d(sigs, 64, (8, 12), kwargs, n_jobs, progress, delays, logdir, via_group=via_group, return_samples=rs)
            case['ref'] = pt.reference_2d(sigs, 64, (8, 12), kwargs, return_samples=rs)
            case['pid'] = 'C11'
            if n_jobs != W:
                case['check_schedule'] = case['check_schedule'] and True
            cases.append(case)
            metas.append({'T': T, 'array': pt.ARRAY_VARIANTS[(k + k // 4) % 6], 'n_jobs': n_jobs, 'tlc_order': list(order), 'realised_completion_order': realised, 'options': 'shared' if shared else 'per-row list',
                          'progress': progress, 'api': 'BycycleGroup.fit' if via_group else 'compute_features_2d', 'return_samples': rs,
                          'worker_processes_used': len(case['logs'])})
            k += 1
    # beyond the scopes TLC enumerates orders for: many more rows than workers (per-row option lists, blocks of tasks per worker);
    # the completion order is whatever the real pool does - its worker logs must still be a behaviour of the pool specification
    for T, W in large:
        sigs = pt.vary(pt.make_sigs(rng, (T,), n=96), k)
        shared = k % 3 == 2
        kwargs = pt.kw_variant(rng, k) if shared else pt.with_default_entry([pt.kw_variant(rng, k + 5 * i) for i in range(T)], k)
        if not shared:
            for i, kw_i in enumerate(kwargs):
                if i % 3 == 1:
                    kw_i.pop('center_extrema', None)
        delays = [float(rng.integers(0, 3)) * 0.01 for _ in range(T)]
        rs_l = (W > 1) if T < 18 else (W == 1)          # with and without sample columns, for a single worker and for several
        case, realised = pt.run_2d(sigs, 64, (8, 12), kwargs, W, None, delays, logdir, via_group=False, return_samples=rs_l)
        case['ref'] = pt.reference_2d(sigs, 64, (8, 12), kwargs, return_samples=rs_l)
        case['pid'] = 'C11'
        case['check_logs'] = case['check_schedule']        # placement + the necessary condition on the logs; no schedule search
        case['check_schedule'] = False
        cases.append(case)
        metas.append({'T': T, 'array': pt.ARRAY_VARIANTS[k % 6], 'n_jobs': W, 'tlc_order': [], 'realised_completion_order': realised, 'options': 'shared' if shared else 'per-row list',
                      'progress': None, 'api': 'compute_features_2d', 'return_samples': rs_l, 'worker_processes_used': len(case['logs'])})
        k += 1
    judge(ctx, cases, metas, 'C11')
    return cases, metas


def judge(ctx, cases, metas, pid):
    jv = min(8, max(1, len(cases) // 6))
    per = -(-len(cases) // jv)
    verdicts, explained = [], set()
    import concurrent.futures as cf
    batches = [cases[i:i + per] for i in range(0, len(cases), per)]

    def one(bi):
        path = os.path.join(ctx.scratch.path, 'pool_batch%d.json' % bi)
        tlc.dump_json(path, batches[bi])
        cfg = 'SPECIFICATION Spec\nINVARIANT Prefix\nVIEW View\nCHECK_DEADLOCK FALSE\n'
        return tlc.must(tlc.run('Trace_Pool', cfg, ctx.scratch, env={'TRACE_FILE': path}, workers=2, timeout=1800), 'Trace_Pool')
    with cf.ThreadPoolExecutor(max_workers=jv) as ex:
        results = list(ex.map(one, range(len(batches))))
    for bi, res in enumerate(results):
        ctx.add_tlc(res, 'Trace_Pool[%d]' % bi)
        if res['violated']:
            ctx.violation(pid + '.trace.Prefix', 'a recorded schedule drives the pool specification into a state violating Prefix: ' + res['error_trace'][:800])
        v = {p[1]: p[2] for p in res['prints'] if p[0] == 'VERDICT'}
        ok = {p[1] for p in res['prints'] if p[0] == 'NOTE'}
        if len(v) != len(batches[bi]):
            raise tlc.TLCError('Trace_Pool: %d verdicts for %d cases' % (len(v), len(batches[bi])))
        for j in range(len(batches[bi])):
            fails = list(v[j + 1])
            if batches[bi][j]['check_schedule'] and (j + 1) not in ok and not fails:
                fails.append(pid + '.worker_logs_not_a_behaviour_of_the_pool_specification')
            verdicts.append(fails)
    n_expl = 0
    for c, m, fails in zip(cases, metas, verdicts):
        n_expl += (not fails) and c['check_schedule']
        for f in fails:
            ctx.violation(f, 'group analysis on the real pool: %s (raised=%r)' % (m, c['raised']), {'kind': 'pool', 'meta': m})
    reorder = sum(1 for m in metas if m.get('realised_completion_order') and m['realised_completion_order'] != sorted(m['realised_completion_order']))
    ctx.traces += len(cases)
    ctx.evaluations += len(cases)
    ctx.nontrivial += reorder
    if metas:
        ctx.sample({'pool_case': metas[min(1, len(metas) - 1)]})
    ctx.parts.append({'part': 'real_pool.' + pid, 'runs': len(cases), 'schedules_explained_by_spec': n_expl,
                      'runs_with_out_of_order_completion': reorder, 'apis': sorted({m['api'] for m in metas})})
    return verdicts


def run_fault_extension(ctx, n):
    """Beyond the listed properties: a task that raises in its worker.  MC_PoolFail: for every interleaving the parent raises the exception of the
    lowest-indexed failing task after consuming exactly the results before it, and it always surfaces (liveness).  The real pool is driven through
    the same fault scenarios; a mismatch is reported as EXTENSION-MISMATCH (informational: no listed property speaks about worker failures)."""
    cfg = 'SPECIFICATION Spec\nCONSTANTS\n  T = 4\n  W = 2\nINVARIANT PrefixBeforeFailure\nINVARIANT RaisesFirstFailing\nPROPERTY Surfaces\nVIEW FView\nCHECK_DEADLOCK FALSE\n'
    res = tlc.must(tlc.run('MC_PoolFail', cfg, ctx.scratch, workers=4, timeout=900), 'MC_PoolFail')
    ctx.add_tlc(res, 'extension.MC_PoolFail(T=4,W=2)')
    if res['violated']:
        raise tlc.TLCError('MC_PoolFail violates %s' % res['violated'])
    rng = np.random.default_rng(ctx.seed + 111)
    logdir = ctx.scratch.sub('poollogf')
    outcomes = []
    for k in range(n):
        T = 4
        failing = [[2], [1, 3], [4], [3, 4], [1]][k % 5]
        order = tuple(int(x) + 1 for x in rng.permutation(T))
        W = [2, 4][k % 2]
        delays = pt.delays_for(order, W, rng) or [0.0] * T
        r = pt.run_fault(pt.make_sigs(rng, (T,)), 64, (8, 12), pt.kw_variant(rng, k), W, delays, failing, logdir)
        r['ok'] = r['raised'] == 'ValueError' and r['raised_task'] == min(failing) and r['returned'] == -1
        outcomes.append(r)
        if not r['ok']:
            print('EXTENSION-MISMATCH pool task failure: %s' % r)
    ctx.parts.append({'part': 'extension.pool_task_failure(real pool)', 'scenarios': len(outcomes), 'as_specified': sum(1 for r in outcomes if r['ok']),
                      'sample': outcomes[0] if outcomes else None})


def run(ctx):
    ctx.rule = ('MC: every interleaving of the pool for T tasks on W workers; RP/TV: every completion order TLC reaches (sampled when many) realised on the real pool '
                '(non-trivial = workers actually completed out of submission order)')
    ctx.assumptions = ['fork start method of this Linux image; completion orders are induced by injected delays and only REPORTED from timestamps, never used for judging']
    if ctx.quick:
        run_mc(ctx, 'C11', [(4, 2), (4, 4), (5, 3)])
        run_rp(ctx, [(3, 3), (3, 2), (4, 4), (4, 2)], 8, large=[(9, 1), (17, 2), (19, 1), (33, 3)])
        run_fault_extension(ctx, 5)
    else:
        run_mc(ctx, 'C11', [(4, 2), (4, 4), (5, 3), (6, 3), (6, 6)])
        run_rp(ctx, [(3, 3), (3, 2), (4, 4), (4, 2), (4, 3), (5, 5), (5, 3), (5, 2)], 40,
               large=[(9, 1), (17, 2), (19, 1), (33, 3), (65, 4), (130, 8), (257, 2), (300, 16), (12, 1), (25, 3)])
        run_fault_extension(ctx, 30)


def replay(ctx, case):
    run_rp(ctx, [(3, 3), (4, 2)], 6)
