"""C17 - interpolated phase is anchored at cyclepoints and monotone between them.

MC/IX: MC_Phase - every alternating placement of extrema >= 2 samples apart on arrays up to the bound, either kind first, without
       midpoints or with one midpoint per flank at any position of the flank: the model (linear interpolation in quarter turns) satisfies
       the four statements of C17 (INVARIANTs); the real function's output is judged by the same four statements on rank codes of its floats.
PROOF: PhaseProof.tla (TLAPS, 28 obligations): for ALL segment end values and ALL segment lengths the linear interpolant takes the end
       values at the anchors, stays between them, and never decreases along the segment (TLC checks arrays up to the bound only).
TV   : phases of generated signals from find_extrema (any boundary / first_extrema / pad) + find_zerox, with and without midpoints.
"""
import math
import os
import re

import numpy as np

import gen
import ix_phase
import project as pj
import tlaps
import tlc
import tv

PREFIXES = ['C17.']


def run_mc(ctx, ns):
    tab, n = ix_phase.phase_table(ns)
    path = os.path.join(ctx.scratch.path, 'impl_phase.json')
    tlc.dump_json(path, tab)
    cfg = tlc.cfg(constants={'NS': ns, 'UseImpl': True}, invariants=['InvRange', 'InvSpan', 'InvAnchors', 'InvMonotone'])
    res = tlc.must(tlc.run('MC_Phase', cfg, ctx.scratch, env={'IMPL_FILE': path}, coverage=True, timeout=3000), 'MC_Phase')
    os.remove(path)
    ctx.add_tlc(res, 'MC_Phase(N=%d)' % ns)
    m = re.search(r'Finished computing initial states: (\d+) distinct state', res['text'])
    if not m or int(m.group(1)) != n:
        raise tlc.TLCError('MC_Phase: initial states %s != %d cases' % (m and m.group(1), n))
    if res['violated']:
        ctx.violation('C17.spec.' + res['violated'], 'invariant of the specification violated (design error): ' + res['error_trace'][:1500])
    dis = [p for p in res['prints'] if p[0] == 'DISAGREE']
    for d in dis[:8]:
        ctx.violation('C17.impl_violates', 'extrema_interpolated_phase(len %d, peaks=%s, troughs=%s, rises=%s, decays=%s): model phase (quarter turns) %s; '
                      'implementation rank codes %s with constants %s' % (ns, d[3], d[4], d[5], d[6], d[7], d[8], d[9]),
                      {'kind': 'ix_phase', 'n': ns, 'pk': d[3], 'tr': d[4], 'rs': d[5], 'dc': d[6]})
    notes = sum(1 for p in res['prints'] if p[0] == 'NOTE')
    ctx.traces += n
    ctx.evaluations += n
    ctx.nontrivial += n
    ctx.parts[-1]['exhaustive_within_bound'] = True        # the bounded part is complete; the run as a whole also samples beyond it
    ctx.parts[-1].update({'cases': n, 'violating': len(dis), 'not_linear_notes': notes})
    ctx.sample({'mc_phase_case': {'n': ns, 'extrema': [1, 4, 7], 'peak_first': True, 'midpoints': [1, 7]},
                'space': 'every valid cyclepoint placement on %d samples (%d cases)' % (ns, n)})


def record_case(n, pk, tr, rs, dc, dtype=np.float64):
    from bycycle.cyclepoints import extrema_interpolated_phase
    raised, codes, kc = '', [], [0] * 5
    try:
        pha = extrema_interpolated_phase(np.zeros(n, dtype=dtype), np.array(pk, dtype=int), np.array(tr, dtype=int),
                                         None if rs is None else np.array(rs, dtype=int), None if dc is None else np.array(dc, dtype=int))
        codes, kc = pj.rank_codes(list(pha), ix_phase.CONSTS)
    except Exception as ex:
        raised = type(ex).__name__
    return {'n': n, 'pk': list(pk), 'tr': list(tr), 'rs': list(rs or []), 'dc': list(dc or []), 'raised': raised, 'codes': codes, 'K': kc}


def run_tv(ctx, n_cases, max_len=800):
    from bycycle.cyclepoints import find_extrema, find_zerox
    cases = gen.corpus(ctx.seed * 1000 + 17, n_cases, max_len=max_len)
    cases += gen.large_cases(ctx.seed * 1000 + 717, 2 if n_cases < 1000 else 6, 1 if n_cases < 1000 else 3)      # cycles of hundreds of samples; recordings beyond 2^15 samples
    recs, metas = [], []
    rng = np.random.default_rng(ctx.seed + 171)
    for i, c in enumerate(cases):
        first = [None, 'peak', 'trough'][i % 3]
        boundary = int([0, 0, 1, 5][int(rng.integers(0, 4))])
        try:
            pk, tr = find_extrema(c['sig'], c['fs'], c['f_range'], boundary=boundary, first_extrema=first, pad=bool(i % 5))
            pk, tr = [int(x) for x in pk], [int(x) for x in tr]
            if len(pk) + len(tr) < 3 or not pk or not tr:
                continue
            allx = sorted(pk + tr)
            if any(b - a < 2 for a, b in zip(allx, allx[1:])):
                continue                       # outside the quantifier: consecutive extrema at least two samples apart
            rs, dc = find_zerox(c['sig'], np.array(pk), np.array(tr))
        except Exception:
            continue
        mids = ['both', 'both', 'none', 'rises_only', 'decays_only', 'both'][i % 6]      # the documented call forms: either midpoint array may be omitted
        with_mid = mids != 'none'
        recs.append(record_case(len(c['sig']), pk, tr, [int(x) for x in rs] if mids in ('both', 'rises_only') else None, [int(x) for x in dc] if mids in ('both', 'decays_only') else None,
                                ix_phase.DTYPES[i % len(ix_phase.DTYPES)]))
        metas.append({'kind': c['kind'], 'first_extrema': first, 'boundary': boundary, 'with_midpoints': with_mid, 'midpoints': mids, 'sig_dtype': ix_phase.DTYPES[i % len(ix_phase.DTYPES)].__name__,
                      'last_cyclepoint_to_end': len(c['sig']) - 1 - max(pk + tr)})
    # placements that START or END with a midpoint (the cycle order peak -> decay -> trough -> rise entered at a midpoint): the span of the
    # supplied cyclepoints then begins / ends at that midpoint, at every distance from the neighbouring extremum
    outer = 0
    for n, ext in ((14, [4, 7, 10]), (16, [3, 6, 9, 12]), (13, [5, 8]), (30, [9, 14, 20])):
        for pf in (0, 1):
            odd, even = ext[0::2], ext[1::2]
            pk, tr = (odd, even) if pf else (even, odd)
            inner = [(a + b) // 2 for a, b in zip(ext, ext[1:])]
            for lead in [None] + list(range(0, ext[0])):
                for trail in [None] + list(range(ext[-1] + 1, n)):
                    if lead is None and trail is None:
                        continue
                    rs, dc = [], []
                    for k, m in enumerate(inner):
                        (dc if (pf == 1) == (k % 2 == 0) else rs).append(m)
                    if lead is not None:
                        (rs if pf else dc).insert(0, lead)          # before a first peak comes a rise, before a first trough a decay
                    if trail is not None:
                        last_is_peak = (len(ext) % 2 == 1) == bool(pf)
                        (dc if last_is_peak else rs).append(trail)
                    recs.append(record_case(n, pk, tr, rs, dc, ix_phase.DTYPES[outer % len(ix_phase.DTYPES)]))
                    metas.append({'kind': 'placement entered / left at a midpoint', 'first_extrema': 'peak' if pf else 'trough', 'boundary': 0, 'with_midpoints': True, 'midpoints': 'both',
                                  'sig_dtype': ix_phase.DTYPES[outer % len(ix_phase.DTYPES)].__name__, 'last_cyclepoint_to_end': n - 1 - max(ext + [trail or 0]), 'lead': lead, 'trail': trail})
                    outer += 1
    ctx.parts.append({'part': 'placements_entered_or_left_at_a_midpoint', 'cases': outer})
    verdicts = tv.validate(ctx, 'Trace_Phase', recs, label='Trace_Phase')
    for r, m, fails in zip(recs, metas, verdicts):
        for f in fails:
            ctx.violation(f, 'extrema_interpolated_phase on cyclepoints of a %s signal (n=%d, %s)' % (m['kind'], r['n'], m),
                          {'kind': 'tv_phase', 'n': r['n'], 'pk': r['pk'], 'tr': r['tr'], 'rs': r['rs'] if m['midpoints'] in ('both', 'rises_only') else None,
                           'dc': r['dc'] if m['midpoints'] in ('both', 'decays_only') else None})
    ctx.traces += len(recs)
    ctx.evaluations += len(recs)
    ctx.nontrivial += sum(1 for m in metas if m['last_cyclepoint_to_end'] <= 2 or m['with_midpoints'])
    if metas:
        ctx.sample({'tv_phase_case': metas[0], 'n_extrema': len(recs[0]['pk']) + len(recs[0]['tr'])})
    ctx.parts.append({'part': 'corpus.phase', 'cases': len(recs), 'last_cyclepoint_within_2_of_end': sum(1 for m in metas if m['last_cyclepoint_to_end'] <= 2)})


PROOF_THEOREMS = ['AtTheAnchors', 'WithinTheSegment', 'NeverDecreases', 'MulMono']


def run(ctx):
    ctx.rule = ('MC/IX: every valid cyclepoint placement up to the length bound (all non-trivial); TV: cyclepoints from find_extrema/find_zerox on '
                'generated signals (non-trivial = midpoints supplied or last cyclepoint within 2 samples of the end)')
    ctx.assumptions = ['the implementation is judged by the four statements of C17 on rank codes of its own floats; agreement with the model\'s linear interpolation is only noted']
    if ctx.quick:
        run_mc(ctx, 10)
        tlaps.run_proof(ctx, 'PhaseProof', PROOF_THEOREMS)
        run_tv(ctx, 150)
    else:
        run_mc(ctx, 13)
        tlaps.run_proof(ctx, 'PhaseProof', PROOF_THEOREMS)
        run_tv(ctx, 3000, max_len=2600)


def replay(ctx, case):
    c = case['case']
    r = record_case(c['n'], c['pk'], c['tr'], c.get('rs'), c.get('dc'))
    v = tv.validate(ctx, 'Trace_Phase', [r], jvms=1)
    for f in v[0]:
        ctx.violation(f, 'replayed')
