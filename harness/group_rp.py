"""Group sessions (C14): model-check GroupSession.tla (with its two negative controls), let TLC generate behaviours, replay them on a REAL
BycycleGroup that shares real threshold dictionaries with the "user", and have TLC (Trace_GroupSession) judge every recorded event."""
import copy
import json
import os

import numpy as np

import tlc

FS, FR = 64, (8, 12)
# threshold level 1 (strict) / 2 (lax): chosen so that the labels of the stacks below differ between the levels, and a reduction of 0.1 stays valid
LEVELS = {1: {'amp_fraction_threshold': 0.3, 'amp_consistency_threshold': 0.5, 'period_consistency_threshold': 0.5, 'monotonicity_threshold': 0.7},
          2: {'amp_fraction_threshold': 0.1, 'amp_consistency_threshold': 0.25, 'period_consistency_threshold': 0.25, 'monotonicity_threshold': 0.45}}
AXES = {'0': 0, '1': 1, '01': (0, 1)}
INV = 'INVARIANT HeapIsIntent\nINVARIANT Mirror\nINVARIANT UsesCurrentSettings\n'


def run_mc(ctx, pid, depth):
    base = 'CONSTANTS\n  MaxDepth = %d\n%sCHECK_DEADLOCK FALSE\n' % (depth, INV)
    res = tlc.must(tlc.run('GroupSession', 'SPECIFICATION Spec\nPROPERTY OnlyEditsWrite\nVIEW View\n' + base, ctx.scratch, coverage=True, timeout=1800), 'GroupSession')
    ctx.add_tlc(res, 'MC_GroupSession(depth=%d)' % depth)
    if res['violated']:
        ctx.violation(pid + '.spec.group.' + res['violated'], 'the GroupSession specification violates %s: %s' % (res['violated'], res['error_trace'][:1200]))
    # ... and without a depth bound: the finite quotient under ViewCore (the last event's name instead of the whole history) is explored completely
    alld = tlc.must(tlc.run('GroupSession', 'SPECIFICATION SpecAll\nVIEW ViewCore\nCONSTANTS\n  MaxDepth = 0\n%sCHECK_DEADLOCK FALSE\n' % INV, ctx.scratch, timeout=1800), 'GroupSession.SpecAll')
    ctx.add_tlc(alld, 'MC_GroupSession(histories of any length, VIEW ViewCore)')
    if alld['violated']:
        ctx.violation(pid + '.spec.group.' + alld['violated'], 'the GroupSession specification violates %s (unbounded histories): %s' % (alld['violated'], alld['error_trace'][:1200]))
    for spec, want, part in (('SpecStale', 'UsesCurrentSettings', 'recompute_with_the_dictionary_of_fit_time'), ('SpecModelsOnly', 'Mirror', 'recompute_updates_the_models_only')):
        neg = tlc.must(tlc.run('GroupSession', 'SPECIFICATION %s\nVIEW View\n' % spec + base, ctx.scratch, timeout=600), 'GroupSession.' + spec)
        ctx.parts.append({'part': 'negative_control.group.' + part, 'violates': neg['violated']})
        if neg['violated'] != want:
            raise tlc.TLCError('negative control: %s should violate %s, got %r' % (spec, want, neg['violated']))


def behaviours(ctx, n, depth):
    out, seen = [], set()
    for attempt in range(4):
        cfg = 'SPECIFICATION Spec\nCONSTANTS\n  MaxDepth = %d\nINVARIANT AtDepthRich\nCHECK_DEADLOCK FALSE\n' % depth
        res = tlc.must(tlc.run('GroupSession', cfg, ctx.scratch, simulate='num=%d' % max(2000, 40 * n), extra_args=['-depth', str(depth + 1), '-seed', str(ctx.seed * 11 + 5 + attempt)],
                               workers=1, timeout=600), 'GroupSession.simulate')
        ctx.add_tlc(res, 'GroupSession.simulate[%d]' % attempt)
        for p in res['prints']:
            if p[0] == 'BEHAVIOUR':
                key = json.dumps(p[1], sort_keys=True)
                if key not in seen:
                    seen.add(key)
                    out.append(p[1])
        if len(out) >= 3 * n:
            break
    # prefer sessions in which a setting changes between a fit and a later recompute / fit (where stale state would show), and every stack / axis occurs
    def score(b):
        acts = [a['a'] for a in b]
        s = 0
        for i, a in enumerate(acts):
            if a in ('SetThr', 'Edit', 'SetCentre') and 'Fit' in acts[:i] and any(x in ('Recompute', 'Fit') for x in acts[i + 1:]):
                s += 3
        return -(s + len({(a['k'], a['ax']) for a in b if a['a'] == 'Fit'}) + acts.count('Recompute'))
    out.sort(key=score)
    head = out[:max(1, 2 * n // 3)]
    rest = [b for b in out[len(head):]]
    covered = {(a['k'], a['ax']) for b in head for a in b if a['a'] == 'Fit'}
    for b in rest:
        if len(head) >= n:
            break
        new = {(a['k'], a['ax']) for a in b if a['a'] == 'Fit'} - covered
        if new or len(head) < n:
            head.append(b)
            covered |= new
    return head[:n]


def _stacks(seed):
    import pool_tv as pt
    rng = np.random.default_rng(1000 + seed)
    return {1: pt.make_sigs(rng, (3,), n=256), 2: pt.make_sigs(rng, (2,), n=256), 3: pt.make_sigs(rng, (2, 2), n=192)}


def _flat(x):
    return [d for row in x for d in row] if x and isinstance(x[0], list) else list(x)


def replay(b, seed=0):
    """One behaviour on a real BycycleGroup.  D[1], D[2]: the user's threshold dictionaries (the group holds a reference to one of them)."""
    import warnings
    warnings.simplefilter('ignore')
    import pool_tv as pt
    from bycycle import BycycleGroup
    from bycycle.burst.utils import recompute_edges
    from bycycle.group import compute_features_2d, compute_features_3d
    S = _stacks(seed)
    D = {r: dict(LEVELS[1], min_n_cycles=3) for r in (1, 2)}
    lvl = {1: 1, 2: 1}
    g, cur_tk, centre, fitted = None, 1, 'peak', None
    trace = []
    for a in b:
        ev = {'a': a['a'], 'tk': a['tk'], 'v': a['v'], 'c': a['c'], 'k': a['k'], 'ax': a['ax'], 'raised': '', 'models': [], 'shown': [], 'ref': [], 'sigs_ok': True, 'look_ok': True,
              'used': {'stack': 0, 'axis': '', 'lvl': 0, 'mnc': 0, 'centre': '', 'red': 0}}
        try:
            if a['a'] == 'New':
                # the user constructs the group with throw-away settings and assigns the real ones afterwards in every other session
                if (len(b) + a['tk']) % 2:
                    g = BycycleGroup(thresholds=D[a['tk']], center_extrema='peak')
                else:
                    g = BycycleGroup(thresholds={'amp_fraction_threshold': .9, 'min_n_cycles': 9}, center_extrema='trough')
                    g.thresholds = D[a['tk']]
                    g.center_extrema = 'peak'
                cur_tk = a['tk']
            elif a['a'] == 'SetThr':
                g.thresholds = D[a['tk']]
                cur_tk = a['tk']
            elif a['a'] == 'SetCentre':
                g.center_extrema = a['c']
                centre = a['c']
            elif a['a'] == 'Edit':
                if a['c'] == 'lvl':
                    D[a['tk']].update(LEVELS[a['v']])
                    lvl[a['tk']] = a['v']
                else:
                    D[a['tk']]['min_n_cycles'] = a['v']
            elif a['a'] == 'Fit':
                sigs, axis = S[a['k']], AXES[a['ax']]
                with pt.time_limit(240):
                    g.fit(sigs, FS, FR, axis=axis, n_jobs=1 if (len(b) + a['k']) % 2 else 2)
                kw = {'center_extrema': centre, 'threshold_kwargs': copy.deepcopy(D[cur_tk])}
                with pt.time_limit(240):
                    ref = compute_features_2d(sigs, FS, FR, kw, axis=0, n_jobs=1) if sigs.ndim == 2 else compute_features_3d(sigs, FS, FR, kw, axis=axis, n_jobs=1)
                ev['ref'] = [pt.table_fp(d) for d in _flat(ref)]
                ev['used'] = {'stack': a['k'], 'axis': a['ax'], 'lvl': lvl[cur_tk], 'mnc': D[cur_tk]['min_n_cycles'], 'centre': centre, 'red': 0}
                fitted = (a['k'], a['ax'], centre)
            elif a['a'] == 'Recompute':
                red = 0.1 if a['v'] else None
                low = {k_: (v_ - (red or 0) if k_.endswith('_threshold') else v_) for k_, v_ in D[cur_tk].items()}
                ev['ref'] = [pt.table_fp(recompute_edges(m.df_features, dict(low))) for m in _flat(g.models)]
                g.recompute_edges(red)
                ev['used'] = {'stack': fitted[0], 'axis': fitted[1], 'lvl': lvl[cur_tk], 'mnc': D[cur_tk]['min_n_cycles'], 'centre': fitted[2], 'red': a['v']}
        except pt.PoolTimeout:
            raise
        except Exception as ex:
            ev['raised'] = type(ex).__name__ + ':' + str(ex)[:80]
        if g is not None and getattr(g, 'models', None) is not None and fitted is not None:
            try:
                models = _flat(g.models)
                ev['models'] = [pt.table_fp(m.df_features) for m in models]
                ev['shown'] = [pt.table_fp(d) for d in _flat(g.df_features)]
                sigs = S[fitted[0]]
                rows = sigs.reshape(-1, sigs.shape[-1])
                ev['sigs_ok'] = bool(len(models) == len(rows) and all(m.sig is not None and np.array_equal(m.sig, r) for m, r in zip(models, rows)))
                ev['look_ok'] = bool(len(g) == len(g.models) and all(x is y for x, y in zip(list(g), g.models)) and all(g[i] is g.models[i] for i in range(len(g.models))))
            except Exception as ex:
                ev['look_ok'] = False
                ev['raised'] = ev['raised'] or ('look:' + type(ex).__name__)
        ev['heap'] = [{'lvl': (1 if all(D[r].get(k_) == v_ for k_, v_ in LEVELS[1].items()) else 2 if all(D[r].get(k_) == v_ for k_, v_ in LEVELS[2].items()) else 9),
                               'mnc': int(D[r].get('min_n_cycles', 0))} if set(D[r]) == set(LEVELS[1]) | {'min_n_cycles'} else {'lvl': 9, 'mnc': -9} for r in (1, 2)]
        trace.append(ev)
    return trace


def _replay(args):
    import multiprocessing
    import pool_tv
    b, seed = args
    for attempt in (0, 1):
        try:
            return replay(b, seed)
        except pool_tv.PoolTimeout:
            for ch in multiprocessing.active_children():
                ch.terminate()
            if attempt:
                raise


CFG = 'SPECIFICATION TSpec\nCONSTANTS\n  MaxDepth = 99\nINVARIANT THeapIsIntent\nINVARIANT TMirror\nINVARIANT TUsesCurrentSettings\nCHECK_DEADLOCK FALSE\n'


def judge(ctx, behs, traces, prefixes):
    path = os.path.join(ctx.scratch.path, 'group_sessions.json')
    tlc.dump_json(path, traces)
    res = tlc.must(tlc.run('Trace_GroupSession', CFG, ctx.scratch, env={'TRACE_FILE': path}, workers=1, timeout=1800), 'Trace_GroupSession')
    ctx.add_tlc(res, 'Trace_GroupSession')
    v = {p[1]: p[2] for p in res['prints'] if p[0] == 'VERDICT'}
    if len(v) != len(traces) or res['violated']:
        raise tlc.TLCError('Trace_GroupSession: %d verdicts for %d behaviours (violated=%r)\n%s' % (len(v), len(traces), res['violated'], res['text'][-1500:]))
    for j, b in enumerate(behs):
        fails = list(dict.fromkeys(v[j + 1]))
        if any(f.startswith('MACHINERY') for f in fails):
            raise tlc.TLCError('group session %d: %s' % (j, fails))
        for f in fails:
            if any(f.startswith(p) for p in prefixes):
                ctx.violation(f, 'group session %s' % [(a['a'], a['tk'], a['v'], a['c'], a['k'], a['ax']) for a in b], {'kind': 'group_session', 'behaviour': b})
    return v


def run_rp(ctx, prefixes, n, depth):
    import concurrent.futures as cfut
    behs = behaviours(ctx, n, depth)
    with cfut.ProcessPoolExecutor(max_workers=min(12, os.cpu_count() or 4)) as p:          # non-daemonic workers: the group starts its own pools
        traces = list(p.map(_replay, [(b, ctx.seed) for b in behs], chunksize=2))
    judge(ctx, behs, traces, prefixes)
    ctx.traces += len(behs)
    ctx.evaluations += len(behs)
    ctx.nontrivial += sum(1 for b in behs if any(a['a'] == 'Fit' for a in b) and any(a['a'] in ('Recompute', 'SetThr', 'Edit', 'SetCentre') for a in b))
    acts = {}
    for b in behs:
        for a in b:
            k = a['a'] + ('(%s,%s)' % (a['k'], a['ax']) if a['a'] == 'Fit' else '')
            acts[k] = acts.get(k, 0) + 1
    if behs:
        ctx.sample({'group_session': [(a['a'], a['tk'], a['v'], a['c'], a['k'], a['ax']) for a in behs[0]]})
    ctx.parts.append({'part': 'replayed_group_sessions', 'behaviours': len(behs), 'depth': depth, 'actions_replayed': acts})


def replay_one(ctx, behaviour, prefixes):
    judge(ctx, [behaviour], [replay(behaviour, ctx.seed)], prefixes)
