"""Interposition from OUTSIDE the repository (no source hooks).

Every attribute of every loaded bycycle.* module that IS (identity) a given function object is replaced
by a wrapper; the identity scan survives `from x import y as z` refactors.  Used for
  * the neurodsp boundary: filter_signal, compute_filter_length, amp_by_time, detect_bursts_dual_threshold
  * bycycle's own public stage functions (find_extrema, find_zerox, compute_features, ...) to record
    stage events or to inject delays in pool workers.
"""
import contextlib
import importlib
import pkgutil
import sys


def load_all():
    import bycycle
    mods = [bycycle]
    for m in pkgutil.walk_packages(bycycle.__path__, 'bycycle.'):
        if '.tests' in m.name:
            continue
        try:
            mods.append(importlib.import_module(m.name))
        except Exception:
            pass
    return mods


def bycycle_modules():
    return [m for n, m in list(sys.modules.items()) if (n == 'bycycle' or n.startswith('bycycle.')) and m is not None
            and '.tests' not in n]


def neurodsp_targets():
    from neurodsp.filt import filter_signal
    from neurodsp.filt.fir import compute_filter_length
    from neurodsp.timefrequency import amp_by_time
    from neurodsp.burst import detect_bursts_dual_threshold
    return {'filter_signal': filter_signal, 'compute_filter_length': compute_filter_length,
            'amp_by_time': amp_by_time, 'detect_bursts_dual_threshold': detect_bursts_dual_threshold}


@contextlib.contextmanager
def replaced(mapping):
    """mapping: {original function object: replacement}.  Replaces by identity in all bycycle namespaces."""
    load_all()
    undo = []
    try:
        for mod in bycycle_modules():
            for name, val in list(vars(mod).items()):
                for orig, repl in mapping.items():
                    if val is orig:
                        undo.append((mod, name, val))
                        setattr(mod, name, repl)
        yield len(undo)
    finally:
        for mod, name, val in undo:
            setattr(mod, name, val)


def count_refs(func):
    load_all()
    return sum(1 for mod in bycycle_modules() for v in vars(mod).values() if v is func)
