"""Run TLC on a module of /verif/spec and parse what it reports.

Every run happens in a private scratch directory: the spec directory is copied there, the generated
.cfg is written next to the module, java.io.tmpdir and -metadir point into the scratch directory, so
nothing is left in /verif or /tmp.  Machinery failures raise TLCError (the caller exits 2).
"""
import json
import os
import re
import shutil
import subprocess
import tempfile
import time

SPEC_DIR = os.path.join(os.path.dirname(os.path.dirname(os.path.abspath(__file__))), 'spec')
JAR = '/opt/veriftools/tla/tla2tools.jar:/opt/veriftools/tla/CommunityModules-deps.jar'


class TLCError(Exception):
    pass


class Scratch:
    """A scratch directory removed on exit (context manager)."""

    def __init__(self):
        base = os.environ.get('VERIF_SCRATCH') or os.environ.get('TMPDIR') or '/tmp'
        self.path = tempfile.mkdtemp(prefix='bycverif-', dir=base)

    def __enter__(self):
        return self

    def __exit__(self, *a):
        shutil.rmtree(self.path, ignore_errors=True)

    def sub(self, name):
        p = os.path.join(self.path, name)
        os.makedirs(p, exist_ok=True)
        return p


_TOKEN = re.compile(r'<<\s*"(VERDICT|DISAGREE|NOTE|COUNT|ORDER|BEHAVIOUR)"\s*,')


def _match_brackets(text, start):
    """Return the end index (exclusive) of the <<...>> expression starting at text[start]."""
    depth, i, n = 0, start, len(text)
    in_str = False
    while i < n:
        c = text[i]
        if in_str:
            if c == '\\':
                i += 1
            elif c == '"':
                in_str = False
        elif c == '"':
            in_str = True
        elif text.startswith('<<', i):
            depth += 1
            i += 1
        elif text.startswith('>>', i):
            depth -= 1
            i += 1
            if depth == 0:
                return i + 1
        i += 1
    return -1


def _tla_to_py(s):
    """Parse the printed form of a TLA+ value made of tuples, strings, ints, booleans, sets, records."""
    s = s.strip()
    pos = 0

    def ws():
        nonlocal pos
        while pos < len(s) and s[pos] in ' \n\r\t':
            pos += 1

    def val():
        nonlocal pos
        ws()
        if s.startswith('<<', pos):
            pos += 2
            out = []
            ws()
            if s.startswith('>>', pos):
                pos += 2
                return out
            while True:
                out.append(val())
                ws()
                if s.startswith('>>', pos):
                    pos += 2
                    return out
                if s[pos] == ',':
                    pos += 1
                else:
                    raise ValueError('bad tuple at %d in %r' % (pos, s[:200]))
        if s[pos] == '{':
            pos += 1
            out = []
            ws()
            if s[pos] == '}':
                pos += 1
                return out
            while True:
                out.append(val())
                ws()
                if s[pos] == '}':
                    pos += 1
                    return out
                if s[pos] == ',':
                    pos += 1
                else:
                    raise ValueError('bad set')
        if s[pos] == '[':
            pos += 1
            out = {}
            while True:
                ws()
                m = re.match(r'[A-Za-z_][A-Za-z0-9_]*', s[pos:])
                k = m.group(0)
                pos += len(k)
                ws()
                assert s.startswith('|->', pos), s[pos:pos + 20]
                pos += 3
                out[k] = val()
                ws()
                if s[pos] == ']':
                    pos += 1
                    return out
                assert s[pos] == ',', s[pos:pos + 20]
                pos += 1
        if s[pos] == '"':
            j = pos + 1
            buf = []
            while s[j] != '"':
                if s[j] == '\\':
                    j += 1
                buf.append(s[j])
                j += 1
            pos = j + 1
            return ''.join(buf)
        m = re.match(r'-?\d+', s[pos:])
        if m:
            pos += len(m.group(0))
            return int(m.group(0))
        for lit, v in (('TRUE', True), ('FALSE', False)):
            if s.startswith(lit, pos):
                pos += len(lit)
                return v
        raise ValueError('cannot parse TLA+ value at %d: %r' % (pos, s[pos:pos + 60]))

    return val()


def parse_prints(text):
    """All <<"VERDICT"|"DISAGREE"|"NOTE"|"COUNT", ...>> values printed with PrintT, as python lists."""
    out = []
    for m in _TOKEN.finditer(text):
        end = _match_brackets(text, m.start())
        if end < 0:
            continue
        try:
            out.append(_tla_to_py(text[m.start():end]))
        except Exception:
            continue
    return out


def run(module, cfg, scratch, env=None, workers='auto', timeout=900, extra_args=(), coverage=False,
        files=None, deadlock=False, simulate=None, depth_first=False):
    """Run TLC on spec/<module>.tla with configuration text `cfg`.

    Returns a dict: ok (no TLC-level error), violated (name of a violated invariant/property or None),
    states (distinct), generated (= transitions incl. initial states), depth, prints (parsed PrintT
    tuples), coverage (action -> count), text, wall_s, error_trace (text of TLC's counterexample).
    """
    t0 = time.time()
    wd = tempfile.mkdtemp(prefix='tlc-', dir=scratch.path)
    for f in os.listdir(SPEC_DIR):
        if f.endswith('.tla'):
            shutil.copy(os.path.join(SPEC_DIR, f), wd)
    for name, content in (files or {}).items():
        with open(os.path.join(wd, name), 'w') as fh:
            fh.write(content)
    with open(os.path.join(wd, module + '.cfg'), 'w') as fh:
        fh.write(cfg)
    e = dict(os.environ)
    e.update(env or {})
    jopts = '-Djava.io.tmpdir=%s' % wd
    if depth_first:
        jopts += ' -Dtlc2.tool.queue.IStateQueue=StateDeque'
    e['JAVA_TOOL_OPTIONS'] = jopts
    nw = str(os.cpu_count() or 4) if workers == 'auto' else str(workers)
    cmd = ['java', '-XX:+UseParallelGC', '-Xmx%s' % os.environ.get('VERIF_TLC_XMX', '8g'), '-cp', JAR,
           'tlc2.TLC', '-workers', nw, '-metadir', os.path.join(wd, 'meta'), '-noGenerateSpecTE',
           '-config', module + '.cfg']
    if not deadlock:
        cmd.append('-deadlock')
    if coverage:
        cmd += ['-coverage', '1']
    if simulate:
        cmd += ['-simulate', simulate]
    cmd += list(extra_args) + [module + '.tla']
    try:
        p = subprocess.run(cmd, cwd=wd, env=e, capture_output=True, text=True, timeout=timeout)
    except subprocess.TimeoutExpired as ex:
        raise TLCError('TLC timeout after %ss on %s' % (timeout, module)) from ex
    text = p.stdout + '\n' + p.stderr
    res = {'text': text, 'wall_s': time.time() - t0, 'wd': wd, 'cmd': ' '.join(cmd), 'rc': p.returncode}
    m = re.search(r'(\d+) states generated, (\d+) distinct states found, (\d+) states left on queue', text)
    if m:
        res['generated'], res['states'], res['left'] = int(m.group(1)), int(m.group(2)), int(m.group(3))
    else:
        res['generated'] = res['states'] = 0
    m = re.search(r'The depth of the complete state graph search is (\d+)', text)
    res['depth'] = int(m.group(1)) if m else 0
    res['prints'] = parse_prints(text)
    viol = None
    m = re.search(r'Error: Invariant (\S+) is violated', text)
    if m:
        viol = m.group(1)
    m2 = re.search(r'Error: Action property (\S+) is violated', text)
    if m2:
        viol = m2.group(1)
    if re.search(r'Error: Temporal properties were violated', text):
        viol = viol or 'TemporalProperty'
    if re.search(r'Error: Deadlock reached', text):
        viol = viol or 'Deadlock'
    if 'is violated by the initial state' in text and not viol:
        m3 = re.search(r'Invariant (\S+) is violated by the initial state', text)
        viol = m3.group(1) if m3 else 'InitialState'
    if re.search(r'Error: The postcondition', text) or 'POSTCONDITION' in text and 'violated' in text and not viol:
        viol = viol or 'Postcondition'
    res['violated'] = viol
    tr = ''
    if viol:
        i = text.find('Error: ')
        tr = text[i:i + 6000]
    res['error_trace'] = tr
    finished = 'Model checking completed' in text or 'Finished in' in text or (simulate and 'Finished' in text)
    hard = re.search(r'(Error: (?!Invariant|Action property|Temporal|Deadlock|The behavior|The following|The postcondition)[^\n]*)', text)
    res['ok'] = bool(finished) and not (hard and not viol)
    if hard and not viol:
        res['hard_error'] = hard.group(1) + text[hard.end():hard.end() + 1500]
    cov = {}
    if coverage:
        for m in re.finditer(r'<(\w+) line \d+, col \d+ to line \d+, col \d+ of module (\w+)>: (\d+):(\d+)', text):
            cov[m.group(1)] = cov.get(m.group(1), 0) + int(m.group(4))
    res['coverage'] = cov
    return res


def must(res, what=''):
    """Raise TLCError when TLC itself failed (parse error, evaluation error, crash): machinery failure."""
    if not res['ok']:
        raise TLCError('TLC failed %s: %s\n%s' % (what, res.get('hard_error', ''), res['text'][-3000:]))
    return res


def cfg(spec='Spec', constants=None, invariants=(), properties=(), constraints=(), postcondition=None,
        view=None, init=None, next_=None, symmetry=None, check_deadlock=False):
    lines = []
    if init:
        lines += ['INIT ' + init, 'NEXT ' + next_]
    else:
        lines.append('SPECIFICATION ' + spec)
    if constants:
        lines.append('CONSTANTS')
        for k, v in constants.items():
            lines.append('  %s = %s' % (k, tla(v)) if not (isinstance(v, str) and v.startswith('<-')) else '  %s %s' % (k, v))
    for i in invariants:
        lines.append('INVARIANT ' + i)
    for p in properties:
        lines.append('PROPERTY ' + p)
    for c in constraints:
        lines.append('CONSTRAINT ' + c)
    if postcondition:
        lines.append('POSTCONDITION ' + postcondition)
    if view:
        lines.append('VIEW ' + view)
    if symmetry:
        lines.append('SYMMETRY ' + symmetry)
    lines.append('CHECK_DEADLOCK ' + ('TRUE' if check_deadlock else 'FALSE'))
    return '\n'.join(lines) + '\n'


def tla(v):
    """Python value -> TLA+ literal for a .cfg file."""
    if isinstance(v, bool):
        return 'TRUE' if v else 'FALSE'
    if isinstance(v, int):
        return str(v)
    if isinstance(v, str):
        return '"%s"' % v
    if isinstance(v, (list, tuple)):
        return '<<' + ', '.join(tla(x) for x in v) + '>>'
    if isinstance(v, (set, frozenset)):
        return '{' + ', '.join(tla(x) for x in sorted(v, key=repr)) + '}'
    raise TypeError(v)


def dump_json(path, obj):
    with open(path, 'w') as fh:
        json.dump(obj, fh, separators=(',', ':'))
