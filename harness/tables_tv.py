"""Recording of table-utility calls and of the epoched group analysis for Trace_Tables (C13, C18)."""
import copy
import warnings

import numpy as np
import pandas as pd

import gen
import project as pj
import record
import tv

PEAK = ['sample_last_zerox_decay', 'sample_last_trough', 'sample_zerox_rise', 'sample_peak', 'sample_zerox_decay', 'sample_next_trough']
TROUGH = ['sample_last_zerox_rise', 'sample_last_peak', 'sample_zerox_decay', 'sample_trough', 'sample_zerox_rise', 'sample_next_peak']


def col_fp(values):
    """Fingerprint of a column (or row) of floats/bools: lossless limbs folded into a 30-bit integer."""
    h = 17
    for v in values:
        for l in pj.limbs(float(v)):
            h = (h * 1000003 + l + 1) % 1073741789
    return int(h)


def roles_of(df):
    return PEAK if 'sample_peak' in df.columns else TROUGH


def project_rows(df, with_codes=None, id_col='rowid'):
    """rows: id, s (six samples in role order), fp (all non-sample, non-label, non-id feature values), lab."""
    roles = roles_of(df)
    feat_cols = [c for c in df.columns if not c.startswith('sample_') and c not in (id_col, 'is_burst')]
    out = []
    recs = df.to_dict('records')
    for i, r in enumerate(recs):
        row = {'id': int(r[id_col]) if id_col in r else i + 1,
               's': [int(r[c]) if c in r and float(r[c]) == int(r[c]) else 999999999 for c in roles],
               'fp': col_fp([r[c] for c in feat_cols]),
               'lab': bool(r.get('is_burst', False))}
        out.append(row)
    if with_codes is not None:
        method, thr = with_codes
        cols = record.FEAT4 if method == 'cycles' else ['burst_fraction']
        tcodes = []
        for c in cols:
            codes, tc = pj.rank_codes(df[c].values if c in df.columns else [float('nan')] * len(df), [thr.get(c + '_threshold', record.DEFAULT_THR[c + '_threshold'])])
            tcodes.append(tc[0])
            for i in range(len(out)):
                out[i].setdefault('codes', []).append(codes[i])
        return out, tcodes
    return out


def snapshot(df):
    return [col_fp(df[c].values.astype(float)) for c in df.columns]


def analysis_tables(ctx, n, seed_off, max_len=800, kinds=None, large=(0, 0)):
    from bycycle.features import compute_features
    cases = gen.corpus(ctx.seed * 1000 + seed_off, n, max_len=max_len, kinds=kinds)
    cases += gen.large_cases(ctx.seed * 1000 + 700 + seed_off, large[0], large[1])          # tables of hundreds / thousands of cycles, sample indices beyond 2^15 / 2^16
    out = []
    for c in cases:
        o = copy.deepcopy(c['opts'])
        o['return_samples'] = True
        try:
            with warnings.catch_warnings():
                warnings.simplefilter('ignore')
                df = compute_features(c['sig'].copy(), c['fs'], c['f_range'], **o)
            if len(df) >= 3:
                df = df.copy()
                df['rowid'] = np.arange(1, len(df) + 1)
                out.append((c, df))
        except Exception:
            pass
    return out


# ------------------------------------------------------------------------------------------------ C18
def record_limit(df, fs, a2, b2, reset, lab=0):
    from bycycle.utils import limit_df
    df = pj.relabel(df, lab)
    pre = snapshot(df)
    raised, out = '', []
    try:
        res = limit_df(df, fs, start=None if a2 is None else a2 / (2.0 * fs), stop=None if b2 is None else b2 / (2.0 * fs), reset_indices=reset)
        out = project_rows(res)
    except Exception as ex:
        raised = type(ex).__name__ + ':' + str(ex)[:60]
    return {'op': 'limit_df', 't': project_rows(df), 'a2': -1 if a2 is None else int(a2), 'b2': -1 if b2 is None else int(b2), 'reset': bool(reset),
            'out': out, 'raised': raised, 'pre': pre, 'post': snapshot(df)}


def record_limit_signal(n, fs, a2, b2):
    from bycycle.utils import limit_signal
    raised, idx, tidx = '', [], []
    try:
        times = np.arange(n) / fs
        sg, tm = limit_signal(times, np.arange(n, dtype=float), start=None if a2 is None else a2 / (2.0 * fs), stop=None if b2 is None else b2 / (2.0 * fs))
        idx = [int(x) for x in sg]
        tidx = [int(round(x * fs)) for x in tm]
    except Exception as ex:
        raised = type(ex).__name__
    return {'op': 'limit_signal', 'n': int(n), 'a2': -1 if a2 is None else int(a2), 'b2': -1 if b2 is None else int(b2), 'idx': idx, 'times_idx': tidx, 'raised': raised}


def _cols(df):
    return [[c_i, col_fp(df[c].values.astype(float)), 1 if c.startswith('sample_') else 0] for c_i, c in enumerate(df.columns)]


def record_split_drop(df0, lab=0):
    from bycycle.utils import split_samples_df, drop_samples_df
    df0 = pj.relabel(df0, lab)
    names = list(df0.columns)
    idx = {c: i for i, c in enumerate(names)}

    def proj(d):
        return [[idx.get(c, -1), col_fp(d[c].values.astype(float)), 1 if c.startswith('sample_') else 0] for c in d.columns]
    out = []
    df = df0.copy()
    rec = {'op': 'split', 'cols_in': proj(df), 'raised': '', 'feat_out': [], 'samp_out': []}
    try:
        f, s = split_samples_df(df)
        rec['feat_out'], rec['samp_out'] = proj(f), proj(s)
    except Exception as ex:
        rec['raised'] = type(ex).__name__
    out.append(rec)
    df = df0.copy()
    rec = {'op': 'drop', 'cols_in': proj(df), 'raised': '', 'feat_out': [], 'pre': snapshot(df)}
    try:
        rec['feat_out'] = proj(drop_samples_df(df))
    except Exception as ex:
        rec['raised'] = type(ex).__name__
    rec['post'] = snapshot(df)
    out.append(rec)
    return out


def record_flatten(dfs, labels, two_d):
    from bycycle.utils import flatten_dfs
    # ids: table index * 10000 + row
    tabs = []
    k = 0
    src = []
    shape = (len(dfs), len(dfs[0])) if two_d else None
    flat_list = [d for row in dfs for d in row] if two_d else dfs
    seen = {}
    for t, d in enumerate(flat_list):
        if id(d) in seen:
            # the SAME table object at a second position of the list (e.g. one recording used as the reference of two conditions)
            d = src[seen[id(d)]]
        else:
            seen[id(d)] = t
            d = d.copy()
            d['rowid'] = t * 10000 + np.arange(len(d))
        src.append(d)
        tabs.append([int(x) for x in d['rowid'].values])
    arg = [src[i * shape[1]:(i + 1) * shape[1]] for i in range(shape[0])] if two_d else src
    lab_arg = [labels[i * shape[1]:(i + 1) * shape[1]] for i in range(shape[0])] if two_d else labels
    rec = {'op': 'flatten', 'tables': tabs, 'labels': [int(x) for x in labels], 'raised': '', 'out': []}
    try:
        res = flatten_dfs(arg, lab_arg)
        rec['out'] = [[int(a), int(b)] for a, b in zip(res['rowid'].values, res['Label'].values)]
        # later calls on the SAME table objects (other labels, a shorter list): what the first call returned is a value - it does not change afterwards
        try:
            flatten_dfs([src[0]], [int(labels[0]) + 500])
            flatten_dfs(arg, [[int(x) + 700 for x in row] for row in lab_arg] if two_d else [int(x) + 700 for x in lab_arg])
        except Exception:
            pass
        rec['out_later'] = [[int(a), int(b)] for a, b in zip(res['rowid'].values, res['Label'].values)] if 'Label' in res.columns and 'rowid' in res.columns else [[-1, -1]]
    except Exception as ex:
        rec['raised'] = type(ex).__name__ + ':' + str(ex)[:50]
    rec.setdefault('out_later', rec['out'])
    return rec


# ------------------------------------------------------------------------------------------------ C04 / C09: rename_extrema_df called directly
def record_rename(df_peak_of_negated, centre, rs, with_samples, lab=0):
    """rename_extrema_df(centre, table, return_samples) on the peak-centred shape table of the (negated) signal, with or without its sample columns."""
    from bycycle.utils.dataframes import rename_extrema_df
    df = df_peak_of_negated.copy() if with_samples else df_peak_of_negated[[c for c in df_peak_of_negated.columns if not c.startswith('sample_')]].copy()
    df = pj.relabel(df, lab)

    def fps(d):
        return [{'name': c, 'fp': col_fp(d[c].values.astype(float)), 'fpneg': col_fp(-d[c].values.astype(float)), 'fpone': col_fp(1 - d[c].values.astype(float))} for c in d.columns]
    rec = {'op': 'rename', 'centre': centre, 'rs': bool(rs), 'cols_in': fps(df), 'cols_out': [], 'raised': ''}
    try:
        out = rename_extrema_df(centre, df, rs) if lab % 2 else rename_extrema_df(centre, df, return_samples=rs)
        rec['cols_out'] = [[c, col_fp(out[c].values.astype(float))] for c in out.columns]
    except Exception as ex:
        rec['raised'] = type(ex).__name__ + ':' + str(ex)[:60]
    return rec


def run_rename(ctx, prefixes, n_cases, seed_off):
    """Direct calls of the secondary public function rename_extrema_df on shape tables of generated signals: both centrings x return_samples x
    tables with / without sample columns x row labellings."""
    from bycycle.features import compute_shape_features
    recs, metas = [], []
    for i, c in enumerate(gen.corpus(ctx.seed * 1000 + seed_off, n_cases, max_len=500)):
        try:
            with warnings.catch_warnings():
                warnings.simplefilter('ignore')
                shp = compute_shape_features(-c['sig'], c['fs'], c['f_range'])
        except Exception:
            continue
        for centre in ('peak', 'trough'):
            for rs in (True, False):
                ws = (i + (centre == 'peak') + rs) % 3 != 0
                recs.append(record_rename(shp, centre, rs, ws, lab=i + rs))
                metas.append({'kind': c['kind'], 'centre': centre, 'return_samples': rs, 'table_has_sample_columns': ws, 'labels': pj.LABELLINGS[(i + rs) % 4], 'cycles': len(shp)})
    judge(ctx, recs, metas, prefixes, 'rename')
    ctx.nontrivial += sum(1 for m in metas if m['centre'] == 'trough')
    ctx.parts.append({'part': 'direct.rename_extrema_df', 'calls': len(recs), 'trough': sum(1 for m in metas if m['centre'] == 'trough'),
                      'without_sample_columns': sum(1 for m in metas if not m['table_has_sample_columns'])})


# ------------------------------------------------------------------------------------------------ C13
def record_epoch_df(df, sig_len, L, lab=0):
    from bycycle.utils import epoch_df
    df = pj.relabel(df, lab)
    raised, out = '', []
    try:
        out = [project_rows(d) for d in epoch_df(df, sig_len, L)]
    except Exception as ex:
        raised = type(ex).__name__ + ':' + str(ex)[:60]
    return {'op': 'epoch_df', 'flat': project_rows(df), 'sigLen': int(sig_len), 'L': int(L), 'out': out, 'relabel': 'flat', 'opts': [], 'raised': raised}


def record_epochs2d(case, L, per_epoch, rng, layout=0, same_object=False):
    """compute_features_2d(axis=None) on the signal reshaped into epochs of length L, vs the analysis of the flattened signal."""
    from bycycle.features import compute_features
    from bycycle.group import compute_features_2d
    o = copy.deepcopy(case['opts'])
    o.pop('return_samples', None)
    n_ep = len(case['sig']) // L
    sig = case['sig'][:n_ep * L]
    import pool_tv
    sigs = pool_tv.vary(sig.reshape(n_ep, L), layout % 4)          # the same epochs in another memory layout (Fortran order, strided / transposed view)
    method = o['burst_method']
    if per_epoch:
        kw = []
        for e in range(n_ep):
            oe = copy.deepcopy(o)
            th = dict(oe.get('threshold_kwargs') or {})
            if method == 'cycles':
                th.update({'amp_consistency_threshold': float(rng.choice([0.0, 0.25, 0.5, 0.8])), 'monotonicity_threshold': float(rng.choice([0.25, 0.5, 0.8])),
                           'min_n_cycles': int(rng.integers(0, 4))})
            else:
                th.update({'burst_fraction_threshold': float(rng.choice([0.25, 0.5, 1.0])), 'min_n_cycles': int(rng.integers(1, 4))})
                if oe.get('burst_kwargs'):
                    oe['burst_kwargs'].pop('min_n_cycles', None)      # one minimum-cycle count per epoch, given in the thresholds
            if e % 3 == 1 and method == 'cycles':
                # a lax epoch right before one that leaves its thresholds out: the two must not share anything
                th = {'amp_fraction_threshold': 0.0, 'amp_consistency_threshold': 0.0, 'period_consistency_threshold': 0.0, 'monotonicity_threshold': 0.25, 'min_n_cycles': 1}
            oe['threshold_kwargs'] = th
            if e % 3 == 2 and method == 'cycles':
                del oe['threshold_kwargs']          # this epoch leaves the thresholds out: the library defaults apply to it, whatever its neighbours use
            if e % 6 == 5 and method == 'cycles':
                oe['threshold_kwargs'] = None       # ... or writes the documented default out: None (the library defaults apply as well)
            kw.append(oe)
        if same_object:
            # the idiom  [options] * n_epochs : ONE dictionary object at every position of the list - every epoch is re-labelled with these thresholds
            one = kw[1 % n_ep] if kw[1 % n_ep].get('threshold_kwargs') else kw[0]
            kw = [one] * n_ep
    else:
        kw = copy.deepcopy(o)
    raised, out, flat, opts = '', [], [], []
    with warnings.catch_warnings():
        warnings.simplefilter('ignore')
        try:
            ref_o = copy.deepcopy(kw[0] if per_epoch else kw)
            ref = compute_features(sig.copy(), case['fs'], case['f_range'], return_samples=True, **ref_o)
            ref = ref.copy()
            ref['rowid'] = np.arange(1, len(ref) + 1)
            flat = project_rows(ref)
        except Exception:
            return None
        try:
            # the same option objects are used for two consecutive calls; the SECOND result is judged against the options as written
            shared = copy.deepcopy(kw)
            compute_features_2d(sigs, case['fs'], case['f_range'], compute_features_kwargs=shared, axis=None)
            dfs = compute_features_2d(sigs, case['fs'], case['f_range'], compute_features_kwargs=shared, axis=None)
            if not np.array_equal(sigs, sig.reshape(n_ep, L)):
                raise AssertionError('the array of epochs was modified')
            # attach ids by matching the un-shifted closing extremum (unique per cycle) - an index lookup, not a judgement
            nxt_col = PEAK[5] if 'sample_peak' in ref.columns else TROUGH[5]
            by_next = {int(v): int(i) for v, i in zip(ref[nxt_col].values, ref['rowid'].values)}
            for e, d in enumerate(dfs):
                d = d.copy()
                d['rowid'] = [by_next.get(int(v) + e * L, 0) for v in d[nxt_col].values] if len(d) else []
                if per_epoch:
                    thr_e = kw[e].get('threshold_kwargs') or {k_: v_ for k_, v_ in record.DEFAULT_THR.items() if k_ != 'burst_fraction_threshold'}
                    rows, tc = project_rows(d, with_codes=(method, thr_e))
                    if not rows:
                        rows = []
                    opts.append({'method': method, 'thr': tc, 'm': int(thr_e.get('min_n_cycles', 3))})
                else:
                    rows = project_rows(d)
                out.append(rows)
        except Exception as ex:
            raised = type(ex).__name__ + ':' + str(ex)[:60]
    return {'op': 'epochs2d', 'flat': flat, 'sigLen': int(n_ep * L), 'L': int(L), 'out': out, 'relabel': 'per_epoch' if per_epoch else 'flat',
            'opts': opts, 'raised': raised}


def judge(ctx, recs, metas, prefixes, label):
    verdicts = tv.validate(ctx, 'Trace_Tables', recs, label='Trace_Tables.' + label)
    for r, m, fails in zip(recs, metas, verdicts):
        for f in fails:
            if any(f.startswith(p) for p in prefixes):
                ctx.violation(f + m.get('key_suffix', ''), '%s: %s (raised=%r)' % (r['op'], m, r.get('raised', '')), {'kind': 'tables', 'op': r['op'], 'meta': m})
    ctx.traces += len(recs)
    ctx.evaluations += len(recs)
    return verdicts
