"""Two-run relations (C09 mirror, C10 amplitude / sampling-rate covariance): record both runs with the same machinery as
the single-run traces, validate each on its own with Trace_Pipeline and the pair with Trace_Relations."""
import copy

import numpy as np

import gen
import pipeline
import project as pj
import record
import tv

BURST_COLS = {'cycles': record.FEAT4, 'amp': ['burst_fraction']}


def _rec(case, opts_obj=None):
    rec, df = record.record_compute_features(pipeline.as_recorded_dtype(case), opts_obj=opts_obj)          # integer-typed recordings where the values allow
    side = {'raised': rec['raised'], 'pos': rec['filt']['pos'], 'mask': rec['dt']['mask'], 'L': rec['flen']['L'], 'rows': [],
            'filt_input': rec['filt'].get('input', []), 'dt_input': rec['dt'].get('input', []), 'amp_input': rec['amp'].get('input', []),
            'flen': {k: rec['flen'][k] for k in ('seen', 'fs', 'flo', 'fhi', 'ncyc', 'nsec')}, 'filt': {k: rec['filt'][k] for k in ('seen', 'fs', 'flo', 'fhi', 'ncyc', 'nsec')}}
    if df is not None:
        method = case['opts']['burst_method']
        for i, r in enumerate(rec['rows']):
            row = {k: r[k] for k in record.ROLE_ORDER + record.INT_COLS + record.VOLT_COLS + ['volt_amp2'] + record.RAT_SHAPE + ['is_burst']}
            row['burst_limbs'] = [pj.limbs(df[c].values[i]) for c in BURST_COLS[method]]
            row['sym_limbs'] = [pj.limbs(df[c].values[i]) for c in ('time_rdsym', 'time_ptsym')]
            row['volt_limbs'] = [pj.limbs(df[c].values[i]) for c in ('volt_peak', 'volt_trough', 'volt_rise', 'volt_decay', 'volt_amp', 'band_amp')]
            side['rows'].append(row)
    return rec, side


def _variant(case, rel, rng):
    case['no_counts'] = True        # pairs keep their sample values (a re-quantisation of each side on its own would break the relation between them)
    b = copy.deepcopy(case)
    if rel == 'C09.mirror':
        case['opts']['center_extrema'] = 'trough'
        b['opts']['center_extrema'] = 'peak'
        b['q'] = -case['q']
        b['sig'] = -case['sig']
        desc = 'trough-centred analysis of s vs peak-centred analysis of -s'
    elif rel == 'C10.amp':
        k = int(rng.integers(-20, 21))
        k = max(-38 - case['e'], min(38 - case['e'], k)) or 3
        b['e'] = case['e'] + k
        b['sig'] = case['sig'] * (2.0 ** k)
        desc = 'signal multiplied by 2**%d' % k
    else:
        cfac = float(rng.choice([0.125, 0.25, 0.5, 2.0, 4.0]))
        for c in (case, b):
            fek = c['opts'].get('find_extrema_kwargs') or {}
            if (fek.get('filter_kwargs') or {}).get('n_seconds') is not None:
                fek['filter_kwargs'] = {'n_cycles': 3}
            if c['opts'].get('burst_kwargs'):
                c['opts']['burst_kwargs'].pop('min_burst_duration', None)
        b['fs'] = case['fs'] * cfac
        b['f_range'] = (case['f_range'][0] * cfac, case['f_range'][1] * cfac)
        desc = 'fs and both band edges multiplied by %s' % cfac
    return b, desc


def run(ctx, rel, n_cases, prefixes, seed_offset, max_len=900, kinds=None):
    cases = gen.corpus(ctx.seed * 1000 + seed_offset, n_cases, max_len=max_len, kinds=kinds)
    rng = np.random.default_rng(ctx.seed * 1000 + seed_offset + 1)
    pairs, singles, descs = [], [], []
    for c in cases:
        if rel != 'C09.mirror':
            c['opts']['return_samples'] = True
        b, desc = _variant(c, rel, rng)
        shared = None
        if rel == 'C10.fs' and len(pairs) % 2 == 0:
            # the user re-uses the SAME option objects for the second call (fs and band in other units): settings must not go stale
            shared = copy.deepcopy(c['opts'])
            desc += ' (both calls with the same option objects)'
        ra, sa = _rec(c, shared)
        rb, sb = _rec(b, shared)
        singles += [ra, rb]
        pairs.append({'rel': rel, 'A': sa, 'B': sb})
        descs.append(desc)
    v1 = tv.validate(ctx, 'Trace_Pipeline', singles, label='Trace_Pipeline.' + rel)
    v2 = tv.validate(ctx, 'Trace_Relations', pairs, label='Trace_Relations.' + rel)
    env_failed = nontriv = single_fail = 0
    for i, (c, fails) in enumerate(zip(cases, v2)):
        if any('.env.' in f for f in fails) and not any(f.endswith('filter_arguments_not_in_the_same_units') or '.inputs_to_' in f for f in fails):
            env_failed += 1          # an environment assumption (neurodsp covariance) failed: the pair proves nothing either way
            continue
        if len(pairs[i]['A']['rows']) >= 3:
            nontriv += 1
        for f in fails:
            if any(f.startswith(p) for p in prefixes):
                o = c['opts']
                ctx.violation(f, '%s: %s signal (n=%d, fs=%s, band=%s, method=%s, find_extrema_kwargs=%s, thresholds=%s): failing clauses %s'
                              % (descs[i], c['kind'], len(c['q']), c['fs'], c['f_range'], o['burst_method'], o['find_extrema_kwargs'],
                                 o['threshold_kwargs'], fails), dict(pipeline.replay_payload(c), kind='relation', rel=rel, desc=descs[i]))
    single_fail = sum(1 for f in v1 if f)
    ctx.traces += 2 * len(pairs)
    ctx.evaluations += len(pairs)
    ctx.nontrivial += nontriv
    ctx.sample({'pair': descs[0], 'case': pipeline.case_brief(cases[0], singles[0])})
    ctx.parts.append({'part': 'pairs.' + rel, 'pairs': len(pairs), 'env_assumption_failed': env_failed,
                      'single_runs_with_failing_clauses(other properties)': single_fail,
                      'methods': sorted({c['opts']['burst_method'] for c in cases})})
    if env_failed > len(pairs) // 2:
        raise RuntimeError('environment covariance assumption failed for %d of %d pairs' % (env_failed, len(pairs)))
    return cases, pairs, v2
