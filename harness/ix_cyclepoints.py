"""Indexed exhaustive conformance tables for MC_Cyclepoints and MC_Zerox: the REAL find_extrema,
compute_cyclepoints and find_zerox run on every input of the model's small-scope space, in the order of the
model's mixed-radix Index."""
import os
from multiprocessing import Pool

import numpy as np

import interpose

_CUR = {}


def _stub_filter(sig, fs, pass_type, f_range, *a, **k):
    return _CUR['filt']


def _stub_len(*a, **k):
    return 0


def _mask(idx):
    return int(sum(1 << int(i) for i in idx))


def _ext_entry(sig, B, first):
    from bycycle.cyclepoints import find_extrema
    try:
        p, t = find_extrema(sig, 100, (8, 12), boundary=B, first_extrema=first, pad=False)
        p, t = np.asarray(p), np.asarray(t)
        if (len(p) and (p.min() < 0 or p.max() >= len(sig))) or (len(t) and (t.min() < 0 or t.max() >= len(sig))):
            return {'ok': 0, 'pk': -2, 'tr': -2}
        if len(set(p.tolist())) != len(p) or len(set(t.tolist())) != len(t) or list(p) != sorted(p) or list(t) != sorted(t):
            return {'ok': 0, 'pk': -3, 'tr': -3}
        return {'ok': 1, 'pk': _mask(p), 'tr': _mask(t)}
    except Exception:
        return {'ok': 0, 'pk': -1, 'tr': -1}


def _cyc_entry(sig, B):
    from bycycle.features import compute_cyclepoints
    try:
        df = compute_cyclepoints(sig, 100, (8, 12), boundary=B, pad=False)
        cols = ['sample_last_trough', 'sample_last_zerox_decay', 'sample_zerox_rise', 'sample_peak',
                'sample_zerox_decay', 'sample_next_trough']
        return {'ok': 1, 'rows': [[int(r[c]) for c in cols] for r in df.to_dict('records')]}
    except Exception:
        return {'ok': 0, 'rows': []}


def _cyc_chunk(args):
    ns, v, max_b, bs, firsts, lo, hi = args
    targets = interpose.neurodsp_targets()
    out = []
    with interpose.replaced({targets['filter_signal']: _stub_filter, targets['compute_filter_length']: _stub_len}):
        for si in range(lo, hi):
            sig = np.array([(si // (v + 1) ** j) % (v + 1) for j in range(ns)], dtype=float)
            for pm in range(1 << ns):
                posb = np.array([(pm >> j) & 1 for j in range(ns)], dtype=bool)
                fneg = np.where(posb, 1.0, -1.0)
                fzero = np.where(posb, 1.0, 0.0)
                for B in range(max_b + 1):
                    for fc, first in enumerate(('peak', 'trough', None)):
                        if B not in bs or fc not in firsts:
                            out.extend([0] * 11)
                            continue
                        _CUR['filt'] = fneg
                        e1 = _ext_entry(sig, B, first)
                        cyc = _cyc_entry(sig, B) if first == 'peak' else {'ok': 0, 'rows': []}
                        _CUR['filt'] = fzero
                        e2 = _ext_entry(sig, B, first)
                        rows = cyc['rows']
                        codes = []
                        for r in rows[:3]:
                            c = 0
                            for x in r:
                                c = c * ns + (x if 0 <= x < ns else 0)
                            codes.append(c if all(0 <= x < ns for x in r) else -1)
                        codes += [0] * (3 - len(codes))
                        out.extend([e1['ok'], e1['pk'], e1['tr'], e2['ok'], e2['pk'], e2['tr'], cyc['ok'], len(rows)] + codes)
    return out


def cyclepoints_table(ns, v, bs, firsts):
    """firsts: subset of {0,1,2} (peak, trough, none)."""
    nsig = (v + 1) ** ns
    max_b = max(bs)
    nproc = min(16, os.cpu_count() or 4)
    step = max(1, nsig // (nproc * 4))
    jobs = [(ns, v, max_b, set(bs), set(firsts), lo, min(nsig, lo + step)) for lo in range(0, nsig, step)]
    with Pool(nproc) as p:
        parts = p.map(_cyc_chunk, jobs)
    tab = []
    for x in parts:
        tab.extend(x)
    n_cases = nsig * (1 << ns) * len(bs) * len(firsts)
    return tab, n_cases


def _listcode(l, ns):
    c = 0
    for x in l:
        x = int(x)
        if not 0 <= x < ns:
            return -2
        c = c * (ns + 1) + x + 1
    return c


def _zx_chunk(args):
    ns, v, lo, hi = args
    from bycycle.cyclepoints import find_zerox
    out = []
    for si in range(lo, hi):
        sig = np.array([(si // (v + 1) ** j) % (v + 1) for j in range(ns)], dtype=float)
        for sm in range(1 << ns):
            idx = [j for j in range(ns) if (sm >> j) & 1]
            for pf in (0, 1):
                if len(idx) < 2:
                    out.extend([0, 0, 0])
                    continue
                odd, even = np.array(idx[0::2], dtype=int), np.array(idx[1::2], dtype=int)
                pk, tr = (odd, even) if pf else (even, odd)
                try:
                    r, d = find_zerox(sig, pk, tr)
                    out.extend([1, _listcode(r, ns), _listcode(d, ns)])
                except Exception:
                    out.extend([0, -1, -1])
    return out


def zerox_table(ns, v):
    nsig = (v + 1) ** ns
    nproc = min(16, os.cpu_count() or 4)
    step = max(1, nsig // (nproc * 4))
    jobs = [(ns, v, lo, min(nsig, lo + step)) for lo in range(0, nsig, step)]
    with Pool(nproc) as p:
        parts = p.map(_zx_chunk, jobs)
    tab = []
    for x in parts:
        tab.extend(x)
    n_cases = nsig * ((1 << ns) - ns - 1) * 2
    return tab, n_cases
