"""Trace validation driver: split recorded cases into batches, one single-worker TLC per batch, several JVMs in
parallel, collect one VERDICT per case (total verdicts: a missing verdict is a machinery failure)."""
import os
from concurrent.futures import ThreadPoolExecutor

import tlc


def validate(ctx, module, cases, label=None, jvms=None, per_batch=None, timeout=1800, env_name='TRACE_FILE'):
    """Returns list (aligned with cases) of lists of failing clause names."""
    if not cases:
        return []
    jvms = jvms or min(12, os.cpu_count() or 4)
    per_batch = per_batch or max(1, -(-len(cases) // jvms))
    batches = [cases[i:i + per_batch] for i in range(0, len(cases), per_batch)]

    def one(bi):
        path = os.path.join(ctx.scratch.path, '%s_batch%d_%d.json' % (module, bi, id(cases) % 100000))
        tlc.dump_json(path, batches[bi])
        res = tlc.must(tlc.run(module, tlc.cfg(), ctx.scratch, env={env_name: path}, workers=1, timeout=timeout), module)
        os.remove(path)
        return res

    with ThreadPoolExecutor(max_workers=jvms) as ex:
        results = list(ex.map(one, range(len(batches))))
    verdicts = []
    for bi, res in enumerate(results):
        ctx.add_tlc(res, (label or module) + '[%d]' % bi)
        v = {p[1]: p[2] for p in res['prints'] if p[0] == 'VERDICT'}
        if len(v) != len(batches[bi]):
            raise tlc.TLCError('%s batch %d: %d verdicts for %d cases\n%s' % (module, bi, len(v), len(batches[bi]), res['text'][-2000:]))
        for k in range(len(batches[bi])):
            verdicts.append(list(v[k + 1]))
    return verdicts
