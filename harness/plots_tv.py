"""Recording of plotting calls under the Agg backend for Trace_Plots (C20): artist data mapped back to samples."""
import copy
import warnings

import numpy as np

import project as pj
import record

KINDS = ['centre', 'side', 'rise', 'decay']


def times_of(n, fs):
    return np.arange(n) / fs


def xlim_of(n, fs, a, b):
    """x-limits that fall on sample times: sample / fs (the property's wording); a missing limit is the start / one past the end."""
    if a is None and b is None:
        return None
    lo = (a / fs) if a is not None else 0.0
    hi = (b / fs) if b is not None else (n / fs)
    return (lo, hi)


def exact_window(n, fs, a, b):
    """True when fs * (sample / fs) reproduces the sample exactly for both limits (always so when fs is a power of two)."""
    ok = True
    for v in ((a if a is not None else 0), (b if b is not None else n)):
        t = v / fs
        ok = ok and (t * fs == v) and (int(fs * t) == v)
    return bool(ok)


def inexact_direction(n, fs, a, b):
    """'below' when for some limit int(fs * (s / fs)) != s (the product falls a hair below s and truncates to s - 1), else 'above'
    (the product is a hair above s: truncation still gives s, but comparisons with sample indices equal to s go the other way)."""
    for v in ((a if a is not None else 0), (b if b is not None else n)):
        if int(fs * (v / fs)) != v:
            return 'below'
    return 'above'


def table_rows(df, cols):
    roles = record.PEAK_ROLES if 'sample_peak' in df.columns else record.TROUGH_ROLES
    order = ['lastzx', 'last', 'zx1', 'centre', 'zx2', 'next']
    rows = []
    for r in df.to_dict('records'):
        rows.append({'s': [int(r[roles[k]]) for k in order], 'lab': bool(r.get('is_burst', False)),
                     'val': {c: pj.limbs(r[c]) for c in cols} or {'none': [0, 0, 0]}})
    return rows


def to_samples(x, fs, tfull):
    s = [int(round(float(v) * fs)) for v in x]
    ok = all(0 <= k < len(tfull) and abs(float(v) - k / fs) < 1e-9 for k, v in zip(s, x))
    return s, bool(ok)


def _has_marker(l):
    return l.get_marker() not in (None, 'None', '', ' ')


def _no_line(l):
    return l.get_linestyle() in ('None', '', ' ', None)


def marker_lines(ax):
    """Marker-only artists in creation order: Line2D with a marker and no connecting line (any marker shape / colour), then scatter
    collections.  Returns a list of (xdata, ydata)."""
    out = [(np.asarray(l.get_xdata(orig=True), dtype=float), np.asarray(l.get_ydata(orig=True), dtype=float)) for l in ax.lines if _has_marker(l) and _no_line(l)]
    for col in ax.collections:
        off = np.asarray(col.get_offsets(), dtype=float)
        if off.ndim == 2 and off.shape[1] == 2 and type(col).__name__ == 'PathCollection':
            out.append((off[:, 0], off[:, 1]))
    return out


def panel_lines(ax, thr):
    """(parameter vertices x, y), (threshold line y) of a parameter panel, whatever line styles are used: the threshold line is the
    two-point (or constant) line without markers whose y equals the threshold; the parameter line is the other one."""
    cands = [l for l in ax.lines]
    thr_l = None
    for l in cands:
        y = np.asarray(l.get_ydata(orig=True), dtype=float)
        if len(y) >= 2 and not _has_marker(l) and np.all(y == y[0]) and y[0] == thr:
            thr_l = l
            break
    if thr_l is None:
        dashed = [l for l in cands if l.get_linestyle() in ('--', ':', '-.') and not _has_marker(l)]
        thr_l = dashed[0] if dashed else None
    rest = [l for l in cands if l is not thr_l]
    par = max(rest, key=lambda l: (1 if _has_marker(l) else 0, len(l.get_xdata()))) if rest else None
    return par, thr_l


def record_plot(op, df, sig, fs, thr, a, b, flags):
    """op in {cyclepoints_df, cyclepoints_array, param, summary, object}. (a, b): x-window in samples or (None, None)."""
    import matplotlib
    matplotlib.use('Agg')
    import matplotlib.pyplot as plt
    from scipy.stats import zscore
    from bycycle.plts import plot_burst_detect_summary, plot_cyclepoints_df, plot_cyclepoints_array, plot_burst_detect_param
    from bycycle import Bycycle
    n = len(sig)
    tfull = times_of(n, fs)
    xlim = xlim_of(n, fs, a, b)
    peakC = 'sample_peak' in df.columns
    roles = record.PEAK_ROLES if peakC else record.TROUGH_ROLES
    pcols = [k.replace('_threshold', '') for k in thr if k != 'min_n_cycles'] if op in ('summary', 'object', 'param') else []
    pcols = [c for c in pcols if c in df.columns]
    case = {'op': op, 'n': int(n), 'a': -1 if a is None else int(a), 'b': -1 if b is None else int(b), 'peakC': bool(peakC),
            't': table_rows(df, pcols), 'raised': '', 'interp': bool(flags.get('interp', True)), 'has_burst': False, 'H': [], 'Hy': [], 'panels': [], 'marker_union': False,
            'markers': {k: {'shown': False, 'samples': [], 'y': [], 'on_grid': True} for k in KINDS}, 'sig': []}
    plotted = np.asarray(sig, dtype=float)
    drawn_sig = None
    df_in = df.copy()
    try:
        with warnings.catch_warnings():
            warnings.simplefilter('ignore')
            if op == 'cyclepoints_df':
                plot_cyclepoints_df(df_in, sig, fs, plot_sig=flags.get('plot_sig', True), plot_extrema=flags.get('plot_extrema', True),
                                    plot_zerox=flags.get('plot_zerox', True), xlim=xlim)
                shown = (['centre', 'side'] if flags.get('plot_extrema', True) else []) + (['rise', 'decay'] if flags.get('plot_zerox', True) else [])
            elif op == 'cyclepoints_array':
                side = np.unique(np.append(df[roles['last']].values, df[roles['next']].values))
                rises = df['sample_zerox_rise'].values
                decays = df['sample_zerox_decay'].values
                kw = {}
                shown = []
                for kind, name, arr in (('centre', 'peaks', df[roles['centre']].values), ('side', 'troughs', side), ('rise', 'rises', rises), ('decay', 'decays', decays)):
                    if flags.get(kind, True):
                        kw[name] = arr
                        shown.append(kind)
                plot_cyclepoints_array(sig, fs, xlim=xlim, plot_sig=flags.get('plot_sig', True), **kw)
            elif op == 'param':
                col = pcols[flags.get('param_index', 0) % len(pcols)]
                pcols = [col]
                plot_burst_detect_param(df_in, sig, fs, col, thr[col + '_threshold'], xlim=xlim, interp=case['interp'])
                shown = []
            else:
                plotted = zscore(np.asarray(sig, dtype=float))
                if op == 'object':
                    bm = Bycycle(thresholds=copy.deepcopy(thr), center_extrema='peak' if peakC else 'trough',
                                 burst_method='cycles' if 'amp_fraction' in df.columns else 'amp')
                    bm.load(df_in, sig, fs, (8, 12))
                    bm.plot(xlim=xlim, plot_only_results=flags.get('only_result', False), interp=case['interp'])
                else:
                    plot_burst_detect_summary(df_in, sig, fs, copy.deepcopy(thr), xlim=xlim, plot_only_result=flags.get('only_result', False), interp=case['interp'])
                shown = ['centre', 'side']
            fig = plt.gcf()
            axes = fig.axes
            ax0 = axes[0]
            sl = [l for l in ax0.lines if not _no_line(l) and not _has_marker(l) and not np.ma.is_masked(l.get_ydata(orig=True)) and len(l.get_xdata()) > 2]
            sl.sort(key=lambda l: (l.get_label() != 'Signal', -len(l.get_xdata())))
            if sl and op != 'param':
                y_ = np.ma.filled(np.ma.asarray(sl[0].get_ydata(orig=True), dtype=float), np.nan)
                xs_, okg_ = to_samples(sl[0].get_xdata(orig=True), fs, tfull)
                drawn_sig = (xs_, list(y_), okg_)
            if op in ('summary', 'object'):
                burst_line = [l for l in ax0.lines if l.get_label() == 'Bursts'] or [l for l in ax0.lines if not _no_line(l) and np.ma.is_masked(l.get_ydata(orig=True))]
                if burst_line:
                    y = burst_line[0].get_ydata(orig=True)
                    x = burst_line[0].get_xdata(orig=True)
                    mask = np.ma.getmaskarray(y) | np.isnan(np.ma.filled(np.ma.asarray(y, dtype=float), np.nan))
                    xs, okg = to_samples(np.asarray(x)[~mask], fs, tfull)
                    case['has_burst'] = True
                    case['H'] = xs
                    case['Hy'] = [pj.limbs(v) for v in np.ma.filled(np.ma.asarray(y, dtype=float), np.nan)[~mask]]
                    if not okg:
                        case['markers']['centre']['on_grid'] = False
                if flags.get('only_result', False):
                    pcols = []
                # which panel shows which parameter: by the panel's own label when the labels name the parameters one-to-one (the order of
                # the panels is presentation), otherwise by position in the order of the thresholds dictionary
                labs = [a_.get_ylabel().split('\n')[0].strip().lower().replace(' ', '_') for a_ in axes[1:1 + len(pcols)]]
                by_label = {l_: a_ for l_, a_ in zip(labs, axes[1:1 + len(pcols)])} if sorted(labs) == sorted(pcols) and len(set(labs)) == len(labs) else None
                for pi_, col in enumerate(pcols):
                    axp = by_label[col] if by_label else axes[pi_ + 1]
                    par_l, thr_l = panel_lines(axp, thr[col + '_threshold'])
                    pl, tl = ([par_l] if par_l is not None else []), ([thr_l] if thr_l is not None else [])
                    xs, okg = to_samples(pl[0].get_xdata(orig=True), fs, tfull) if pl else ([], False)
                    ys = [pj.limbs(v) for v in (pl[0].get_ydata(orig=True) if pl else [])]
                    case['panels'].append({'col': col, 'verts': [[s_, y_] for s_, y_ in zip(xs, ys)] if okg else [[-5, [0, 0, 0]]],
                                           'thr_line': [pj.limbs(v) for v in (list(tl[0].get_ydata(orig=True))[:1] + list(tl[0].get_ydata(orig=True))[-1:] if tl else [])],
                                           'thr': [pj.limbs(thr[col + '_threshold'])] * 2})
            elif op == 'param':
                par_l, thr_l = panel_lines(ax0, thr[pcols[0] + '_threshold'])
                pl, tl = ([par_l] if par_l is not None else []), ([thr_l] if thr_l is not None else [])
                xs, okg = to_samples(pl[0].get_xdata(orig=True), fs, tfull) if pl else ([], False)
                ys = [pj.limbs(v) for v in (pl[0].get_ydata(orig=True) if pl else [])]
                case['panels'].append({'col': pcols[0], 'verts': [[s_, y_] for s_, y_ in zip(xs, ys)] if okg else [[-5, [0, 0, 0]]],
                                       'thr_line': [pj.limbs(v) for v in (list(tl[0].get_ydata(orig=True))[:1] + list(tl[0].get_ydata(orig=True))[-1:] if tl else [])],
                                       'thr': [pj.limbs(thr[pcols[0] + '_threshold'])] * 2})
            if op != 'param':
                ml = marker_lines(ax0)
                if len(ml) == len(shown):
                    for kind, (mx, my) in zip(shown, ml):
                        xs, okg = to_samples(mx, fs, tfull)
                        case['markers'][kind] = {'shown': True, 'samples': xs if okg else [], 'y': [pj.limbs(v) for v in my] if okg else [], 'on_grid': okg}
                else:
                    # another number of marker artists than kinds (e.g. one scatter call for everything): every kind is judged on the union
                    allx = np.concatenate([m[0] for m in ml]) if ml else np.array([])
                    ally = np.concatenate([m[1] for m in ml]) if ml else np.array([])
                    xs, okg = to_samples(allx, fs, tfull)
                    case['marker_union'] = True
                    for kind in shown:
                        case['markers'][kind] = {'shown': True, 'samples': xs if okg else [], 'y': [pj.limbs(v) for v in ally] if okg else [], 'on_grid': okg}
    except Exception as ex:
        case['raised'] = type(ex).__name__ + ':' + str(ex)[:70]
    finally:
        plt.close('all')
    case['sig'] = [pj.limbs(v) for v in plotted]
    # the signal as actually DRAWN (when a signal line exists): markers and the highlighted trace must sit on it
    if drawn_sig is not None:
        xs, ys, okg = drawn_sig
        if okg:
            for s_, y_ in zip(xs, ys):
                if 0 <= s_ < len(case['sig']):
                    case['sig'][s_] = pj.limbs(y_)
        else:
            case['markers']['centre']['on_grid'] = False
    return case
