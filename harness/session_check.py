"""Shared driver for C14 / C15: model-check Session.tla, let TLC generate behaviours, replay them on real objects, validate with Trace_Session."""
import json
import os
from multiprocessing import Pool

import session_rp
import tlc
import tv


def run_mc(ctx, pid, depth):
    base = 'CONSTANTS\n  MaxDepth = %d\nINVARIANT HeapIsIntent\nINVARIANT NoStale\nCHECK_DEADLOCK FALSE\n' % depth
    res = tlc.must(tlc.run('Session', 'SPECIFICATION Spec\nPROPERTY OnlyEditsWrite\nVIEW View\n' + base, ctx.scratch, coverage=True, timeout=3000), 'Session')
    ctx.add_tlc(res, 'MC_Session(depth=%d)' % depth)
    if res['violated']:
        ctx.violation(pid + '.spec.' + res['violated'], 'the Session specification violates %s: %s' % (res['violated'], res['error_trace'][:1200]))
    neg = tlc.must(tlc.run('Session', 'SPECIFICATION SpecDeviant\nVIEW View\n' + base, ctx.scratch, timeout=600), 'SessionDeviant')
    ctx.parts.append({'part': 'negative_control.fit_writes_back', 'violates': neg['violated']})
    if neg['violated'] not in ('HeapIsIntent', 'NoStale'):
        raise tlc.TLCError('negative control: the deviant Session spec should violate HeapIsIntent/NoStale, got %r' % neg['violated'])


def behaviours(ctx, n, depth):
    out, seen = [], set()
    seed = ctx.seed * 7 + 3
    for attempt in range(6):
        which = ['Spec', 'SpecFocused', 'SpecRefit'][attempt % 3]
        cfg = 'SPECIFICATION %s\nCONSTANTS\n  MaxDepth = %d\nINVARIANT %s\nCHECK_DEADLOCK FALSE\n' % (which, depth, 'AtDepth' if which == 'Spec' else 'AtDepthRich')
        res = tlc.must(tlc.run('Session', cfg, ctx.scratch, simulate='num=%d' % (max(300, 2 * n) if attempt % 3 == 0 else max(3000, 30 * n)), extra_args=['-depth', str(depth + 1), '-seed', str(seed + attempt)],
                               workers=1, timeout=600), 'Session.simulate')
        ctx.add_tlc(res, 'Session.simulate[%d]' % attempt)
        for p in res['prints']:
            if p[0] == 'BEHAVIOUR':
                key = json.dumps(p[1], sort_keys=True)
                if key not in seen:
                    seen.add(key)
                    out.append(p[1])
        if attempt >= 2 and len(out) >= 2 * n:
            break
    # prefer behaviours that exercise objects: at least one Fit and one Edit or Call
    score = lambda b: -(sum(1 for a in b if a['a'] == 'Fit') * 3 + sum(1 for a in b if a['a'] in ('Edit', 'Recompute')) * 2 + sum(1 for a in b if a['a'] == 'Call'))
    refit = [b for b in out if all(a['o'] in (0, 1) or a['a'] == 'Edit' for a in b) and sum(1 for a in b if a['a'] == 'Fit') >= 2 and len({a['s'] for a in b if a['a'] == 'Fit'}) == 1]
    refit.sort(key=lambda b: -len({(a['a'], a.get('f', '')) for a in b}))
    heavy = sorted([b for b in out if sum(1 for a in b if a['a'] == 'Fit') >= 2 and b not in refit[:n // 3]], key=score)
    # always among the chosen: for each method, sessions in which ONE object is fitted, its own threshold dictionary is edited (minimum cycle count
    # resp. threshold level) while the burst options carry no minimum of their own, and the same signal is fitted again - the shortest route to stale state
    def stale_route(b, method, field):
        cur_tk, fitted, edited, bk_mnc = {}, {}, set(), 0
        for a in b:
            if a['a'] == 'New':
                cur_tk[a['o']] = a['tk'] if a['method'] == method else None
                fitted.pop(a['o'], None)
            elif a['a'] == 'Rebind' and cur_tk.get(a['o']) is not None:
                cur_tk[a['o']] = a['tk']
            elif a['a'] == 'Edit' and a['o'] == 2 and a['method'] == 'mnc':
                bk_mnc = a['v']
            elif a['a'] == 'Edit' and a['method'] == field:
                edited |= {o for o, tk in cur_tk.items() if tk == a['o'] and o in fitted}
            elif a['a'] == 'Fit' and cur_tk.get(a['o']) is not None:
                if a['o'] in edited and fitted.get(a['o']) == a['s'] and (bk_mnc == 0 or method == 'cycles'):
                    return True
                fitted[a['o']] = a['s']
                edited.discard(a['o'])
            elif a['a'] == 'Load':
                fitted.pop(a['o'], None)
        return False
    routes = []
    for method in ('amp', 'cycles'):
        for field in ('mnc', 'lvl'):
            routes += [b for b in out if stale_route(b, method, field)][:max(2, n // 40)]
    routes = [b for k_, b in enumerate(routes) if b not in routes[:k_]]
    chosen = routes + [b for b in refit[:n // 3] + heavy[:n // 3] if b not in routes]
    # the rest: greedy balanced cover of the functions / actions - each pick maximises the sum over its distinct functions of 1/(1 + times already picked)
    rest = [b for b in out if b not in chosen]
    sets = [frozenset((a.get('f', '') or a['a']) for a in b) for b in rest]
    picked_count, broad, avail = {}, [], set(range(len(rest)))
    for b in chosen:
        for f in {(a.get('f', '') or a['a']) for a in b}:
            picked_count[f] = picked_count.get(f, 0) + 1
    cand = sorted(avail, key=lambda k: -len(sets[k]))[:max(4 * n, 400)]          # bound the quadratic part
    while len(broad) < n - len(chosen) and cand:
        best = max(cand, key=lambda k: sum(1.0 / (1 + picked_count.get(f, 0)) for f in sets[k]))
        cand.remove(best)
        broad.append(rest[best])
        for f in sets[best]:
            picked_count[f] = picked_count.get(f, 0) + 1
    return chosen + broad[:n - len(chosen)]


def _replay(b):
    """One behaviour replayed on real objects; a replay whose group call does not come back (a forked pool worker lost) is repeated once."""
    import multiprocessing
    import pool_tv
    for attempt in (0, 1):
        try:
            with pool_tv.time_limit(400):
                return session_rp.replay(b)
        except pool_tv.PoolTimeout:
            for ch in multiprocessing.active_children():
                ch.terminate()
            if attempt:
                raise


def run_rp(ctx, pid_prefixes, n, depth):
    behs = behaviours(ctx, n, depth)
    import concurrent.futures as cfut
    with cfut.ProcessPoolExecutor(max_workers=min(12, os.cpu_count() or 4)) as p:      # non-daemonic workers: group functions start their own pools
        traces = list(p.map(_replay, behs, chunksize=2))
    cfg = 'SPECIFICATION TSpec\nCONSTANTS\n  MaxDepth = 99\nINVARIANT THeapIsIntent\nCHECK_DEADLOCK FALSE\n'
    jv = 8
    per = -(-len(traces) // jv)
    batches = [traces[i:i + per] for i in range(0, len(traces), per)]
    import concurrent.futures as cf

    def one(bi):
        path = os.path.join(ctx.scratch.path, 'sess_batch%d.json' % bi)
        tlc.dump_json(path, batches[bi])
        return tlc.must(tlc.run('Trace_Session', cfg, ctx.scratch, env={'TRACE_FILE': path}, workers=1, timeout=1800), 'Trace_Session')
    with cf.ThreadPoolExecutor(max_workers=jv) as ex:
        results = list(ex.map(one, range(len(batches))))
    verdicts = []
    for bi, res in enumerate(results):
        ctx.add_tlc(res, 'Trace_Session[%d]' % bi)
        v = {p[1]: p[2] for p in res['prints'] if p[0] == 'VERDICT'}
        if len(v) != len(batches[bi]):
            raise tlc.TLCError('Trace_Session: %d verdicts for %d behaviours\n%s' % (len(v), len(batches[bi]), res['text'][-1500:]))
        verdicts.extend(list(v[j + 1]) for j in range(len(batches[bi])))
    for b, fails in zip(behs, verdicts):
        for f in dict.fromkeys(fails):
            if any(f.startswith(p) for p in pid_prefixes):
                ctx.violation(f, 'session %s' % [(a['a'], a.get('f', ''), a['o'], a['method'], a['s'], a['v']) for a in b], {'kind': 'session', 'behaviour': b})
    ext = sorted({f for fails in verdicts for f in fails if f.startswith('EXT.')})
    if ext:      # behaviour beyond the listed properties (named deviations of Session.tla): informational
        ctx.notes.append('EXTENSION-MISMATCH (informational, no listed property): %s' % ext)
    ctx.traces += len(behs)
    ctx.evaluations += len(behs)
    ctx.nontrivial += sum(1 for b in behs if any(a['a'] == 'Fit' for a in b) and any(a['a'] in ('Edit', 'Call', 'Recompute') for a in b))
    if behs:
        ctx.sample({'session': [(a['a'], a.get('f', ''), a['o'], a['method'], a['s'], a['v']) for a in behs[0]]})
    acts = {}
    for b in behs:
        for a in b:
            k = a['a'] + ('.' + a['f'] if a.get('f') else '')
            acts[k] = acts.get(k, 0) + 1
    ctx.parts.append({'part': 'replayed_sessions', 'behaviours': len(behs), 'depth': depth, 'actions_replayed': acts})


def replay_one(ctx, behaviour, pid_prefixes):
    """--replay: the recorded behaviour is replayed again on real objects and judged by Trace_Session."""
    trace = session_rp.replay(behaviour)
    cfg = 'SPECIFICATION TSpec\nCONSTANTS\n  MaxDepth = 99\nINVARIANT THeapIsIntent\nCHECK_DEADLOCK FALSE\n'
    path = os.path.join(ctx.scratch.path, 'sess_replay.json')
    tlc.dump_json(path, [trace])
    res = tlc.must(tlc.run('Trace_Session', cfg, ctx.scratch, env={'TRACE_FILE': path}, workers=1), 'Trace_Session')
    for p in res['prints']:
        if p[0] == 'VERDICT':
            for f in dict.fromkeys(p[2]):
                if any(f.startswith(x) for x in pid_prefixes):
                    ctx.violation(f, 'replayed session')
