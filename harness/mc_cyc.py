"""MC + IX runs of MC_Cyclepoints / MC_Zerox (shared by C01, C02, C03)."""
import os
import re

import ix_cyclepoints as ix
import tlc

FIRST_NAMES = {0: 'peak', 1: 'trough', 2: 'none'}
CYC_INVS = ['InvOnePerHalfWave', 'InvAlternate', 'InvBoundary', 'InvBoundaryT', 'InvForced', 'InvNothingElse',
            'InvZxInside', 'InvTableWF']


def _init_states(res):
    m = re.search(r'Finished computing initial states: (\d+) distinct state', res['text'])
    return int(m.group(1)) if m else -1


def run_cyclepoints(ctx, pid, ns, v, bs, firsts, which=('find_extrema', 'compute_cyclepoints')):
    tab, n_cases = ix.cyclepoints_table(ns, v, bs, firsts)
    path = os.path.join(ctx.scratch.path, 'impl_cyc_%d_%d.json' % (ns, v))
    tlc.dump_json(path, tab)
    cfg = tlc.cfg(constants={'NS': ns, 'V': v, 'Bs': set(bs), 'Firsts': {FIRST_NAMES[f] for f in firsts}, 'UseImpl': True},
                  invariants=CYC_INVS)
    res = tlc.must(tlc.run('MC_Cyclepoints', cfg, ctx.scratch, env={'IMPL_FILE': path}, coverage=True, timeout=3400), 'MC_Cyclepoints')
    os.remove(path)
    label = 'MC_Cyclepoints(N=%d,V=%d,B=%s,first=%s)' % (ns, v, sorted(bs), [FIRST_NAMES[f] for f in firsts])
    ctx.add_tlc(res, label)
    if _init_states(res) != n_cases:
        raise tlc.TLCError('%s: TLC initial states %d != enumerated inputs %d' % (label, _init_states(res), n_cases))
    if res['violated']:
        ctx.violation('%s.spec.%s' % (pid, res['violated']), 'invariant of the specification violated (design error): ' + res['error_trace'][:1500])
    n_dis = 0
    for d in res['prints']:
        if d[0] != 'DISAGREE' or d[2] not in which:
            continue
        n_dis += 1
        if n_dis <= 10:
            ctx.violation('%s.impl_disagrees.%s' % (pid, d[2]),
                          '%s on raw signal %s with filtered-sign pattern %s, boundary %s, first_extrema %s: specification %s, implementation %s'
                          % (d[2], d[3], [int(x) for x in d[4]], d[5], d[6], d[7], d[8:]),
                          {'kind': 'ix_cyclepoints', 'sig': d[3], 'pos': [bool(x) for x in d[4]], 'B': d[5], 'first': d[6]})
    judged = res['coverage'].get('JudgeExtrema', 0) + res['coverage'].get('JudgeRows', 0)
    ctx.traces += n_cases
    ctx.evaluations += n_cases
    ctx.nontrivial += res['coverage'].get('JudgeExtrema', 0)      # inputs with crossings on which extrema are defined
    ctx.sample({'mc_input': {'sig': [0, 1, 2, 1, 0, 1, 2][:ns], 'pos': [0, 1, 1, 0, 0, 1, 1][:ns], 'boundary': 0, 'first_extrema': 'peak'},
                'space': '[0..%d -> 0..%d] x [0..%d -> BOOLEAN] x B in %s x first in %s' % (ns - 1, v, ns - 1, sorted(bs), [FIRST_NAMES[f] for f in firsts])})
    ctx.parts[-1].update({'inputs': n_cases, 'extrema_defined': res['coverage'].get('JudgeExtrema', 0),
                          'tables_judged': res['coverage'].get('JudgeRows', 0), 'disagreements': n_dis})
    return res


def run_zerox(ctx, pid, ns, v):
    tab, n_cases = ix.zerox_table(ns, v)
    path = os.path.join(ctx.scratch.path, 'impl_zx_%d_%d.json' % (ns, v))
    tlc.dump_json(path, tab)
    cfg = tlc.cfg(constants={'NS': ns, 'V': v, 'UseImpl': True},
                  invariants=['InvZxDefined', 'InvOnePerFlank', 'InvInside', 'InvJustBefore', 'InvMedian', 'InvCentre'])
    res = tlc.must(tlc.run('MC_Zerox', cfg, ctx.scratch, env={'IMPL_FILE': path}, coverage=True, timeout=3400), 'MC_Zerox')
    os.remove(path)
    label = 'MC_Zerox(N=%d,V=%d)' % (ns, v)
    ctx.add_tlc(res, label)
    if _init_states(res) != n_cases:
        raise tlc.TLCError('%s: TLC initial states %d != enumerated inputs %d' % (label, _init_states(res), n_cases))
    if res['violated']:
        ctx.violation('%s.spec.%s' % (pid, res['violated']), 'invariant of the specification violated (design error): ' + res['error_trace'][:1500])
    n_dis = 0
    for d in res['prints']:
        if d[0] != 'DISAGREE':
            continue
        n_dis += 1
        if n_dis <= 10:
            ctx.violation('%s.impl_disagrees.find_zerox' % pid,
                          'find_zerox on signal %s, peaks %s, troughs %s: specification %s, implementation %s' % (d[3], d[4], d[5], d[6], d[7]),
                          {'kind': 'ix_zerox', 'sig': d[3], 'pk': d[4], 'tr': d[5]})
    ctx.traces += n_cases
    ctx.evaluations += n_cases
    classes = flank_class_counts(ns, v)
    ctx.nontrivial += classes['cases_with_multi_inverted_zero_or_tie']
    ctx.parts[-1].update({'flank_classes': classes})
    ctx.sample({'mc_input': {'sig': [0, 2, 1, 1, 2, 0][:ns], 'peaks': [1, 4], 'troughs': [0, 3]},
                'space': 'every signal [0..%d -> 0..%d] x every subset of >= 2 sample indices as alternating extrema x either kind first' % (ns - 1, v)})
    ctx.parts[-1].update({'inputs': n_cases, 'disagreements': n_dis})
    return res


def flank_class_counts(ns, v):
    """Statistics over MC_Zerox's input space (evidence only, no verdict): how many cases contain a flank with several crossings of the
    half-height, a tie with it, an inverted flank or an all-zero segment."""
    import itertools
    import numpy as np
    cnt = {'multi': 0, 'tie': 0, 'inverted': 0, 'zero': 0, 'cases_with_multi_inverted_zero_or_tie': 0}
    sigs = np.array(list(itertools.product(range(v + 1), repeat=ns)))[:, ::-1]
    for sm in range(1 << ns):
        idx = [j for j in range(ns) if (sm >> j) & 1]
        if len(idx) < 2:
            continue
        for pf in (0, 1):
            hit = np.zeros(len(sigs), dtype=bool)
            for k in range(len(idx) - 1):
                a, b = idx[k], idx[k + 1]
                rise = (k % 2 == 1) if pf else (k % 2 == 0)
                seg = sigs[:, a:b + 1]
                mid2 = seg[:, 0] + seg[:, -1]
                below = (2 * seg <= mid2[:, None]) if rise else (2 * seg > mid2[:, None])
                cross = (below[:, :-1] & ~below[:, 1:]).sum(axis=1)
                zero = (seg == 0).all(axis=1)
                inv = (seg[:, 0] > seg[:, -1]) if rise else (seg[:, 0] < seg[:, -1])
                tie = ((2 * seg[:, 1:-1] == mid2[:, None]).any(axis=1)) if b - a > 1 else np.zeros(len(sigs), dtype=bool)
                multi = (cross >= 2) & ~zero & ~inv
                cnt['multi'] += int(multi.sum()); cnt['tie'] += int(tie.sum()); cnt['inverted'] += int((inv & ~zero).sum()); cnt['zero'] += int(zero.sum())
                hit |= multi | tie | inv | zero
            cnt['cases_with_multi_inverted_zero_or_tie'] += int(hit.sum())
    return cnt
