"""./check <Cxx> [--tier quick|thorough] [--replay PATH]

exit 0: property held on everything explored (KNOWN-FINDING lines possible)
exit 1: VIOLATION property=<id> replay=<path>
exit 2: machinery failure (TLC error, timeout, harness bug) - never a verdict about the code
"""
import argparse
import importlib
import json
import os
import sys
import traceback

sys.path.insert(0, os.path.dirname(os.path.abspath(__file__)))

import common  # noqa: E402
import tlc     # noqa: E402


def main():
    ap = argparse.ArgumentParser()
    ap.add_argument('pid')
    ap.add_argument('--tier', default=os.environ.get('VERIF_TIER', 'quick'), choices=['quick', 'thorough'])
    ap.add_argument('--replay', default=None)
    a = ap.parse_args()
    pid = a.pid.upper()
    seed = int(os.environ.get('VERIF_SEED', '0') or 0)
    try:
        common.bind_repo()
        mod = importlib.import_module('props.' + pid.lower())
    except Exception:
        traceback.print_exc()
        print('MACHINERY-FAILURE %s: cannot load the check or the repository' % pid)
        return 2
    with tlc.Scratch() as scratch:
        ctx = common.Ctx(pid, a.tier, seed, scratch)
        try:
            if a.replay:
                case = json.load(open(a.replay))
                mod.replay(ctx, case)
            else:
                mod.run(ctx)
        except tlc.TLCError as e:
            print('MACHINERY-FAILURE %s: %s' % (pid, e))
            return 2
        except Exception:
            traceback.print_exc()
            print('MACHINERY-FAILURE %s: harness exception' % pid)
            return 2
        except BaseException as e:
            if type(e).__name__ != 'PoolTimeout':
                raise
            print('MACHINERY-FAILURE %s: a real process pool did not come back twice (%s)' % (pid, e))
            return 2
        if a.replay:
            for v in ctx.violations:
                print('  violation: %s: %s' % (v['key'], v['text'][:400]))
            print('REPLAY %s: %s' % (pid, 'VIOLATION reproduced' if ctx.violations else 'no violation'))
            return 1 if ctx.violations else 0
        return common.finish(ctx, level=getattr(mod, 'LEVEL', 'model_checking'))


if __name__ == '__main__':
    sys.exit(main())
