"""Run the TLA+ proof system on a proof module of /verif/spec (unbounded facts that TLC checks only up to a bound)."""
import os
import re
import shutil
import subprocess
import tempfile


def prove(module, scratch, timeout=900):
    """Returns (proved: bool, obligations: int, text). None when tlapm is not installed."""
    if shutil.which('tlapm') is None:
        return None
    wd = tempfile.mkdtemp(prefix='tlaps-', dir=scratch.path)
    src = os.path.join(os.path.dirname(os.path.dirname(os.path.abspath(__file__))), 'spec', module + '.tla')
    shutil.copy(src, wd)
    p = subprocess.run(['tlapm', '--cleanfp', module + '.tla'], cwd=wd, capture_output=True, text=True, timeout=timeout)
    text = p.stdout + p.stderr
    m = re.search(r'All (\d+) obligations? proved', text)
    return (bool(m), int(m.group(1)) if m else 0, text)


def run_proof(ctx, module, theorems):
    """Re-check a proof module inside a check; a failing proof is a defect of the SPECIFICATION (machinery), never a verdict about the code."""
    import tlc
    r = prove(module, ctx.scratch)
    if r is None:
        ctx.notes.append('tlapm not installed: %s not re-checked' % module)
        return
    ok, n, text = r
    ctx.parts.append({'part': 'TLAPS.' + module, 'obligations_proved': n, 'all_proved': ok, 'theorems': theorems})
    if not ok:
        raise tlc.TLCError('TLAPS could not re-check %s.tla:\n%s' % (module, text[-1500:]))
