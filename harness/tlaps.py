"""Run the TLA+ proof system on a proof module of /verif/spec (unbounded facts that TLC checks only up to a bound)."""
import os
import re
import shutil
import subprocess
import tempfile


def prove(module, scratch, timeout=900):
    """Returns (proved: bool, obligations: int, text). None when tlapm is not installed."""
    if shutil.which('tlapm') is None:
        return None
    wd = tempfile.mkdtemp(prefix='tlaps-', dir=scratch.path)
    src = os.path.join(os.path.dirname(os.path.dirname(os.path.abspath(__file__))), 'spec', module + '.tla')
    shutil.copy(src, wd)
    p = subprocess.run(['tlapm', '--cleanfp', module + '.tla'], cwd=wd, capture_output=True, text=True, timeout=timeout)
    text = p.stdout + p.stderr
    m = re.search(r'All (\d+) obligations? proved', text)
    return (bool(m), int(m.group(1)) if m else 0, text)
