"""Shared context of a check run: repository binding, results, evidence, known findings."""
import json
import os
import re
import sys
import time

VERIF = os.path.dirname(os.path.dirname(os.path.abspath(__file__)))
REPO = os.path.abspath(os.environ.get('VERIF_REPO', '/repo'))


def bind_repo():
    """Put the repository under test first on sys.path and make sure bycycle is imported from it."""
    if sys.path[0] != REPO:
        sys.path.insert(0, REPO)
    import warnings
    warnings.simplefilter('ignore')
    import bycycle
    got = os.path.dirname(os.path.dirname(os.path.abspath(bycycle.__file__)))
    if got != REPO:
        raise RuntimeError('bycycle imported from %s, expected %s' % (got, REPO))
    return bycycle


def repo_head():
    try:
        import subprocess
        return subprocess.run(['git', '-C', REPO, 'rev-parse', '--short', 'HEAD'], capture_output=True,
                              text=True).stdout.strip()
    except Exception:
        return '?'


class Ctx:
    """Accumulates what one check run explored and found."""

    def __init__(self, pid, tier, seed, scratch):
        self.pid, self.tier, self.seed, self.scratch = pid, tier, seed, scratch
        self.t0 = time.time()
        self.violations = []          # dicts: key, text, case
        self.states = 0
        self.transitions = 0
        self.traces = 0               # traces / behaviours / indexed cases validated against the implementation
        self.evaluations = 0
        self.nontrivial = 0
        self.samples = []
        self.parts = []               # per sub-check summaries (for the evidence file)
        self.coverage_actions = {}
        self.exhaustive = None
        self.rule = ''
        self.assumptions = []
        self.notes = []

    @property
    def quick(self):
        return self.tier == 'quick'

    def log(self, *a):
        print('[%s %6.1fs]' % (self.pid, time.time() - self.t0), *a, flush=True)

    def add_tlc(self, res, label):
        self.states += res.get('states', 0)
        self.transitions += res.get('generated', 0)
        for k, v in res.get('coverage', {}).items():
            self.coverage_actions[label + '.' + k] = self.coverage_actions.get(label + '.' + k, 0) + v
        self.parts.append({'part': label, 'tlc_states': res.get('states', 0), 'tlc_generated': res.get('generated', 0),
                           'tlc_depth': res.get('depth', 0), 'wall_s': round(res.get('wall_s', 0), 1)})

    def violation(self, key, text, case=None):
        """key: stable identification of WHAT fails (clause + call site / input class), used to match known findings."""
        self.violations.append({'key': key, 'text': text, 'case': case})

    def sample(self, s, limit=6):
        if len(self.samples) < limit:
            self.samples.append(s)


def load_known():
    p = os.path.join(VERIF, 'known_findings.json')
    if not os.path.exists(p):
        return []
    return json.load(open(p)).get('findings', [])


def finish(ctx, level='model_checking', extra_cov=None):
    """Write the evidence file, print VIOLATION / KNOWN-FINDING lines, return the exit code."""
    known = [k for k in load_known() if k.get('property') == ctx.pid and k.get('status') == 'open']
    unknown, seen_known = [], {}
    for v in ctx.violations:
        hit = None
        for k in known:
            if re.fullmatch(k['key_regex'], v['key']):
                hit = k
                break
        if hit:
            seen_known.setdefault(hit['id'], (hit, v))
        else:
            unknown.append(v)
    outdir = os.path.join(os.environ.get('VERIF_OUT_DIR', os.path.join(VERIF, 'out')), 'violations', ctx.pid)
    lines = []
    for hit, v in seen_known.values():
        lines.append('KNOWN-FINDING: property=%s %s (%s)' % (ctx.pid, hit['text'], v['key']))
    shown = {}
    for v in unknown:
        if v['key'] in shown:
            continue
        os.makedirs(outdir, exist_ok=True)
        path = os.path.join(outdir, re.sub(r'[^A-Za-z0-9_.-]+', '_', v['key'])[:120] + '.json')
        with open(path, 'w') as fh:
            json.dump({'property': ctx.pid, 'key': v['key'], 'text': v['text'], 'case': v['case'],
                       'seed': ctx.seed, 'tier': ctx.tier, 'repo': REPO, 'repo_head': repo_head()}, fh, indent=1, default=str)
        shown[v['key']] = path
        print('  violation: %s: %s' % (v['key'], v['text'][:400]))
        lines.append('VIOLATION property=%s replay=%s' % (ctx.pid, path))
        if len(shown) >= 10:
            break
    cov = {
        'states': int(ctx.states), 'transitions': int(ctx.transitions),
        'traces_validated_against_impl': int(ctx.traces),
        'evaluations': int(ctx.evaluations), 'distinct_nontrivial': int(ctx.nontrivial),
        'rule': ctx.rule, 'samples': ctx.samples[:8] or ['(none)'],
        'parts': ctx.parts, 'tlc_action_coverage': ctx.coverage_actions,
        'repo_head': repo_head(), 'notes': ctx.notes,
    }
    if ctx.exhaustive is not None:
        cov['exhaustive'] = bool(ctx.exhaustive)
    cov.update(extra_cov or {})
    ev = {'property_id': ctx.pid, 'tier': ctx.tier, 'seed': int(ctx.seed), 'level': level, 'coverage': cov,
          'assumptions': ctx.assumptions, 'wall_s': round(time.time() - ctx.t0, 2),
          'violations': len(unknown), 'known_findings_seen': sorted(seen_known)}
    evdir = os.environ.get('VERIF_EVIDENCE_DIR', os.path.join(VERIF, 'evidence'))
    os.makedirs(evdir, exist_ok=True)
    with open(os.path.join(evdir, ctx.pid + '.json'), 'w') as fh:
        json.dump(ev, fh, indent=1, default=str)
    for l in lines:
        print(l)
    print('[%s] %s tier=%s seed=%d states=%d transitions=%d traces_vs_impl=%d evaluations=%d nontrivial=%d wall=%.1fs'
          % (ctx.pid, 'FAIL' if unknown else 'PASS', ctx.tier, ctx.seed, ctx.states, ctx.transitions, ctx.traces,
             ctx.evaluations, ctx.nontrivial, time.time() - ctx.t0))
    return 1 if unknown else 0
