"""Replay of TLC-generated Session behaviours on REAL Bycycle objects and real shared dictionaries (C14, C15)."""
import copy
import warnings

import numpy as np

import pool_tv as pt
import tables_tv as tt

FS, FR = 128, (8, 12)
CYC = {1: {'amp_fraction_threshold': .1, 'amp_consistency_threshold': .3, 'period_consistency_threshold': .3, 'monotonicity_threshold': .5},
       2: {'amp_fraction_threshold': .2, 'amp_consistency_threshold': .5, 'period_consistency_threshold': .5, 'monotonicity_threshold': .7}}
AMP = {1: {'burst_fraction_threshold': .4}, 2: {'burst_fraction_threshold': .8}}


def signals():
    """Two bursty signals whose labels are sensitive to min_n_cycles (bursts of two to five cycles) under both methods."""
    rng = np.random.default_rng(5)
    out = {}
    for s in (1, 2):
        n = 5 * FS
        t = np.arange(n) / FS
        env = np.zeros(n)
        start = 0.3
        for dur in ([0.22, 0.33, 0.55, 0.27, 0.42] if s == 1 else [0.31, 0.24, 0.48, 0.36, 0.21]):
            env[(t >= start) & (t < start + dur)] = 1.0
            start += dur + 0.45
        x = env * np.sin(2 * np.pi * (9.5 + s) * t + s) + 0.12 * np.sin(2 * np.pi * 10.3 * t) + 0.08 * rng.standard_normal(n)
        out[s] = np.round(x * 512) / 512
    return out


def fresh_dicts():
    return {1: dict(CYC[1], min_n_cycles=2), 2: {'amp_threshes': (1, 2), 'fs': FS, 'f_range': FR}, 3: dict(AMP[1], min_n_cycles=2),
            4: {'filter_kwargs': {'n_cycles': 4}, 'boundary': 2}, 5: dict(CYC[1], min_n_cycles=2), 6: dict(AMP[1], min_n_cycles=2)}


def _norm(d):
    """threshold names modulo the documented shorthand expansion ('monotonicity' == 'monotonicity_threshold')"""
    return {(k if k.endswith('_threshold') or k == 'min_n_cycles' else k + '_threshold'): v for k, v in d.items()}


# the find_extrema options the user shares between objects and calls (dictionary 4): filter length in cycles, in SECONDS, no filter options at
# all (only a boundary), no padding - chosen per session; never edited, must never change
FE_VARIANTS = [{'filter_kwargs': {'n_cycles': 4}, 'boundary': 2}, {'filter_kwargs': {'n_seconds': 0.625}, 'boundary': 2}, {'boundary': 2},
               {'pad': False, 'filter_kwargs': {'n_cycles': 3}}]


# the burst options the user shares (dictionary 2): the plain ones, or with a nested filter dictionary and a minimum burst duration
BK_VARIANTS = [{'amp_threshes': (1, 2), 'fs': FS, 'f_range': FR},
               {'amp_threshes': (1, 2), 'fs': FS, 'f_range': FR, 'filter_kwargs': {'n_cycles': 4}, 'min_burst_duration': 0.25},
               {}]          # ... or an EMPTY dictionary object (every burst option at its default): it must stay empty


def snap_heap(D, fe_literal=FE_VARIANTS[0], bk_literal=BK_VARIANTS[0]):
    out = []
    for r in (1, 2, 3, 4, 5, 6):
        d = D[r]
        mnc = d.get('min_n_cycles', 0)
        if r == 4:
            out.append({'mnc': 0, 'lvl': 1 if d == fe_literal else 9})
            continue
        if r == 2:
            lvl = 1
            body = {k: (tuple(v) if k == 'f_range' else v) for k, v in d.items() if k != 'min_n_cycles'}
            junk = 0 if body == bk_literal else 1          # nested dictionaries included: nothing but min_n_cycles (Edit events) may ever change
        else:
            fam = CYC if r in (1, 5) else AMP
            body = {k: v for k, v in _norm(d).items() if k != 'min_n_cycles'}
            lvl = 1 if body == fam[1] else 2 if body == fam[2] else 9
            junk = 0
        out.append({'mnc': int(mnc) if isinstance(mnc, (int, np.integer)) else 99, 'lvl': lvl if not junk else 9})
    return out


def arg_fp(sig, dicts, table):
    return [tt.col_fp(np.asarray(sig).ravel()), [sorted((k, str(v)) for k, v in d.items()) for d in dicts], pt.table_fp(table) if table is not None else 0]


def _peek(b):
    """The user looks at the object's columns through attribute access (before an operation): whatever is handed out must not go stale."""
    try:
        if b.df_features is not None:
            b.is_burst, b.period
    except Exception:
        pass


def _attr_ok(b):
    """...and after it: attribute access returns the columns of the table the object holds NOW."""
    if b.df_features is None:
        return True
    try:
        return bool(np.array_equal(b.is_burst, b.df_features['is_burst'].values) and np.array_equal(b.period, b.df_features['period'].values))
    except Exception:
        return False


def replay(behaviour, shorthand=None):
    """behaviour: list of action records from TLC. Returns the list of events for Trace_Session.
    shorthand: the user writes threshold names without the '_threshold' suffix (the constructor expands them in place, as documented);
    chosen from the behaviour itself when None."""
    if shorthand is None:
        shorthand = (len(behaviour) + sum(a['s'] for a in behaviour)) % 3 == 0 and any(a['a'] == 'New' for a in behaviour)
    import matplotlib
    matplotlib.use('Agg')
    import matplotlib.pyplot as plt
    from bycycle import Bycycle
    from bycycle.features import compute_features, compute_shape_features, compute_burst_features
    from bycycle.burst.utils import recompute_edges
    from bycycle.utils import limit_df, epoch_df, drop_samples_df
    from bycycle.plts import (plot_burst_detect_summary, plot_cyclepoints_df, plot_cyclepoints_array, plot_burst_detect_param,
                              plot_feature_hist, plot_feature_categorical)
    from bycycle.group import compute_features_2d, compute_features_3d
    import pandas as pd
    SIG = signals()
    default_fe = sum(a['o'] + a['s'] for a in behaviour) % 2 == 1      # objects built with the library's default extrema options (None)
    D = fresh_dicts()                    # the user's dictionaries (identity persists through the session)
    fe_literal = FE_VARIANTS[sum(3 * a['o'] + a['s'] + a['v'] + len(a.get('f', '')) for a in behaviour) % 4]
    D[4] = copy.deepcopy(fe_literal)
    bk_literal = BK_VARIANTS[sum(a['o'] + 2 * a['s'] + len(a.get('f', '')) for a in behaviour) % 3]
    D[2] = copy.deepcopy(bk_literal)
    if shorthand:
        for r in (1, 3, 5, 6):
            D[r] = {k.replace('_threshold', ''): v for k, v in D[r].items()}
    intent = {r: (_norm(d) if r in (1, 3, 5, 6) else copy.deepcopy(d)) for r, d in D.items()}   # what the user wrote, in full names (only Edit events touch it)
    not_expanded = False
    if shorthand:
        # the user first builds objects from the shorthand dictionaries: the constructor expands the names IN PLACE (documented); from then
        # on the same dictionaries are valid arguments of the functional API as well
        with warnings.catch_warnings():
            warnings.simplefilter('ignore')
            for r in (1, 5):
                Bycycle(burst_method='cycles', thresholds=D[r])
            for r in (3, 6):
                Bycycle(burst_method='amp', thresholds=D[r], burst_kwargs=D[2])
        not_expanded = any(not k.endswith('_threshold') and k != 'min_n_cycles' for r in (1, 3, 5, 6) for k in D[r])
    objs = {}
    with warnings.catch_warnings():
        warnings.simplefilter('ignore')
        TAB = {(s, m): compute_features(SIG[s].copy(), FS, FR, burst_method=m, threshold_kwargs=dict(CYC[1]) if m == 'cycles' else dict(AMP[1]),
                                        burst_kwargs={'amp_threshes': (1, 2)} if m == 'amp' else None) for s in (1, 2) for m in ('cycles', 'amp')}
        SHP = {s: compute_shape_features(SIG[s].copy(), FS, FR) for s in (1, 2)}
        LOAD = {s: compute_features(SIG[s].copy(), FS, FR, threshold_kwargs={'min_n_cycles': 2}) for s in (1, 2)}
        rngn = np.random.default_rng(11)
        NOISY = {s: np.round((0.06 * SIG[s] + 4.0 * np.sin(2 * np.pi * 0.4 * np.arange(len(SIG[s])) / FS) + 0.01 * rngn.standard_normal(len(SIG[s]))) * 512) / 512 for s in (1, 2)}
        SHPN = {s: compute_shape_features(NOISY[s].copy(), FS, FR) for s in (1, 2)}        # small rhythm on a large slow wave: inverted flanks (negative volt_rise / volt_decay) occur
        NOB = {s: compute_features(SIG[s].copy(), FS, FR, threshold_kwargs={'amp_fraction_threshold': 1.0, 'min_n_cycles': 3}) for s in (1, 2)}   # no burst at all
        import project as pj
        # the user's tables carry their own row labels (a window of a longer table, a late row dropped): labels are the user's too
        SHP = {s: pj.relabel(t, s) for s, t in SHP.items()}
        SHPN = {s: pj.relabel(t, s + 1) for s, t in SHPN.items()}
        NOB = {s: pj.relabel(t, s) for s, t in NOB.items()}
        TAB = {k: pj.relabel(t, k[0] + (k[1] == 'amp')) for k, t in TAB.items()}
        ARRS = {k: [np.array(t[c].values) for c in ('sample_peak', 'sample_last_trough', 'sample_zerox_rise', 'sample_zerox_decay')] for k, t in TAB.items()}
    # persistent per-signal option lists for the group functions: the OUTER dictionaries and the list are the user's objects too
    centre = {}
    OUTER = {m: [{'burst_method': m, 'threshold_kwargs': D[1 if m == 'cycles' else 3], 'burst_kwargs': D[2], 'center_extrema': 'peak'} for _ in range(2)] for m in ('cycles', 'amp')}
    SIGS2 = np.array([SIG[1], SIG[2]])
    SIGS3 = np.array([[SIG[1], SIG[2]], [SIG[2], SIG[1]]])
    events = []
    for a in behaviour:
        ev = {'a': a['a'], 'o': a['o'], 'method': a['method'], 'tk': a['tk'], 's': a['s'], 'v': a['v'], 'f': a.get('f', ''), 'raised': '',
              'df_fp': 0, 'fresh_fp': 0, 'reduced_ok': True, 'attr_ok': True, 'before_fp': 0, 'fresh_raised': '', 'attr_col': '', 'attr_missing': '', 'pre': [], 'post': [], 'result_fp': 0, 'again_fp': -1}
        with warnings.catch_warnings():
            warnings.simplefilter('ignore')
            try:
                if a['a'] == 'New':
                    if not_expanded:
                        not_expanded = False
                        raise RuntimeError('shorthand threshold names were not expanded by the constructor')
                    objs[a['o']] = Bycycle(center_extrema='peak', burst_method=a['method'], burst_kwargs=D[2], thresholds=D[a['tk']], find_extrema_kwargs=None if default_fe else D[4])
                    centre[a['o']] = 'peak'
                elif a['a'] == 'Fit':
                    b = objs[a['o']]
                    _peek(b)
                    b.fit(SIG[a['s']], FS, FR)
                    ev['attr_ok'] = _attr_ok(b)
                    ev['df_fp'] = pt.table_fp(b.df_features)
                    ev['fresh_fp'] = pt.table_fp(compute_features(SIG[a['s']].copy(), FS, FR, center_extrema=centre[a['o']], burst_method=a['method'],
                                                                  burst_kwargs=copy.deepcopy(intent[2]), threshold_kwargs=copy.deepcopy(intent[a['tk']]),
                                                                  find_extrema_kwargs=None if default_fe else copy.deepcopy(intent[4])))
                elif a['a'] == 'Recompute':
                    b = objs[a['o']]
                    before = b.df_features.copy()
                    red = 0.1 if a['v'] else None
                    _peek(b)
                    b.recompute_edges(red)
                    ev['attr_ok'] = _attr_ok(b)
                    ev['df_fp'] = pt.table_fp(b.df_features)
                    want = {k: (v - (red or 0) if k.endswith('threshold') else v) for k, v in b.thresholds.items()}
                    ev['reduced_ok'] = bool(b.reduce_thresholds(red) == want and b.reduce_thresholds(0.205) == {k: (v - 0.205 if k.endswith('threshold') else v) for k, v in b.thresholds.items()})
                    # the same settings written as numpy scalars (single precision where that is exact, numpy integers): still lowered by r
                    npthr = {k: (np.float32(0.5) if k.endswith('threshold') else np.int64(v)) for k, v in b.thresholds.items()}
                    twin = Bycycle(burst_method=a['method'], thresholds=dict(npthr), burst_kwargs=D[2])
                    ev['reduced_ok'] = ev['reduced_ok'] and bool(twin.reduce_thresholds(0.125) == {k: (v - 0.125 if k.endswith('threshold') else v) for k, v in npthr.items()})
                    thr = {k: (v - (red or 0) if k.endswith('_threshold') else v) for k, v in intent[a['tk']].items()}
                    ev['fresh_fp'] = pt.table_fp(recompute_edges(before, thr))
                elif a['a'] == 'RecomputeRaises':
                    b = objs[a['o']]
                    before = None if b.df_features is None else b.df_features.copy()
                    ev['before_fp'] = 0 if before is None else pt.table_fp(before)
                    ev['fresh_raised'] = ''
                    try:
                        recompute_edges(None if before is None else before.copy(), copy.deepcopy(intent[a['tk']]))
                    except Exception as ex:
                        ev['fresh_raised'] = type(ex).__name__
                    try:
                        b.recompute_edges()
                    except Exception as ex:
                        ev['raised'] = type(ex).__name__
                    ev['df_fp'] = 0 if b.df_features is None else pt.table_fp(b.df_features)
                elif a['a'] == 'Load':
                    b = objs[a['o']]
                    df = LOAD[a['s']].copy()
                    _peek(b)
                    b.load(df, SIG[a['s']], FS, FR)
                    ev['attr_ok'] = _attr_ok(b)
                    ev['df_fp'] = pt.table_fp(b.df_features)
                    ev['fresh_fp'] = pt.table_fp(LOAD[a['s']])
                elif a['a'] == 'SetCentre':
                    objs[a['o']].center_extrema = a['method']
                    centre[a['o']] = a['method']
                elif a['a'] == 'Rebind':
                    objs[a['o']].thresholds = D[a['tk']]
                elif a['a'] == 'Edit':
                    r, field, val = a['o'], a['method'], a['v']
                    for d in (D[r], intent[r]):
                        if field == 'mnc':
                            if val == 0:
                                d.pop('min_n_cycles', None)
                            else:
                                d['min_n_cycles'] = val
                        else:
                            short = any(not k.endswith('_threshold') and k != 'min_n_cycles' for k in d) and d is not intent[r]
                            new = copy.deepcopy((CYC if r in (1, 5) else AMP)[val])
                            d.update({k.replace('_threshold', ''): v for k, v in new.items()} if short else new)
                elif a['a'] == 'GetAttr':
                    b = objs[a['o']]
                    try:
                        v, lab = b.period, b.is_burst
                        ev['attr_col'] = 'column' if (b.df_features is not None and np.array_equal(v, b.df_features['period'].values)
                                                      and np.array_equal(lab, b.df_features['is_burst'].values)) else 'mismatch'
                    except AttributeError:
                        ev['attr_col'] = 'AttributeError'
                    try:
                        b.not_a_column
                        ev['attr_missing'] = 'value'
                    except AttributeError:
                        ev['attr_missing'] = 'AttributeError'
                else:
                    f, m, tk, s = a['f'], a['method'], a['tk'], a['s']
                    sig = SIG[s]
                    tab = TAB[(s, m)] if f in ('recompute_edges', 'limit_df', 'epoch_df', 'drop_samples_df', 'plot') or f.startswith('plot_') else (SHP[s] if f == 'compute_burst_features' else None)
                    if f == 'recompute_edges_no_burst':
                        tab = NOB[s]
                    elif f == 'limit_df_keeping_all_cycles':
                        tab = TAB[(s, m)]
                    elif f == 'compute_burst_features_inverted_flanks':
                        tab, sig = SHPN[s], NOISY[s]
                    dicts = [D[tk], D[2], D[4], D[4].get('filter_kwargs', {})] + (OUTER[m] if f.startswith('compute_features_2d') or f == 'compute_features_3d' else [])
                    if f.startswith('compute_features_2d'):
                        sig = SIGS2
                    elif f == 'compute_features_3d':
                        sig = SIGS3
                    extra = (lambda: [tt.col_fp(np.concatenate(ARRS[(s, m)]).astype(float))]) if f == 'plot_cyclepoints_array' else (lambda: [])
                    ev['pre'] = arg_fp(sig, dicts, tab) + extra()
                    def do_call():
                        if f == 'compute_features':
                            res = compute_features(sig, FS, FR, burst_method=m, burst_kwargs=D[2], threshold_kwargs=D[tk], find_extrema_kwargs=D[4])
                        elif f == 'compute_shape_features':
                            res = compute_shape_features(sig, FS, FR, find_extrema_kwargs=D[4])
                        elif f == 'compute_shape_features_n_cycles_5':
                            res = compute_shape_features(sig, FS, FR, n_cycles=5)                    # library defaults for the extrema options
                        elif f == 'compute_features_default_options':
                            res = compute_features(sig, FS, FR, burst_method=m, burst_kwargs=D[2], threshold_kwargs=D[tk])
                        elif f in ('compute_burst_features', 'compute_burst_features_inverted_flanks'):
                            res = compute_burst_features(tab, sig, burst_method=m, burst_kwargs=D[2] if D[2] or m == 'cycles' else {'fs': FS, 'f_range': FR})
                        elif f == 'limit_df_keeping_all_cycles':
                            res = limit_df(tab, FS, start=1.0 / FS, stop=None)
                        elif f in ('recompute_edges', 'recompute_edges_no_burst'):
                            res = recompute_edges(tab, D[tk])
                        elif f == 'compute_features_2d':
                            res = pd.concat(compute_features_2d(sig, FS, FR, compute_features_kwargs=OUTER[m], axis=0, n_jobs=1))
                        elif f == 'compute_features_2d_epochs':
                            res = pd.concat(compute_features_2d(sig, FS, FR, compute_features_kwargs=OUTER[m], axis=None, n_jobs=1))
                        elif f == 'compute_features_3d':
                            res = pd.concat([d for row in compute_features_3d(sig, FS, FR, compute_features_kwargs=OUTER[m][0], axis=(0, 1), n_jobs=1) for d in row])
                        elif f == 'limit_df':
                            res = limit_df(tab, FS, start=0.25, stop=2.0)
                        elif f == 'epoch_df':
                            res = epoch_df(tab, len(sig), FS)[1]
                        elif f == 'drop_samples_df':
                            res = drop_samples_df(tab)
                        elif f.startswith('plot_'):
                            # the other plotting functions: purity only (what they draw is C20); the cyclepoint arrays are the user's objects too
                            try:
                                if f == 'plot_cyclepoints_df':
                                    plot_cyclepoints_df(tab, sig, FS, xlim=(0.5, 2.0))
                                elif f == 'plot_cyclepoints_array':
                                    arrs = ARRS[(s, m)]
                                    plot_cyclepoints_array(sig, FS, peaks=arrs[0], troughs=arrs[1], rises=arrs[2], decays=arrs[3], xlim=(0.5, 2.0))
                                elif f == 'plot_burst_detect_param':
                                    if s == 2:
                                        plot_burst_detect_param(tab, sig, FS, 'period_consistency' if m == 'cycles' else 'burst_fraction', 0.5, interp=False)
                                    else:
                                        plot_burst_detect_param(tab, sig, FS, 'period_consistency' if m == 'cycles' else 'burst_fraction', 0.5, xlim=(0.5, 2.0))
                                elif f == 'plot_feature_hist':
                                    plot_feature_hist(tab, 'period', only_bursts=bool(s == 1), xlim=(0, 200))
                                else:
                                    plot_feature_categorical(tab, 'time_rdsym', group_by='is_burst')
                            finally:
                                plt.close('all')
                            res = None
                        else:
                            try:
                                plot_burst_detect_summary(tab, sig, FS, D[tk])
                            finally:
                                plt.close('all')
                            res = None
                        return res

                    res = do_call()
                    if f.startswith('compute_') and not f.startswith('compute_features_2d') and f != 'compute_features_3d':
                        # the user meanwhile analyses the SAME signal with other settings (another filter length for the band amplitude, other
                        # units); the call is then repeated with the same argument objects: it must return the identical table
                        one_d = SIG[s]
                        compute_shape_features(one_d, FS, FR, n_cycles=7)
                        compute_features(one_d, 2 * FS, (2 * FR[0], 2 * FR[1]), burst_method='amp', burst_kwargs={'amp_threshes': (0.5, 1.5)}, threshold_kwargs={'burst_fraction_threshold': 0.9})
                        again = do_call()
                        ev['again_fp'] = pt.table_fp(again) if again is not None else 1
                    ev['post'] = arg_fp(sig, dicts, tab) + extra()
                    ev['result_fp'] = pt.table_fp(res) if res is not None else 1
            except Exception as ex:
                ev['raised'] = type(ex).__name__ + ':' + str(ex)[:70]
        ev['heap'] = snap_heap(D, fe_literal, bk_literal)
        events.append(ev)
    return events
