"""Defect D19 (C04, also C03 / C05 / C09 / C10): integer-typed recordings (raw converter counts: int16 reaching the rails, uint8) are analysed
with the sample type's own arithmetic: volt_rise / volt_decay = sig[peak] - sig[trough] overflow or wrap, the half-height level
(sig[a] + sig[b]) / 2 of the flank midpoints overflows, np.diff wraps on unsigned counts (monotonicity) and the negation used for
trough-centred analyses wraps.  The same sample values as float64 give another table."""
import sys, warnings; warnings.simplefilter('ignore')
sys.path.insert(0, sys.argv[1] if len(sys.argv) > 1 else '/repo')
import numpy as np
from bycycle.features import compute_features
rng = np.random.default_rng(0)
t = np.arange(3000) / 500
x = np.sin(2 * np.pi * 10 * t) + 0.3 * rng.standard_normal(3000)
bad = []
for name, counts, dt in (('int16', np.round(x / np.abs(x).max() * 30000), np.int16),
                         ('uint8', np.round((x - x.min()) / (x.max() - x.min()) * 255), np.uint8)):
    for centre in ('peak', 'trough'):
        ref = compute_features(counts.astype(float), 500, (8, 12), center_extrema=centre)
        try:
            got = compute_features(counts.astype(dt), 500, (8, 12), center_extrema=centre)
            same = len(got) == len(ref) and all(np.array_equal(got[c].values.astype(float), ref[c].values.astype(float), equal_nan=True) for c in ref.columns)
        except Exception as ex:
            same = False
        if not same:
            bad.append((name, centre))
print('DEFECT the same sample values analysed differently as %s' % bad if bad else 'OK'); sys.exit(1 if bad else 0)
