"""Defect D29 (C19): compute_features_3d / BycycleGroup.fit with the axis given as a numpy integer (np.int64(0), e.g. `for ax in np.arange(2)`)
raise ValueError ("truth value of an array is ambiguous", from `axis == (0, 1)`) instead of analysing the documented valid combination."""
import sys, warnings; warnings.simplefilter('ignore')
sys.path.insert(0, sys.argv[1] if len(sys.argv) > 1 else '/repo'); sys.path.insert(0, __file__.rsplit('/', 1)[0])
import numpy as np
from _sig import sig
from bycycle.group import compute_features_3d
sigs = sig(n=4000).reshape(2, 2, 1000)
bad = []
for ax in np.arange(2):
    try:
        got = compute_features_3d(sigs, 500, (8, 12), axis=ax, n_jobs=1)
        ref = compute_features_3d(sigs, 500, (8, 12), axis=int(ax), n_jobs=1)
        if [len(d) for r in got for d in r] != [len(d) for r in ref for d in r]:
            bad.append((int(ax), 'differs'))
    except Exception as ex:
        bad.append((int(ax), repr(ex)[:60]))
print('DEFECT %s' % bad if bad else 'OK'); sys.exit(1 if bad else 0)
