"""Defect 8 (C17): extrema_interpolated_phase masks the tail wrongly: all / all-but-one NaN when the last
cyclepoint is on one of the last two samples, and one finite sample past a non-trough last cyclepoint."""
import sys, warnings; warnings.simplefilter('ignore')
sys.path.insert(0, sys.argv[1] if len(sys.argv) > 1 else '/repo')
import numpy as np
from bycycle.cyclepoints import extrema_interpolated_phase
bad = []
def finite_span(n, pk, tr):
    pha = extrema_interpolated_phase(np.zeros(n), np.array(pk), np.array(tr))
    f = np.flatnonzero(np.isfinite(pha)); return (int(f[0]), int(f[-1])) if len(f) else None
for n, pk, tr in ((12, [2, 8], [5, 11]), (12, [2, 8], [5, 10]), (12, [5, 11], [2, 8]), (12, [5, 10], [2, 8]), (12, [5, 9], [2, 7])):
    want = (min(pk + tr), max(pk + tr)); got = finite_span(n, pk, tr)
    if got != want: bad.append(dict(n=n, peaks=pk, troughs=tr, finite_span=got, expected=want))
for b in bad: print('DEFECT', b)
print('OK' if not bad else ''); sys.exit(1 if bad else 0)
