"""Defect 4 (C16): recompute_edge's chained assignment is lost under pandas copy-on-write, so the
cycles just outside a burst keep their two-sided consistency and recompute_edges never grows a burst."""
import sys, warnings; warnings.simplefilter('ignore')
sys.path.insert(0, sys.argv[1] if len(sys.argv) > 1 else '/repo')
import numpy as np, pandas as pd
from bycycle.burst.utils import recompute_edge
from bycycle.features.burst import compute_amp_consistency
df = pd.DataFrame({'volt_rise': [4., 4., 1., 4., 4.], 'volt_decay': [4., 4., 4., 4., 4.], 'period': [10, 10, 10, 10, 10],
                   'sample_peak': [5, 15, 25, 35, 45]})
df['amp_consistency'] = compute_amp_consistency(df); df['period_consistency'] = 1.
before = df['amp_consistency'].values.copy()
out = recompute_edge(df.copy(), 1, 'last')     # cycle 1 looking only backward: rise1/decay1 = 1 and rise1/decay0 = 1 -> 1.0 (two-sided: 0.25)
print('before', before, 'after', out['amp_consistency'].values)
ok = out['amp_consistency'].values[1] == 1.0
print('OK' if ok else 'DEFECT recompute_edge left amp_consistency[1] = %r (one-sided value is 1.0)' % out['amp_consistency'].values[1])
sys.exit(0 if ok else 1)
