"""Defect 14 (C20): plot_burst_detect_summary / plot_burst_detect_param raise IndexError when x-limits are given and a cycle's closing
extremum is exactly the stop sample, or (param, step / shading) whenever the window does not start at 0 (relative indices compared
with the absolute stop sample)."""
import sys, warnings; warnings.simplefilter('ignore')
sys.path.insert(0, sys.argv[1] if len(sys.argv) > 1 else '/repo')
sys.path.insert(0, __file__.rsplit('/', 1)[0])
import numpy as np, matplotlib; matplotlib.use('Agg'); import matplotlib.pyplot as plt
from _sig import sig
from bycycle.features import compute_features
from bycycle.plts import plot_burst_detect_summary, plot_burst_detect_param
fs = 512; x = sig(n=2048, fs=fs); th = {'amp_fraction_threshold': .2, 'amp_consistency_threshold': .4, 'period_consistency_threshold': .4, 'monotonicity_threshold': .6}
df = compute_features(x, fs, (8, 12), threshold_kwargs=dict(th, min_n_cycles=2))
la, nx = df['sample_last_trough'].values, df['sample_next_trough'].values
bad = []
for name, xlim, f in (('summary, stop on a closing extremum', (la[3] / fs, nx[8] / fs), lambda xl: plot_burst_detect_summary(df, x, fs, th, xlim=xl)),
                      ('param (step), window not from 0', ((la[5] - 7) / fs, (nx[12] + 9) / fs), lambda xl: plot_burst_detect_param(df, x, fs, 'monotonicity', .6, xlim=xl, interp=False)),
                      ('param (interp), stop on a closing extremum', (la[3] / fs, nx[8] / fs), lambda xl: plot_burst_detect_param(df, x, fs, 'monotonicity', .6, xlim=xl))):
    try: f(xlim)
    except Exception as e: bad.append((name, type(e).__name__, str(e)[:50]))
    plt.close('all')
for b in bad: print('DEFECT', b)
print('OK' if not bad else ''); sys.exit(1 if bad else 0)
