"""Defect 16 (C20): the plotting functions build their time vector with np.arange(0, n/fs, 1/fs), which for some (n, fs) has n+1 elements
(float rounding of the stop value), so plots with x-limits raise IndexError (boolean index mismatch) and plots without raise ValueError."""
import sys, warnings; warnings.simplefilter('ignore')
sys.path.insert(0, sys.argv[1] if len(sys.argv) > 1 else '/repo')
import numpy as np, matplotlib; matplotlib.use('Agg'); import matplotlib.pyplot as plt
from bycycle.plts import plot_cyclepoints_array
bad = []
for n, fs in ((190, 187.5), (103, 100), (49, 1000)):
    if len(np.arange(0, n / fs, 1 / fs)) == n:
        continue
    sig = np.sin(np.arange(n) * 0.4)
    for xlim in (None, (0.1, 0.4)):
        try: plot_cyclepoints_array(sig, fs, peaks=np.array([20, 40]), troughs=np.array([30]), xlim=xlim)
        except Exception as e: bad.append((n, fs, xlim, type(e).__name__))
        plt.close('all')
print('DEFECT %s' % bad if bad else 'OK'); sys.exit(1 if bad else 0)
