"""Defect D23 (C08): check_min_burst_cycles on a READ-ONLY boolean array (what df['is_burst'].values is under pandas copy-on-write, a
memory-mapped file) raises ValueError as soon as one run is shorter than min_n_cycles, instead of returning the filtered array."""
import sys, warnings; warnings.simplefilter('ignore')
sys.path.insert(0, sys.argv[1] if len(sys.argv) > 1 else '/repo')
import numpy as np
from bycycle.burst.utils import check_min_burst_cycles
a = np.array([True, False, True, True, False, True, True, True]); a.setflags(write=False)
want = np.array([False, False, False, False, False, True, True, True])
try:
    got = check_min_burst_cycles(a, min_n_cycles=3)
    bad = [] if np.array_equal(got, want) else ['wrong result %s' % got]
except Exception as ex:
    bad = [repr(ex)]
print('DEFECT %s' % bad if bad else 'OK'); sys.exit(1 if bad else 0)
