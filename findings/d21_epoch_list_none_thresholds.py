"""Defect D21 (C13): compute_features_2d(axis=None) with a per-epoch option list in which an entry writes the documented default
threshold_kwargs=None: TypeError (** of None) instead of re-labelling that epoch with the default thresholds."""
import sys, warnings; warnings.simplefilter('ignore')
sys.path.insert(0, sys.argv[1] if len(sys.argv) > 1 else '/repo')
sys.path.insert(0, __file__.rsplit('/', 1)[0])
import numpy as np
from _sig import sig
from bycycle.group import compute_features_2d
sigs = sig(n=4000, fs=500, f=10).reshape(4, 1000)
ref = compute_features_2d(sigs, 500, (8, 12), compute_features_kwargs=[{} for _ in range(4)], axis=None)
try:
    got = compute_features_2d(sigs, 500, (8, 12), compute_features_kwargs=[{'threshold_kwargs': None} for _ in range(4)], axis=None)
    bad = [e for e in range(4) if not np.array_equal(got[e]['is_burst'].values, ref[e]['is_burst'].values)]
except Exception as ex:
    bad = [repr(ex)[:80]]
print('DEFECT %s' % bad if bad else 'OK'); sys.exit(1 if bad else 0)
