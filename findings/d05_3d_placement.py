"""Defect 5 (C12): compute_features_3d(axis=(0, 1)) places result [i + j] instead of [i*n1 + j] at [i][j]."""
import sys, warnings; warnings.simplefilter('ignore')
sys.path.insert(0, sys.argv[1] if len(sys.argv) > 1 else '/repo')
sys.path.insert(0, __file__.rsplit('/', 1)[0])
import numpy as np
from _sig import sig
from bycycle.features import compute_features
from bycycle.group import compute_features_3d
sigs = np.array([[sig(seed=10*i+j) for j in range(3)] for i in range(2)])
kw = {'threshold_kwargs': {'min_n_cycles': 3}}
out = compute_features_3d(sigs, 500, (8, 12), compute_features_kwargs=kw, axis=(0, 1), n_jobs=2)
bad = [(i, j) for i in range(2) for j in range(3)
       if not out[i][j].equals(compute_features(sigs[i, j], 500, (8, 12), **kw))]
print('DEFECT misplaced entries %s' % bad if bad else 'OK'); sys.exit(1 if bad else 0)
