"""Defect D27 (C19): rename_extrema_df with an unknown center_extrema ('Trough', 'bogus', '', 0) returns the table unchanged instead of raising ValueError."""
import sys, warnings; warnings.simplefilter('ignore')
sys.path.insert(0, sys.argv[1] if len(sys.argv) > 1 else '/repo'); sys.path.insert(0, __file__.rsplit('/', 1)[0])
from _sig import sig
from bycycle.features import compute_shape_features
from bycycle.utils.dataframes import rename_extrema_df
df = compute_shape_features(sig(), 500, (8, 12))
bad = []
for v in ('Trough', 'bogus', '', 0):
    try:
        rename_extrema_df(v, df.copy()); bad.append(v)
    except ValueError:
        pass
print('DEFECT unknown centre accepted: %r' % bad if bad else 'OK'); sys.exit(1 if bad else 0)
