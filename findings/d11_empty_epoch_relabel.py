"""Defect 11 (C13): compute_features_2d(axis=None) with a per-epoch option list raises IndexError when an epoch
contains no cycle (detect_bursts_cycles indexes the first/last element of an empty label array)."""
import sys, warnings; warnings.simplefilter('ignore')
sys.path.insert(0, sys.argv[1] if len(sys.argv) > 1 else '/repo')
sys.path.insert(0, __file__.rsplit('/', 1)[0])
import numpy as np
from _sig import sig
from bycycle.group import compute_features_2d
x = sig(n=1200).reshape(60, 20)          # epochs of 20 samples at fs=500, 10 Hz rhythm: most epochs close no cycle
kw = [{'threshold_kwargs': {'min_n_cycles': 2}} for _ in range(60)]
try:
    out = compute_features_2d(x, 500, (8, 12), kw, axis=None)
    print('OK', sum(len(d) for d in out), 'cycles in', len(out), 'epochs,', sum(1 for d in out if len(d) == 0), 'empty'); sys.exit(0)
except Exception as e:
    print('DEFECT', type(e).__name__, e); sys.exit(1)
