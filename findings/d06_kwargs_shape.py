"""Defect 6 (C19): for a 3-D array and axis 0 or 1, a 2-D option list whose first extent matches is
accepted by check_kwargs_shape (and the flattened list is then silently mis-paired with the slices)."""
import sys, warnings; warnings.simplefilter('ignore')
sys.path.insert(0, sys.argv[1] if len(sys.argv) > 1 else '/repo')
import numpy as np
from bycycle.group.utils import check_kwargs_shape
sigs = np.zeros((2, 3, 50))
bad = []
for axis, shape in ((0, (2, 3)), (1, (3, 2)), (0, (2, 1))):
    kw = np.array([[{} for _ in range(shape[1])] for _ in range(shape[0])])
    try:
        check_kwargs_shape(sigs, kw, axis); bad.append((axis, shape))
    except ValueError:
        pass
print('DEFECT accepted (axis, list shape): %s' % bad if bad else 'OK'); sys.exit(1 if bad else 0)
