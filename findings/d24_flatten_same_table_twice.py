"""Defect D24 (C18): flatten_dfs with the SAME table object at two positions of the list: the labels are written into the caller's objects for all
positions before the concatenation, so the rows of the earlier position carry the label of the later one."""
import sys, warnings; warnings.simplefilter('ignore')
sys.path.insert(0, sys.argv[1] if len(sys.argv) > 1 else '/repo')
import numpy as np, pandas as pd
from bycycle.utils import flatten_dfs
a = pd.DataFrame({'period': [50, 51, 49], 'sample_peak': [10, 60, 111]})
b = pd.DataFrame({'period': [40, 41], 'sample_peak': [12, 52]})
bad = []
for lst, labs in (([a, b, a], ['ch0', 'ch1', 'ch2']), ([[a, b], [b, a]], [['x0', 'x1'], ['y0', 'y1']])):
    flat_labs = list(np.array(labs).flatten())
    flat_tabs = lst if isinstance(lst[0], pd.DataFrame) else [d for row in lst for d in row]
    want = [l for l, d in zip(flat_labs, flat_tabs) for _ in range(len(d))]
    got = list(flatten_dfs([d for d in lst] if isinstance(lst[0], pd.DataFrame) else [list(r) for r in lst], labs)['Label'])
    if got != want:
        bad.append((want, got))
print('DEFECT rows carry the label of another position: %s' % bad if bad else 'OK'); sys.exit(1 if bad else 0)
