"""Defect 13 (C20): with x-limits, plot_cyclepoints_array / _df do not draw a cyclepoint that sits on the last displayed sample
(points < times[-1]*fs), although it lies strictly inside the requested view."""
import sys, warnings; warnings.simplefilter('ignore')
sys.path.insert(0, sys.argv[1] if len(sys.argv) > 1 else '/repo')
import numpy as np, matplotlib; matplotlib.use('Agg'); import matplotlib.pyplot as plt
from bycycle.plts import plot_cyclepoints_array
fs = 64; sig = np.sin(np.arange(128) * 0.6)
peaks = np.array([10, 21, 31, 42]); troughs = np.array([5, 16, 26, 37])
plot_cyclepoints_array(sig, fs, peaks=peaks, troughs=troughs, xlim=(8 / fs, 43 / fs))      # displays samples 8..42; the peak at 42 is inside (8/fs, 43/fs)
drawn = sorted(int(round(x * fs)) for l in plt.gca().lines if l.get_marker() == 'o' for x in l.get_xdata())
plt.close('all')
ok = 42 in drawn
print('OK' if ok else 'DEFECT peak on the last displayed sample (42) not drawn; drawn = %s' % drawn); sys.exit(0 if ok else 1)
