"""Defect D20 (C13): compute_features_2d(axis=None) with the per-epoch option list written as [options] * n_epochs (ONE dictionary object at every
position): deepcopy keeps the aliasing, the re-labelling loop pops 'burst_method' / 'threshold_kwargs' from the shared dictionary at epoch 0, and
every later epoch is re-labelled with the library defaults (method 'cycles': KeyError on an amplitude table) instead of its own thresholds."""
import sys, warnings; warnings.simplefilter('ignore')
sys.path.insert(0, sys.argv[1] if len(sys.argv) > 1 else '/repo')
sys.path.insert(0, __file__.rsplit('/', 1)[0])
import numpy as np
from _sig import sig
from bycycle.group import compute_features_2d
x = sig(n=4000, fs=500, f=10)
sigs = x.reshape(4, 1000)
thr = {'amp_fraction_threshold': 0., 'amp_consistency_threshold': 0., 'period_consistency_threshold': 0., 'monotonicity_threshold': .1, 'min_n_cycles': 1}
d = {'threshold_kwargs': thr}
distinct = compute_features_2d(sigs, 500, (8, 12), compute_features_kwargs=[{'threshold_kwargs': dict(thr)} for _ in range(4)], axis=None)
try:
    same = compute_features_2d(sigs, 500, (8, 12), compute_features_kwargs=[d] * 4, axis=None)
    bad = [e for e in range(4) if not np.array_equal(same[e]['is_burst'].values, distinct[e]['is_burst'].values)]
except Exception as ex:
    bad = [repr(ex)]
print('DEFECT epochs labelled with other thresholds than their own: %s' % bad if bad else 'OK'); sys.exit(1 if bad else 0)
