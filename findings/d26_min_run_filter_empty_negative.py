"""Defect D26 (C19): check_min_burst_cycles (and through it detect_bursts_cycles / detect_bursts_amp on a table without cycles, e.g. an epoch in
which no cycle ends) accepts a negative min_n_cycles: the early return for an empty array comes before the range check."""
import sys, warnings; warnings.simplefilter('ignore')
sys.path.insert(0, sys.argv[1] if len(sys.argv) > 1 else '/repo')
import numpy as np
from bycycle.burst.utils import check_min_burst_cycles
try:
    check_min_burst_cycles(np.array([], dtype=bool), min_n_cycles=-1); bad = True
except ValueError:
    bad = False
print('DEFECT negative min_n_cycles accepted for an empty array' if bad else 'OK'); sys.exit(1 if bad else 0)
