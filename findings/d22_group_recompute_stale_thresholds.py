"""Defect D22 (C14): after BycycleGroup.fit, assigning another thresholds dictionary to the group (group.thresholds = {...}) and calling
group.recompute_edges() recomputes with the thresholds the models were built with at fit time, not with the thresholds the group holds."""
import sys, warnings; warnings.simplefilter('ignore')
sys.path.insert(0, sys.argv[1] if len(sys.argv) > 1 else '/repo')
sys.path.insert(0, __file__.rsplit('/', 1)[0])
import numpy as np
from _sig import sig
from bycycle import BycycleGroup
from bycycle.burst import recompute_edges
sigs = sig(n=4000, fs=500, f=10).reshape(2, 2000)
thr = {'amp_fraction_threshold': .3, 'amp_consistency_threshold': .5, 'period_consistency_threshold': .5, 'monotonicity_threshold': .8, 'min_n_cycles': 3}
new = {'amp_fraction_threshold': 0., 'amp_consistency_threshold': .1, 'period_consistency_threshold': .1, 'monotonicity_threshold': .2, 'min_n_cycles': 1}
bg = BycycleGroup(thresholds=dict(thr)); bg.fit(sigs, 500, (8, 12), n_jobs=1)
before = [d.copy() for d in bg.df_features]
bg.thresholds = dict(new)
bg.recompute_edges()
bad = [i for i in range(2) if not bg.df_features[i]['is_burst'].equals(recompute_edges(before[i], dict(new))['is_burst'])]
print('DEFECT group.recompute_edges ignored the thresholds the group holds, rows %s' % bad if bad else 'OK'); sys.exit(1 if bad else 0)
