"""D17 (C14): after BycycleGroup.recompute_edges(r) the group's models hold the recomputed tables but group.df_features still holds the
tables from fit(): models no longer mirror df_features position by position.  usage: python d17_...py [repo]   exit 1 = defect present."""
import sys
import warnings

sys.path.insert(0, sys.argv[1] if len(sys.argv) > 1 else '/repo')
warnings.simplefilter('ignore')
import numpy as np  # noqa: E402
from bycycle import BycycleGroup  # noqa: E402

rng = np.random.default_rng(0)
fs, n = 128, 128 * 6
t = np.arange(n) / fs
env = ((t > 0.8) & (t < 2.6)) | ((t > 3.4) & (t < 5.2))
sigs = np.array([np.round((env * np.sin(2 * np.pi * (9.5 + k) * t + k) + 0.25 * rng.standard_normal(n)) * 256) / 256 for k in range(3)])
thr = {'amp_fraction_threshold': 0.2, 'amp_consistency_threshold': 0.5, 'period_consistency_threshold': 0.5, 'monotonicity_threshold': 0.6, 'min_n_cycles': 2}
g = BycycleGroup(thresholds=dict(thr))
g.fit(sigs, fs, (8, 12), n_jobs=1)
before = [d['is_burst'].sum() for d in g.df_features]
g.recompute_edges(0.2)
bad = 0
for i, m in enumerate(g.models):
    same = m.df_features.equals(g.df_features[i])
    print('signal %d: bursting cycles at fit %d, in models[%d] after recompute_edges %d, in df_features[%d] %d -> %s'
          % (i, before[i], i, m.df_features['is_burst'].sum(), i, g.df_features[i]['is_burst'].sum(), 'mirror' if same else 'STALE'))
    bad += not same
sys.exit(1 if bad else 0)
