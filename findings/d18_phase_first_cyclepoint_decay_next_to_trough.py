"""D18 (C17): when the first supplied cyclepoint is a decay midpoint exactly one sample before the first trough, the head mask of
_merge_phases (first INCREASE of the merged phase) starts at the trough, because the step from +pi/2 to the wrapped -pi is a decrease:
the decay midpoint itself becomes NaN although it lies in the span of the supplied cyclepoints.   exit 1 = defect present."""
import sys

sys.path.insert(0, sys.argv[1] if len(sys.argv) > 1 else '/repo')
import numpy as np  # noqa: E402
from bycycle.cyclepoints import extrema_interpolated_phase  # noqa: E402

bad = 0
for dc0 in (9, 8, 5):
    pha = extrema_interpolated_phase(np.zeros(40), np.array([20]), np.array([10, 30]), np.array([15]), np.array([dc0, 25]))
    ok = np.isclose(pha[dc0], np.pi / 2) and np.all(np.isnan(pha[:dc0])) and np.all(np.isfinite(pha[dc0:31]))
    print('first cyclepoint: decay at %d, trough at 10 -> phase[%d] = %s %s' % (dc0, dc0, pha[dc0], 'ok' if ok else 'WRONG (NaN inside the span / anchor lost)'))
    bad += not ok
sys.exit(1 if bad else 0)
