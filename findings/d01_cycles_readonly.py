"""Defect 1 (C01): every burst_method='cycles' analysis raises (read-only array from Series.to_numpy())."""
import sys, warnings; warnings.simplefilter('ignore')
sys.path.insert(0, sys.argv[1] if len(sys.argv) > 1 else '/repo')
sys.path.insert(0, __file__.rsplit('/', 1)[0])
from _sig import sig
from bycycle.features import compute_features
try:
    df = compute_features(sig(), 500, (8, 12), threshold_kwargs={'min_n_cycles': 3})
    print('OK rows', len(df)); sys.exit(0)
except Exception as e:
    print('DEFECT', type(e).__name__, e); sys.exit(1)
