"""Defect 3 (C15, C14): burst_method='amp' writes into / pops from the caller's option dictionaries,
and a Bycycle object re-fitted after a threshold edit uses the stale min_n_cycles."""
import sys, copy, warnings; warnings.simplefilter('ignore')
sys.path.insert(0, sys.argv[1] if len(sys.argv) > 1 else '/repo')
sys.path.insert(0, __file__.rsplit('/', 1)[0])
from _sig import sig
from bycycle.features import compute_features, compute_shape_features, compute_burst_features
from bycycle import Bycycle
bad = []
bk, tk = {'amp_threshes': (1, 2)}, {'burst_fraction_threshold': .5, 'min_n_cycles': 2}
bk0, tk0 = copy.deepcopy(bk), copy.deepcopy(tk)
compute_features(sig(), 500, (8, 12), burst_method='amp', burst_kwargs=bk, threshold_kwargs=tk)
if bk != bk0 or tk != tk0: bad.append(('compute_features mutated', bk, tk))
bk = {'fs': 500, 'f_range': (8, 12)}; bk0 = copy.deepcopy(bk)
dfs = compute_shape_features(sig(), 500, (8, 12))
compute_burst_features(dfs, sig(), burst_method='amp', burst_kwargs=bk)
if bk != bk0: bad.append(('compute_burst_features mutated', bk))
# stale state: fit, edit min_n_cycles in thresholds, re-fit  vs  fresh object with the edited thresholds
th = {'burst_fraction_threshold': .5, 'min_n_cycles': 2}
b = Bycycle(burst_method='amp', thresholds=th, burst_kwargs={}); b.fit(sig(), 500, (8, 12))
b.thresholds['min_n_cycles'] = 6; b.fit(sig(), 500, (8, 12))
f = Bycycle(burst_method='amp', thresholds={'burst_fraction_threshold': .5, 'min_n_cycles': 6}, burst_kwargs={}); f.fit(sig(), 500, (8, 12))
if not (b.df_features['is_burst'].values == f.df_features['is_burst'].values).all() or b.thresholds['min_n_cycles'] != 6:
    bad.append(('stale min_n_cycles on re-fit', b.thresholds, int(b.df_features['is_burst'].sum()), int(f.df_features['is_burst'].sum())))
for x in bad: print('DEFECT', x)
print('OK' if not bad else ''); sys.exit(1 if bad else 0)
