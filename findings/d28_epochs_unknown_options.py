"""Defect D28 (C19): compute_features_2d(axis=None) accepts an unknown progress option (the branch never looks at it) and an unknown burst_method
in a later entry of a per-epoch option list (the epoch silently keeps the labels of entry 0)."""
import sys, warnings; warnings.simplefilter('ignore')
sys.path.insert(0, sys.argv[1] if len(sys.argv) > 1 else '/repo'); sys.path.insert(0, __file__.rsplit('/', 1)[0])
from _sig import sig
from bycycle.group import compute_features_2d
sigs = sig(n=3000).reshape(3, 1000)
bad = []
try:
    compute_features_2d(sigs, 500, (8, 12), axis=None, progress='bogus'); bad.append('progress')
except ValueError:
    pass
try:
    compute_features_2d(sigs, 500, (8, 12), compute_features_kwargs=[{}, {'burst_method': 'bogus'}, {}], axis=None); bad.append('burst_method of entry 1')
except ValueError:
    pass
print('DEFECT accepted: %s' % bad if bad else 'OK'); sys.exit(1 if bad else 0)
