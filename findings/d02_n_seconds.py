"""Defect 2 (C01/C02): a filter length given in seconds (filter_kwargs={'n_seconds': x}) raises in the pad computation."""
import sys, warnings; warnings.simplefilter('ignore')
sys.path.insert(0, sys.argv[1] if len(sys.argv) > 1 else '/repo')
sys.path.insert(0, __file__.rsplit('/', 1)[0])
from _sig import sig
from bycycle.cyclepoints import find_extrema
from bycycle.features import compute_features
try:
    p, t = find_extrema(sig(), 500, (8, 12), filter_kwargs={'n_seconds': 0.4})
    df = compute_features(sig(), 500, (8, 12), threshold_kwargs={'min_n_cycles': 3},
                          find_extrema_kwargs={'filter_kwargs': {'n_seconds': 0.4}})
    print('OK', len(p), len(t), len(df)); sys.exit(0)
except Exception as e:
    print('DEFECT', type(e).__name__, e); sys.exit(1)
