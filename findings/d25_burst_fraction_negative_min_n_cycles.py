"""Defect D25 (C19): compute_burst_fraction / compute_burst_features(burst_method='amp') called directly accept a negative min_n_cycles and return a table."""
import sys, warnings; warnings.simplefilter('ignore')
sys.path.insert(0, sys.argv[1] if len(sys.argv) > 1 else '/repo'); sys.path.insert(0, __file__.rsplit('/', 1)[0])
from _sig import sig
from bycycle.features import compute_cyclepoints
from bycycle.features.burst import compute_burst_fraction
x = sig(); df = compute_cyclepoints(x, 500, (8, 12))
try:
    compute_burst_fraction(df, x, 500, (8, 12), min_n_cycles=-1); bad = True
except ValueError:
    bad = False
print('DEFECT negative min_n_cycles accepted' if bad else 'OK'); sys.exit(1 if bad else 0)
