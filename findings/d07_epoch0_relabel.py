"""Defect 7 (C13): compute_features_2d(axis=None) with ONE option set re-labels epoch 0 in isolation
(its first/last cycle are cleared), so its labels differ from the flattened analysis."""
import sys, warnings; warnings.simplefilter('ignore')
sys.path.insert(0, sys.argv[1] if len(sys.argv) > 1 else '/repo')
sys.path.insert(0, __file__.rsplit('/', 1)[0])
import numpy as np
from _sig import sig
from bycycle.features import compute_features
from bycycle.group import compute_features_2d
from bycycle.utils import epoch_df
th = {'amp_fraction_threshold': 0., 'amp_consistency_threshold': .2, 'period_consistency_threshold': .2,
      'monotonicity_threshold': .4, 'min_n_cycles': 2}
bad = []
for seed in range(6):
    x = sig(n=3000, seed=seed).reshape(6, 500)
    out = compute_features_2d(x, 500, (8, 12), {'threshold_kwargs': dict(th)}, axis=None)
    ref = epoch_df(compute_features(x.flatten(), 500, (8, 12), threshold_kwargs=dict(th)), 3000, 500)
    for e in range(6):
        if list(out[e]['is_burst']) != list(ref[e]['is_burst']): bad.append((seed, e))
print('DEFECT (seed, epoch) with labels differing from the flattened analysis: %s' % bad if bad else 'OK')
sys.exit(1 if bad else 0)
