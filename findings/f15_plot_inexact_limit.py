"""Open finding F15 (C20): with fs not a power of two, an x-limit on a sample time t = s/fs for which fs*t is not exactly s
(e.g. fs=100, s=29: 100*0.29 = 28.999999999999996) makes the burst summary / parameter plots index with int(fs*start) = s-1:
the highlighted burst samples and the panel values are shifted by one sample / cycles at the window start are dropped."""
import sys, warnings; warnings.simplefilter('ignore')
sys.path.insert(0, sys.argv[1] if len(sys.argv) > 1 else '/repo')
sys.path.insert(0, __file__.rsplit('/', 1)[0])
import numpy as np, matplotlib; matplotlib.use('Agg'); import matplotlib.pyplot as plt
from _sig import sig
from bycycle.features import compute_features
from bycycle.plts import plot_burst_detect_summary
fs = 100; x = sig(n=600, fs=fs, f=10)
th = {'amp_fraction_threshold': .2, 'amp_consistency_threshold': .4, 'period_consistency_threshold': .4, 'monotonicity_threshold': .6}
df = compute_features(x, fs, (8, 12), threshold_kwargs=dict(th, min_n_cycles=2))
def highlighted(a, b):
    plot_burst_detect_summary(df, x, fs, th, xlim=(a / fs, b / fs), plot_only_result=True)
    l = [l for l in plt.gca().lines if l.get_label() == 'Bursts'][0]
    y = l.get_ydata(orig=True); t = np.asarray(l.get_xdata(orig=True))
    out = {int(round(v * fs)) for v in t[~np.ma.getmaskarray(y)]}; plt.close('all'); return out
allowed = set()
for r in df[df['is_burst']].to_dict('records'):
    allowed |= set(range(int(r['sample_last_trough']), int(r['sample_next_trough']) + 1))
bad = [a for a in (28, 29, 57, 58) if not highlighted(a, a + 300) <= allowed]
print('DEFECT highlighted samples outside burst cycles for window starts %s (fs=100)' % bad if bad else 'OK'); sys.exit(1 if bad else 0)
