"""Open finding F12 (C16): recompute_edges on a peak-centred table WITHOUT sample columns uses the trough-centred flank pairing."""
import sys, warnings; warnings.simplefilter('ignore')
sys.path.insert(0, sys.argv[1] if len(sys.argv) > 1 else '/repo')
sys.path.insert(0, __file__.rsplit('/', 1)[0])
import numpy as np
from _sig import sig
from bycycle.features import compute_features
from bycycle.burst.utils import recompute_edges
th = {'amp_fraction_threshold': 0., 'amp_consistency_threshold': .5, 'period_consistency_threshold': .5, 'monotonicity_threshold': .5, 'min_n_cycles': 2}
bad = 0
for seed in range(8):
    x = sig(seed=seed)
    a = recompute_edges(compute_features(x, 500, (8, 12), threshold_kwargs=dict(th), return_samples=True), dict(th))
    b = recompute_edges(compute_features(x, 500, (8, 12), threshold_kwargs=dict(th), return_samples=False), dict(th))
    if not np.allclose(a['amp_consistency'].values, b['amp_consistency'].values, equal_nan=True): bad += 1
print('DEFECT edge consistencies differ with/without sample columns in %d of 8 signals' % bad if bad else 'OK'); sys.exit(1 if bad else 0)
