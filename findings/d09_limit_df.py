"""Defect 9 (C18): limit_df / limit_signal raise TypeError when a limit is None (the default), and
limit_df raises KeyError for trough-centred tables with reset_indices=True."""
import sys, warnings; warnings.simplefilter('ignore')
sys.path.insert(0, sys.argv[1] if len(sys.argv) > 1 else '/repo')
sys.path.insert(0, __file__.rsplit('/', 1)[0])
import numpy as np
from _sig import sig
from bycycle.features import compute_features
from bycycle.utils import limit_df, limit_signal
bad = []
x = sig(); th = {'min_n_cycles': 3}
dfp = compute_features(x, 500, (8, 12), threshold_kwargs=th)
dft = compute_features(x, 500, (8, 12), threshold_kwargs=th, center_extrema='trough')
times = np.arange(len(x)) / 500
for name, f in (('limit_df(start=None, stop=2)', lambda: limit_df(dfp, 500, start=None, stop=2)),
                ('limit_df(start=1, stop=None)', lambda: limit_df(dfp, 500, start=1, stop=None)),
                ('limit_df()', lambda: limit_df(dfp, 500)),
                ('limit_df(trough-centred, start=1, stop=3)', lambda: limit_df(dft, 500, start=1, stop=3)),
                ('limit_signal(start=1)', lambda: limit_signal(times, x, start=1)),
                ('limit_signal(stop=2)', lambda: limit_signal(times, x, stop=2))):
    try: f()
    except Exception as e: bad.append((name, type(e).__name__, str(e)[:60]))
for b in bad: print('DEFECT', b)
print('OK' if not bad else ''); sys.exit(1 if bad else 0)
