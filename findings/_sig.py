"""Shared tiny helper for the defect demonstrations: a deterministic bursty test signal."""
import numpy as np
def sig(n=2000, fs=500, f=10, seed=0):
    rng = np.random.default_rng(seed)
    t = np.arange(n) / fs
    env = (np.sin(2*np.pi*0.7*t) > -0.3).astype(float)
    x = env*np.sin(2*np.pi*f*t) + 0.3*np.sin(2*np.pi*3*t+1) + 0.15*rng.standard_normal(n)
    return np.round(x*1024)/1024
