"""Open finding F15b (C18): limit_df with a limit on a sample time s/fs for which fs*(s/fs) != s (fs not a power of two) drops a cycle that lies
entirely inside [start, stop] (its closing / opening extremum is exactly on the limit), and shifts by s-1 instead of s with reset_indices."""
import sys, warnings; warnings.simplefilter('ignore')
sys.path.insert(0, sys.argv[1] if len(sys.argv) > 1 else '/repo')
import numpy as np, pandas as pd
from bycycle.utils import limit_df
fs = 1000
k = np.arange(0, 30)
df = pd.DataFrame({'sample_last_trough': 91 * k, 'sample_last_zerox_decay': 91 * k - 20, 'sample_zerox_rise': 91 * k + 20, 'sample_peak': 91 * k + 45,
                   'sample_zerox_decay': 91 * k + 70, 'sample_next_trough': 91 * k + 91, 'period': 91})
bad = []
for s in (1001, 1092, 2002):           # closing extrema of cycles: s / fs is a sample time, fs * (s / fs) is a hair below s for 1001
    stop = s / fs
    inside = df[(df['sample_last_trough'] / fs >= 0) & (df['sample_next_trough'] / fs <= stop)]
    got = limit_df(df, fs, start=0, stop=stop, reset_indices=False)
    if len(got) != len(inside):
        bad.append(('stop', s, len(got), len(inside)))
print('DEFECT cycles entirely inside the window are dropped: %s' % bad if bad else 'OK'); sys.exit(1 if bad else 0)
